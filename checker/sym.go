package main

import (
	"fmt"
	"go/ast"
	"go/constant"
	"go/token"
	"go/types"
	"math/big"
	"sort"
	"strings"

	"golang.org/x/tools/go/packages"
	"golang.org/x/tools/go/types/typeutil"
)

// Symbolic lifting of straight-line numeric code to polynomial normal form over opaque atoms.
// Used by the rules that compare a piece of arithmetic in the source with a formula (rendering geometry,
// perspective-transform algebra, variance score, generator roots). No value is ever computed from inputs:
// the result is a term over the function's inputs.

type Poly struct {
	m map[string]*big.Rat // monomial (atoms joined by '*', sorted; "" = constant) -> coefficient
}

func newPoly() *Poly { return &Poly{m: map[string]*big.Rat{}} }

func polyConstRat(r *big.Rat) *Poly {
	p := newPoly()
	if r.Sign() != 0 {
		p.m[""] = new(big.Rat).Set(r)
	}
	return p
}
func polyInt(i int64) *Poly { return polyConstRat(new(big.Rat).SetInt64(i)) }
func polyAtom(a string) *Poly {
	p := newPoly()
	p.m[a] = big.NewRat(1, 1)
	return p
}

func (p *Poly) clone() *Poly {
	q := newPoly()
	for k, v := range p.m {
		q.m[k] = new(big.Rat).Set(v)
	}
	return q
}

func (p *Poly) add(q *Poly) *Poly {
	r := p.clone()
	for k, v := range q.m {
		if c, ok := r.m[k]; ok {
			c.Add(c, v)
			if c.Sign() == 0 {
				delete(r.m, k)
			}
		} else {
			r.m[k] = new(big.Rat).Set(v)
		}
	}
	return r
}

func (p *Poly) neg() *Poly {
	r := newPoly()
	for k, v := range p.m {
		r.m[k] = new(big.Rat).Neg(v)
	}
	return r
}

func (p *Poly) sub(q *Poly) *Poly { return p.add(q.neg()) }

func mulMono(a, b string) string {
	if a == "" {
		return b
	}
	if b == "" {
		return a
	}
	parts := append(splitMono(a), splitMono(b)...)
	sort.Strings(parts)
	return strings.Join(parts, "\x1f")
}

func splitMono(a string) []string {
	if a == "" {
		return nil
	}
	return strings.Split(a, "\x1f")
}

func (p *Poly) mul(q *Poly) *Poly {
	r := newPoly()
	for k1, v1 := range p.m {
		for k2, v2 := range q.m {
			k := mulMono(k1, k2)
			c := new(big.Rat).Mul(v1, v2)
			if old, ok := r.m[k]; ok {
				old.Add(old, c)
				if old.Sign() == 0 {
					delete(r.m, k)
				}
			} else if c.Sign() != 0 {
				r.m[k] = c
			}
		}
	}
	return r
}

func (p *Poly) isConst() (*big.Rat, bool) {
	if len(p.m) == 0 {
		return new(big.Rat), true
	}
	if len(p.m) == 1 {
		if c, ok := p.m[""]; ok {
			return c, true
		}
	}
	return nil, false
}

func (p *Poly) equal(q *Poly) bool {
	if len(p.m) != len(q.m) {
		return false
	}
	for k, v := range p.m {
		w, ok := q.m[k]
		if !ok || v.Cmp(w) != 0 {
			return false
		}
	}
	return true
}

// String is canonical: usable as an atom argument.
func (p *Poly) String() string {
	if len(p.m) == 0 {
		return "0"
	}
	keys := make([]string, 0, len(p.m))
	for k := range p.m {
		keys = append(keys, k)
	}
	sort.Strings(keys)
	var sb strings.Builder
	for i, k := range keys {
		c := p.m[k]
		if i > 0 {
			sb.WriteString(" + ")
		}
		cs := c.RatString()
		mono := strings.ReplaceAll(k, "\x1f", "*")
		switch {
		case k == "":
			sb.WriteString(cs)
		case cs == "1":
			sb.WriteString(mono)
		default:
			sb.WriteString(cs + "*" + mono)
		}
	}
	return sb.String()
}

// symbolic helpers producing canonical atoms
func symDiv(kind string, a, b *Poly) *Poly {
	if bc, ok := b.isConst(); ok && bc.Sign() != 0 && kind == "fdiv" {
		return a.mul(polyConstRat(new(big.Rat).Inv(bc)))
	}
	if ac, ok := a.isConst(); ok && ac.Sign() == 0 {
		return polyInt(0)
	}
	if bc, ok := b.isConst(); ok && kind == "idiv" && bc.IsInt() && bc.Sign() > 0 {
		// exact integer division when every coefficient is a multiple of the divisor (all atoms of an
		// integer-typed term are integers)
		all := len(a.m) > 0
		for _, c := range a.m {
			q := new(big.Rat).Quo(c, bc)
			if !q.IsInt() {
				all = false
			}
		}
		if all {
			return a.mul(polyConstRat(new(big.Rat).Inv(bc)))
		}
	}
	return polyAtom(kind + "(" + a.String() + "," + b.String() + ")")
}
func symMax(a, b *Poly) *Poly {
	if a.equal(b) {
		return a
	}
	x, y := a.String(), b.String()
	if x > y {
		x, y = y, x
	}
	return polyAtom("max(" + x + "," + y + ")")
}
func symMin(a, b *Poly) *Poly {
	if a.equal(b) {
		return a
	}
	x, y := a.String(), b.String()
	if x > y {
		x, y = y, x
	}
	return polyAtom("min(" + x + "," + y + ")")
}
func symAbs(a *Poly) *Poly {
	// abs(-a) == abs(a): canonicalise the sign by the first monomial's coefficient
	s := a.String()
	n := a.neg().String()
	if n < s {
		s = n
	}
	return polyAtom("abs(" + s + ")")
}

type symCond struct {
	op   token.Token // comparison operator, or ILLEGAL for opaque
	l, r *Poly
	text string // opaque text otherwise
	neg  bool
}

func (c symCond) String() string {
	s := c.text
	if c.op != token.ILLEGAL {
		s = c.l.String() + " " + c.op.String() + " " + c.r.String()
	}
	if c.neg {
		return "!(" + s + ")"
	}
	return s
}

type symCall struct {
	Callee types.Object
	Call   *ast.CallExpr
	Args   []*Poly
	Conds  []symCond
	Recv   *Poly
}

type symRet struct {
	Vals  []*Poly
	Conds []symCond
	Stmt  *ast.ReturnStmt
}

type symAssign struct {
	Obj   types.Object
	Val   *Poly // value assigned
	Delta *Poly // for op= / ++ : the right-hand side alone
	Tok   token.Token
	Conds []symCond
	Stmt  ast.Stmt
	Loop  int
}

type symStore struct {
	Base, Index, Val *Poly
	Field            string
	Conds            []symCond
	Stmt             ast.Stmt
	Loop             int
}

type symExec struct {
	stores    []symStore
	assigns   []symAssign
	loopDepth int
	c         *Ctx
	p         *packages.Package
	env       map[types.Object]*Poly
	conds     []symCond
	calls     []symCall
	rets      []symRet
	fresh     int
	pure      func(callee types.Object) bool // calls whose result is a function of (receiver, args)
	inline    func(callee types.Object) *ast.FuncDecl
	loopK     []string
	undec     []string
	onCall    func(s *symExec, call *ast.CallExpr, callee types.Object) // observes a call in the current environment
	onIndex   func(s *symExec, ix *ast.IndexExpr, base, index *Poly)    // observes an element read
}

func (c *Ctx) newSymExec(p *packages.Package) *symExec {
	return &symExec{c: c, p: p, env: map[types.Object]*Poly{}}
}

func (s *symExec) atomFor(obj types.Object) *Poly {
	if v, ok := s.env[obj]; ok {
		return v
	}
	return polyAtom(objAtom(obj))
}

func objAtom(obj types.Object) string {
	if obj == nil {
		return "?"
	}
	return fmt.Sprintf("%s#%d", obj.Name(), obj.Pos())
}

func (s *symExec) freshAtom(prefix string) *Poly {
	s.fresh++
	return polyAtom(fmt.Sprintf("%s~%d", prefix, s.fresh))
}

func (s *symExec) expr(e ast.Expr) *Poly {
	info := s.p.TypesInfo
	if tv, ok := info.Types[e]; ok && tv.Value != nil {
		switch tv.Value.Kind() {
		case constant.Int, constant.Float:
			if r, ok := new(big.Rat).SetString(tv.Value.ExactString()); ok {
				return polyConstRat(r)
			}
		case constant.Bool:
			if constant.BoolVal(tv.Value) {
				return polyAtom("true")
			}
			return polyAtom("false")
		}
	}
	switch x := e.(type) {
	case *ast.ParenExpr:
		return s.expr(x.X)
	case *ast.Ident:
		obj := info.Uses[x]
		if obj == nil {
			obj = info.Defs[x]
		}
		return s.atomFor(obj)
	case *ast.UnaryExpr:
		switch x.Op {
		case token.SUB:
			return s.expr(x.X).neg()
		case token.ADD:
			return s.expr(x.X)
		case token.NOT:
			return polyAtom("!(" + s.expr(x.X).String() + ")")
		}
	case *ast.BinaryExpr:
		a, b := s.expr(x.X), s.expr(x.Y)
		switch x.Op {
		case token.ADD:
			return a.add(b)
		case token.SUB:
			return a.sub(b)
		case token.MUL:
			return a.mul(b)
		case token.QUO:
			kind := "idiv"
			if t := info.TypeOf(e); t != nil {
				if bt, ok := t.Underlying().(*types.Basic); ok && bt.Info()&types.IsFloat != 0 {
					kind = "fdiv"
				}
			}
			return symDiv(kind, a, b)
		case token.REM:
			return polyAtom("mod(" + a.String() + "," + b.String() + ")")
		case token.SHR:
			if bc, ok := b.isConst(); ok && bc.IsInt() && bc.Num().Int64() >= 0 && bc.Num().Int64() < 31 {
				// x >> k == floor(x / 2^k); equals Go's truncated x / 2^k only for x >= 0 (callers state that)
				return polyAtom("shr(" + a.String() + "," + bc.RatString() + ")")
			}
		case token.SHL:
			if bc, ok := b.isConst(); ok && bc.IsInt() && bc.Num().Int64() >= 0 && bc.Num().Int64() < 31 {
				return a.mul(polyInt(1 << uint(bc.Num().Int64())))
			}
		case token.AND, token.OR, token.XOR, token.AND_NOT:
			return polyAtom(x.Op.String() + "(" + a.String() + "," + b.String() + ")")
		case token.EQL, token.NEQ, token.LSS, token.LEQ, token.GTR, token.GEQ, token.LAND, token.LOR:
			return polyAtom("(" + a.String() + " " + x.Op.String() + " " + b.String() + ")")
		}
	case *ast.CompositeLit:
		var parts []string
		for _, el := range x.Elts {
			if kv, ok := el.(*ast.KeyValueExpr); ok {
				parts = append(parts, s.expr(kv.Value).String())
			} else {
				parts = append(parts, s.expr(el).String())
			}
		}
		return polyAtom("lit{" + strings.Join(parts, ";") + "}")
	case *ast.IndexExpr:
		bp, ip := s.expr(x.X), s.expr(x.Index)
		if s.onIndex != nil {
			s.onIndex(s, x, bp, ip)
		}
		return polyAtom("idx(" + bp.String() + "," + ip.String() + ")")
	case *ast.SelectorExpr:
		if obj, ok := info.Uses[x.Sel]; ok {
			if _, isVar := obj.(*types.Var); isVar && obj.Pkg() != nil && obj.Parent() == obj.Pkg().Scope() {
				return s.atomFor(obj)
			}
		}
		return polyAtom("fld(" + s.expr(x.X).String() + "," + x.Sel.Name + ")")
	case *ast.StarExpr:
		return s.expr(x.X)
	case *ast.SliceExpr:
		lo, hi := "", ""
		if x.Low != nil {
			lo = s.expr(x.Low).String()
		}
		if x.High != nil {
			hi = s.expr(x.High).String()
		}
		return polyAtom("slice(" + s.expr(x.X).String() + "," + lo + ":" + hi + ")")
	case *ast.CallExpr:
		if ftv, ok := info.Types[x.Fun]; ok && ftv.IsType() && len(x.Args) == 1 {
			// numeric conversion: transparent in the term (int division vs float division is kept in the div atom)
			src := info.TypeOf(x.Args[0])
			dst := ftv.Type
			if isFloatT(src) && isIntT(dst) {
				return polyAtom("trunc(" + s.expr(x.Args[0]).String() + ")")
			}
			return s.expr(x.Args[0])
		}
		callee := typeutil.Callee(info, x)
		if s.onCall != nil {
			s.onCall(s, x, callee)
		}
		if b, ok := callee.(*types.Builtin); ok && b.Name() == "len" {
			return polyAtom("len(" + s.expr(x.Args[0]).String() + ")")
		}
		var args []*Poly
		for _, a := range x.Args {
			args = append(args, s.expr(a))
		}
		var recv *Poly
		if sel, ok := x.Fun.(*ast.SelectorExpr); ok {
			if _, isMethod := info.Selections[sel]; isMethod {
				recv = s.expr(sel.X)
			}
		}
		// helper functions whose body is a max/min diamond
		if fn, ok := callee.(*types.Func); ok && len(args) == 2 {
			switch s.c.minMaxHelper(fn) {
			case "max":
				return symMax(args[0], args[1])
			case "min":
				return symMin(args[0], args[1])
			}
		}
		if fn, ok := callee.(*types.Func); ok && fn.Pkg() != nil && fn.Pkg().Path() == "math" {
			switch fn.Name() {
			case "Abs":
				return symAbs(args[0])
			case "Inf":
				if c, ok := args[0].isConst(); ok {
					if c.Sign() >= 0 {
						return polyAtom("+Inf")
					}
					return polyAtom("-Inf")
				}
			case "Max":
				return symMax(args[0], args[1])
			case "Min":
				return symMin(args[0], args[1])
			}
		}
		s.calls = append(s.calls, symCall{Callee: callee, Call: x, Args: args, Conds: append([]symCond(nil), s.conds...), Recv: recv})
		if s.pure != nil && s.pure(callee) {
			var as []string
			if recv != nil {
				as = append(as, recv.String())
			}
			for _, a := range args {
				as = append(as, a.String())
			}
			return polyAtom("call:" + shortObj(callee) + "(" + strings.Join(as, ";") + ")")
		}
		return s.freshAtom("call:" + shortObj(callee))
	}
	return s.freshAtom("opaque")
}

func isFloatT(t types.Type) bool {
	if t == nil {
		return false
	}
	b, ok := t.Underlying().(*types.Basic)
	return ok && b.Info()&types.IsFloat != 0
}
func isIntT(t types.Type) bool {
	if t == nil {
		return false
	}
	b, ok := t.Underlying().(*types.Basic)
	return ok && b.Info()&types.IsInteger != 0
}

// minMaxHelper recognises `func f(a, b T) T { if a > b { return a }; return b }` and variants.
func (c *Ctx) minMaxHelper(fn *types.Func) string {
	fd := c.funcDecl[fn]
	if fd == nil || fd.Recv != nil || fd.Body == nil || len(fd.Body.List) != 2 {
		return ""
	}
	p := c.declPkg[fd]
	ps := paramObjs(p, fd)
	if len(ps) != 2 {
		return ""
	}
	ifs, ok := fd.Body.List[0].(*ast.IfStmt)
	if !ok || ifs.Else != nil || ifs.Init != nil || len(ifs.Body.List) != 1 {
		return ""
	}
	r1, ok := ifs.Body.List[0].(*ast.ReturnStmt)
	r2, ok2 := fd.Body.List[1].(*ast.ReturnStmt)
	if !ok || !ok2 || len(r1.Results) != 1 || len(r2.Results) != 1 {
		return ""
	}
	be, ok := ifs.Cond.(*ast.BinaryExpr)
	if !ok {
		return ""
	}
	obj := func(e ast.Expr) types.Object {
		if id, ok := e.(*ast.Ident); ok {
			return p.TypesInfo.Uses[id]
		}
		return nil
	}
	l, rr, t, f := obj(be.X), obj(be.Y), obj(r1.Results[0]), obj(r2.Results[0])
	if l == nil || rr == nil || t == nil || f == nil || l == rr || t == f {
		return ""
	}
	if !((l == ps[0] && rr == ps[1]) || (l == ps[1] && rr == ps[0])) || !((t == l && f == rr) || (t == rr && f == l)) {
		return ""
	}
	switch be.Op {
	case token.GTR, token.GEQ:
		if t == l {
			return "max"
		}
		return "min"
	case token.LSS, token.LEQ:
		if t == l {
			return "min"
		}
		return "max"
	}
	return ""
}

func (s *symExec) cond(e ast.Expr) symCond {
	if p, ok := e.(*ast.ParenExpr); ok {
		return s.cond(p.X)
	}
	if u, ok := e.(*ast.UnaryExpr); ok && u.Op == token.NOT {
		c := s.cond(u.X)
		c.neg = !c.neg
		return c
	}
	if be, ok := e.(*ast.BinaryExpr); ok {
		switch be.Op {
		case token.LSS, token.LEQ, token.GTR, token.GEQ, token.EQL, token.NEQ:
			return symCond{op: be.Op, l: s.expr(be.X), r: s.expr(be.Y)}
		}
	}
	return symCond{text: s.expr(e).String()}
}

// pushCond records that e holds (neg=false) or fails (neg=true), splitting conjunctions / negated disjunctions.
func (s *symExec) pushCond(e ast.Expr, neg bool) {
	e = ast.Unparen(e)
	if u, ok := e.(*ast.UnaryExpr); ok && u.Op == token.NOT {
		s.pushCond(u.X, !neg)
		return
	}
	if be, ok := e.(*ast.BinaryExpr); ok {
		if (be.Op == token.LAND && !neg) || (be.Op == token.LOR && neg) {
			s.pushCond(be.X, neg)
			s.pushCond(be.Y, neg)
			return
		}
	}
	c := s.cond(e)
	if neg {
		c = negCond(c)
	}
	s.conds = append(s.conds, c)
}

func negCond(c symCond) symCond {
	c.neg = !c.neg
	return c
}

// terminates reports whether a statement list always leaves the enclosing sequence (return/continue/break/panic).
func terminates(list []ast.Stmt) bool {
	if len(list) == 0 {
		return false
	}
	switch x := list[len(list)-1].(type) {
	case *ast.ReturnStmt:
		return true
	case *ast.BranchStmt:
		return x.Tok == token.CONTINUE || x.Tok == token.BREAK || x.Tok == token.GOTO
	case *ast.BlockStmt:
		return terminates(x.List)
	case *ast.IfStmt:
		if x.Else == nil {
			return false
		}
		eb, ok := x.Else.(*ast.BlockStmt)
		if !ok {
			return terminates(x.Body.List) && terminates([]ast.Stmt{x.Else})
		}
		return terminates(x.Body.List) && terminates(eb.List)
	}
	return false
}

func (s *symExec) block(list []ast.Stmt) {
	for _, st := range list {
		s.stmt(st)
	}
}

func (s *symExec) assignObj(l ast.Expr) types.Object {
	id, ok := l.(*ast.Ident)
	if !ok || id.Name == "_" {
		return nil
	}
	if o := s.p.TypesInfo.Defs[id]; o != nil {
		return o
	}
	return s.p.TypesInfo.Uses[id]
}

func (s *symExec) copyEnv() map[types.Object]*Poly {
	m := make(map[types.Object]*Poly, len(s.env))
	for k, v := range s.env {
		m[k] = v
	}
	return m
}

func (s *symExec) ite(c symCond, a, b *Poly) *Poly {
	if a.equal(b) {
		return a
	}
	if c.op != token.ILLEGAL && !c.neg {
		l, r := c.l, c.r
		op := c.op
		// normalise to l < r / l <= r
		if op == token.GTR || op == token.GEQ {
			l, r = r, l
			if op == token.GTR {
				op = token.LSS
			} else {
				op = token.LEQ
			}
		}
		if op == token.LSS || op == token.LEQ {
			// ite(l < r, r, l) = max; ite(l < r, l, r) = min (ties give equal values)
			if a.equal(r) && b.equal(l) {
				return symMax(l, r)
			}
			if a.equal(l) && b.equal(r) {
				return symMin(l, r)
			}
			// abs: ite(x < 0, -x, x)
			if rc, ok := r.isConst(); ok && rc.Sign() == 0 && a.equal(l.neg()) && b.equal(l) {
				return symAbs(l)
			}
			if lc, ok := l.isConst(); ok && lc.Sign() == 0 && a.equal(r) && b.equal(r.neg()) {
				// 0 < x ? x : -x
				return symAbs(r)
			}
		}
	}
	return polyAtom("ite(" + c.String() + ";" + a.String() + ";" + b.String() + ")")
}

func (s *symExec) stmt(st ast.Stmt) {
	info := s.p.TypesInfo
	switch x := st.(type) {
	case *ast.EmptyStmt:
	case *ast.BlockStmt:
		s.block(x.List)
	case *ast.ExprStmt:
		s.expr(x.X)
	case *ast.DeclStmt:
		if gd, ok := x.Decl.(*ast.GenDecl); ok && gd.Tok == token.VAR {
			for _, sp := range gd.Specs {
				vs := sp.(*ast.ValueSpec)
				for i, n := range vs.Names {
					obj := info.Defs[n]
					if i < len(vs.Values) {
						s.env[obj] = s.expr(vs.Values[i])
					} else if isIntT(obj.Type()) || isFloatT(obj.Type()) {
						s.env[obj] = polyInt(0)
					}
				}
			}
		}
	case *ast.AssignStmt:
		if len(x.Lhs) == len(x.Rhs) {
			vals := make([]*Poly, len(x.Rhs))
			for i, e := range x.Rhs {
				if x.Tok == token.ASSIGN || x.Tok == token.DEFINE {
					vals[i] = s.expr(e)
				} else {
					op := assignOp(x.Tok)
					vals[i] = s.expr(&ast.BinaryExpr{X: x.Lhs[i], Op: op, Y: e, OpPos: x.TokPos})
					// type of synthetic node is unknown to go/types: redo division kind by the lhs type
					if op == token.QUO {
						kind := "idiv"
						if isFloatT(info.TypeOf(x.Lhs[i])) {
							kind = "fdiv"
						}
						vals[i] = symDiv(kind, s.expr(x.Lhs[i]), s.expr(e))
					}
				}
			}
			for i, l := range x.Lhs {
				if obj := s.assignObj(l); obj != nil {
					s.env[obj] = vals[i]
					var delta *Poly
					if x.Tok != token.ASSIGN && x.Tok != token.DEFINE {
						delta = s.expr(x.Rhs[i])
					}
					s.assigns = append(s.assigns, symAssign{Obj: obj, Val: vals[i], Delta: delta, Tok: x.Tok, Conds: append([]symCond(nil), s.conds...), Stmt: x, Loop: s.loopDepth})
				} else if ix, ok := l.(*ast.IndexExpr); ok {
					s.stores = append(s.stores, symStore{Base: s.expr(ix.X), Index: s.expr(ix.Index), Val: vals[i], Conds: append([]symCond(nil), s.conds...), Stmt: x, Loop: s.loopDepth})
				} else if sel, ok := l.(*ast.SelectorExpr); ok {
					s.stores = append(s.stores, symStore{Base: s.expr(sel.X), Field: sel.Sel.Name, Val: vals[i], Conds: append([]symCond(nil), s.conds...), Stmt: x, Loop: s.loopDepth})
				} else if _, ok := l.(*ast.Ident); !ok {
					s.expr(l)
				}
			}
		} else if len(x.Rhs) == 1 {
			v := s.expr(x.Rhs[0])
			for i, l := range x.Lhs {
				if obj := s.assignObj(l); obj != nil {
					if i == 0 {
						s.env[obj] = v
					} else {
						s.env[obj] = polyAtom(fmt.Sprintf("res%d(%s)", i, v.String()))
					}
				}
			}
		}
	case *ast.IncDecStmt:
		if obj := s.assignObj(x.X); obj != nil {
			d := polyInt(1)
			if x.Tok == token.DEC {
				d = polyInt(-1)
			}
			s.env[obj] = s.expr(x.X).add(d)
		}
	case *ast.ReturnStmt:
		var vals []*Poly
		for _, e := range x.Results {
			vals = append(vals, s.expr(e))
		}
		s.rets = append(s.rets, symRet{Vals: vals, Conds: append([]symCond(nil), s.conds...), Stmt: x})
	case *ast.IfStmt:
		if x.Init != nil {
			s.stmt(x.Init)
		}
		c := s.cond(x.Cond)
		before := s.copyEnv()
		n0 := len(s.conds)
		s.pushCond(x.Cond, false)
		s.block(x.Body.List)
		s.conds = s.conds[:n0]
		thenEnv := s.env
		thenTerm := terminates(x.Body.List)
		s.env = before
		elseTerm := false
		elseEnv := s.copyEnv()
		if x.Else != nil {
			s.env = elseEnv
			s.pushCond(x.Cond, true)
			s.stmt(x.Else)
			s.conds = s.conds[:n0]
			elseEnv = s.env
			switch eb := x.Else.(type) {
			case *ast.BlockStmt:
				elseTerm = terminates(eb.List)
			case *ast.IfStmt:
				elseTerm = terminates([]ast.Stmt{eb})
			}
		}
		switch {
		case thenTerm && elseTerm:
			s.env = elseEnv
		case thenTerm:
			s.env = elseEnv
			s.pushCond(x.Cond, true) // the rest of the sequence runs under !c
			// note: conds pushed here are popped by the enclosing construct restoring its own length
		case elseTerm:
			s.env = thenEnv
			s.pushCond(x.Cond, false)
		default:
			merged := map[types.Object]*Poly{}
			keys := map[types.Object]bool{}
			for k := range thenEnv {
				keys[k] = true
			}
			for k := range elseEnv {
				keys[k] = true
			}
			for k := range keys {
				a, okA := thenEnv[k]
				b, okB := elseEnv[k]
				if !okA {
					a = polyAtom(objAtom(k))
				}
				if !okB {
					b = polyAtom(objAtom(k))
				}
				merged[k] = s.ite(c, a, b)
			}
			s.env = merged
		}
	case *ast.ForStmt:
		s.forStmt(x)
	case *ast.RangeStmt:
		nconds := len(s.conds)
		// `for i := range xs` is the counted loop `for i := 0; i < len(xs); i++`: the key is a trip counter of the
		// same kind (K~n) and the body runs under i < len(xs)
		k := s.freshAtom("K")
		if obj := s.assignObj(x.Key); x.Key != nil && obj != nil {
			s.env[obj] = k
		}
		if t := s.p.TypesInfo.TypeOf(x.X); t != nil {
			switch t.Underlying().(type) {
			case *types.Slice, *types.Array:
				s.conds = append(s.conds, symCond{op: token.LSS, l: k, r: polyAtom("len(" + s.expr(x.X).String() + ")")})
			}
		}
		if x.Value != nil {
			if obj := s.assignObj(x.Value); obj != nil {
				s.env[obj] = polyAtom("idx(" + s.expr(x.X).String() + "," + k.String() + ")")
			}
		}
		s.havocAssigned(x.Body, nil)
		s.loopDepth++
		s.block(x.Body.List)
		s.loopDepth--
		s.conds = s.conds[:nconds]
		s.havocAssigned(x.Body, nil)
	case *ast.SwitchStmt:
		if x.Init != nil {
			s.stmt(x.Init)
		}
		var tag *Poly
		if x.Tag != nil {
			tag = s.expr(x.Tag)
		}
		before := s.copyEnv()
		for _, cl := range x.Body.List {
			cc := cl.(*ast.CaseClause)
			s.env = copyPolyEnv(before)
			nconds := len(s.conds)
			txt := "default"
			if cc.List != nil {
				var parts []string
				for _, e := range cc.List {
					parts = append(parts, s.expr(e).String())
				}
				txt = strings.Join(parts, "|")
			}
			if tag != nil {
				txt = tag.String() + " in " + txt
			}
			s.conds = append(s.conds, symCond{text: "case " + txt})
			s.block(cc.Body)
			s.conds = s.conds[:nconds]
		}
		s.env = before
		s.havocAssigned(x.Body, nil)
	case *ast.LabeledStmt:
		s.stmt(x.Stmt)
	case *ast.BranchStmt, *ast.DeferStmt, *ast.GoStmt:
	default:
		s.undec = append(s.undec, fmt.Sprintf("%s: statement %T not lifted", s.c.pos(st.Pos()), st))
	}
}

func copyPolyEnv(m map[types.Object]*Poly) map[types.Object]*Poly {
	o := make(map[types.Object]*Poly, len(m))
	for k, v := range m {
		o[k] = v
	}
	return o
}

// havocAssigned replaces every variable assigned in body (except keep) by a fresh atom.
func (s *symExec) havocAssigned(body ast.Node, keep map[types.Object]bool) {
	ast.Inspect(body, func(n ast.Node) bool {
		switch x := n.(type) {
		case *ast.AssignStmt:
			for _, l := range x.Lhs {
				if obj := s.assignObj(l); obj != nil && !keep[obj] && x.Tok != token.DEFINE {
					s.env[obj] = s.freshAtom("loop:" + obj.Name())
				}
			}
		case *ast.IncDecStmt:
			if obj := s.assignObj(x.X); obj != nil && !keep[obj] {
				s.env[obj] = s.freshAtom("loop:" + obj.Name())
			}
		}
		return true
	})
}

// forStmt lifts induction variables: `for i, o := a, b; cond; i, o = i+1, o+s` binds, inside the body,
// i = a + K and o = b + K*s for a fresh trip counter K (s loop-invariant).
func (s *symExec) forStmt(x *ast.ForStmt) {
	nconds := len(s.conds)
	if x.Init != nil {
		s.stmt(x.Init)
	}
	K := s.freshAtom("K")
	ind := map[types.Object]bool{}
	// variables assigned in the body lose their value first (before computing steps)
	post, _ := x.Post.(ast.Stmt)
	type step struct {
		obj  types.Object
		step *Poly
	}
	var steps []step
	// body-level accumulators: a top-level `v += d` / `v -= d` that is the only assignment to v in the loop, in a body
	// without `continue`, runs exactly once per iteration: v = init + K*d at the top of iteration K.
	type bodyAcc struct {
		obj  types.Object
		init *Poly
		st   *ast.AssignStmt
		inc  int64 // for v++ / v--
	}
	var accs []bodyAcc
	keep := map[types.Object]bool{}
	if !hasContinue(x.Body) {
		for _, bs := range x.Body.List {
			if id, isInc := bs.(*ast.IncDecStmt); isInc {
				obj := s.assignObj(id.X)
				if obj != nil && isIntT(obj.Type()) && countAssigns(s, x.Body, obj) == 1 && !(x.Post != nil && assignedIn(s.p, x.Post, obj)) {
					d := int64(1)
					if id.Tok == token.DEC {
						d = -1
					}
					accs = append(accs, bodyAcc{obj: obj, init: s.atomFor(obj), inc: d})
					keep[obj] = true
				}
				continue
			}
			as, ok := bs.(*ast.AssignStmt)
			if !ok || len(as.Lhs) != 1 || (as.Tok != token.ADD_ASSIGN && as.Tok != token.SUB_ASSIGN) {
				continue
			}
			obj := s.assignObj(as.Lhs[0])
			if obj == nil || !isIntT(obj.Type()) || countAssigns(s, x.Body, obj) != 1 || (x.Post != nil && assignedIn(s.p, x.Post, obj)) {
				continue
			}
			if !s.loopInvariant(as.Rhs[0], x) {
				continue
			}
			accs = append(accs, bodyAcc{obj: obj, init: s.atomFor(obj), st: as})
			keep[obj] = true
		}
	}
	// havoc everything assigned in the body
	s.havocAssigned(x.Body, keep)
	for _, a := range accs {
		if a.st == nil {
			s.env[a.obj] = a.init.add(K.mul(polyInt(a.inc)))
			ind[a.obj] = true
			continue
		}
		// evaluate the step silently (no hooks, no call log): the statement itself is lifted again in the body
		oc, oi, nc := s.onCall, s.onIndex, len(s.calls)
		s.onCall, s.onIndex = nil, nil
		d := s.expr(a.st.Rhs[0])
		s.onCall, s.onIndex = oc, oi
		s.calls = s.calls[:nc]
		if strings.Contains(d.String(), "loop:") {
			// loop-variant step: not an arithmetic progression
			s.env[a.obj] = s.freshAtom("loop:" + a.obj.Name())
			continue
		}
		if a.st.Tok == token.SUB_ASSIGN {
			d = d.neg()
		}
		s.env[a.obj] = a.init.add(K.mul(d))
		ind[a.obj] = true
	}
	if post != nil {
		switch ps := post.(type) {
		case *ast.IncDecStmt:
			if obj := s.assignObj(ps.X); obj != nil && !assignedIn(s.p, x.Body, obj) {
				d := polyInt(1)
				if ps.Tok == token.DEC {
					d = polyInt(-1)
				}
				steps = append(steps, step{obj, d})
			}
		case *ast.AssignStmt:
			if len(ps.Lhs) == len(ps.Rhs) {
				for i, l := range ps.Lhs {
					obj := s.assignObj(l)
					if obj == nil || assignedIn(s.p, x.Body, obj) {
						continue
					}
					var d *Poly
					switch ps.Tok {
					case token.ADD_ASSIGN:
						d = s.expr(ps.Rhs[i])
					case token.SUB_ASSIGN:
						d = s.expr(ps.Rhs[i]).neg()
					case token.ASSIGN:
						// v = v + s
						cur := s.atomFor(obj)
						d = s.expr(ps.Rhs[i]).sub(cur)
					}
					if d != nil {
						steps = append(steps, step{obj, d})
					}
				}
			}
		}
	}
	for _, st := range steps {
		// the step must not depend on an induction variable itself
		init := s.atomFor(st.obj)
		s.env[st.obj] = init.add(K.mul(st.step))
		ind[st.obj] = true
	}
	if x.Cond != nil {
		s.pushCond(x.Cond, false)
	}
	s.loopDepth++
	s.block(x.Body.List)
	s.loopDepth--
	s.conds = s.conds[:nconds]
	// after the loop: everything assigned in the loop (incl. induction variables) is unknown
	s.havocAssigned(x.Body, nil)
	for obj := range ind {
		s.env[obj] = s.freshAtom("after:" + obj.Name())
	}
}

// loopInvariant: e is built from literals, selectors and variables neither declared nor assigned inside the loop.
func (s *symExec) loopInvariant(e ast.Expr, loop *ast.ForStmt) bool {
	ok := true
	ast.Inspect(e, func(n ast.Node) bool {
		switch x := n.(type) {
		case *ast.CallExpr, *ast.IndexExpr, *ast.SliceExpr, *ast.StarExpr, *ast.FuncLit, *ast.TypeAssertExpr:
			ok = false
		case *ast.Ident:
			obj := s.p.TypesInfo.Uses[x]
			if v, isVar := obj.(*types.Var); isVar && !v.IsField() {
				if (v.Pos() >= loop.Pos() && v.Pos() < loop.End()) || assignedIn(s.p, loop.Body, v) || (loop.Post != nil && assignedIn(s.p, loop.Post, v)) {
					ok = false
				}
			}
		}
		return ok
	})
	return ok
}

// hasContinue reports a `continue` belonging to this loop body (not to a nested loop).
func hasContinue(body *ast.BlockStmt) bool {
	found := false
	var walk func(n ast.Node) bool
	walk = func(n ast.Node) bool {
		switch x := n.(type) {
		case *ast.ForStmt, *ast.RangeStmt, *ast.FuncLit:
			return false
		case *ast.BranchStmt:
			if x.Tok == token.CONTINUE || x.Tok == token.GOTO {
				found = true
			}
		}
		return true
	}
	ast.Inspect(body, walk)
	// a labelled continue inside a nested loop may target this loop
	ast.Inspect(body, func(n ast.Node) bool {
		if b, ok := n.(*ast.BranchStmt); ok && b.Label != nil && b.Tok == token.CONTINUE {
			found = true
		}
		return true
	})
	return found
}

func countAssigns(s *symExec, body ast.Node, obj types.Object) int {
	n := 0
	ast.Inspect(body, func(nd ast.Node) bool {
		switch x := nd.(type) {
		case *ast.AssignStmt:
			for _, l := range x.Lhs {
				if s.assignObj(l) == obj {
					n++
				}
			}
		case *ast.IncDecStmt:
			if s.assignObj(x.X) == obj {
				n++
			}
		case *ast.UnaryExpr:
			if x.Op == token.AND {
				if s.assignObj(x.X) == obj {
					n += 2 // address taken: not a plain accumulator
				}
			}
		}
		return true
	})
	return n
}

// symFunc lifts a whole function body.
func (c *Ctx) symFunc(fd *ast.FuncDecl, p *packages.Package, pure func(types.Object) bool) *symExec {
	s := c.newSymExec(p)
	s.pure = pure
	s.block(fd.Body.List)
	return s
}

// condIs reports whether c is equivalent to `l op r` for op in {<, <=, >, >=} by the four syntactic forms.
func condIs(c symCond, op token.Token, l, r *Poly) bool {
	if c.op == token.ILLEGAL {
		return false
	}
	flip := map[token.Token]token.Token{token.LSS: token.GTR, token.GTR: token.LSS, token.LEQ: token.GEQ, token.GEQ: token.LEQ, token.EQL: token.EQL, token.NEQ: token.NEQ}
	negate := map[token.Token]token.Token{token.LSS: token.GEQ, token.GEQ: token.LSS, token.GTR: token.LEQ, token.LEQ: token.GTR, token.EQL: token.NEQ, token.NEQ: token.EQL}
	cop := c.op
	if c.neg {
		cop = negate[cop]
	}
	if cop == op && c.l.equal(l) && c.r.equal(r) {
		return true
	}
	if flip[cop] == op && c.l.equal(r) && c.r.equal(l) {
		return true
	}
	// a < b  <=>  a - b < 0 : compare differences
	if cop == op && c.l.sub(c.r).equal(l.sub(r)) {
		return true
	}
	if flip[cop] == op && c.l.sub(c.r).equal(r.sub(l)) {
		return true
	}
	return false
}

func ratHalf() *big.Rat { return big.NewRat(1, 2) }

// lessForm returns the comparison c in the form l < r (strict) or l <= r, whatever orientation and negation it was
// written with; ok is false for equalities and non-comparisons.
func (c symCond) lessForm() (l, r *Poly, strict, ok bool) {
	op := c.op
	if c.neg {
		switch op {
		case token.LSS:
			op = token.GEQ
		case token.LEQ:
			op = token.GTR
		case token.GTR:
			op = token.LEQ
		case token.GEQ:
			op = token.LSS
		default:
			return nil, nil, false, false
		}
	}
	switch op {
	case token.LSS:
		return c.l, c.r, true, true
	case token.LEQ:
		return c.l, c.r, false, true
	case token.GTR:
		return c.r, c.l, true, true
	case token.GEQ:
		return c.r, c.l, false, true
	}
	return nil, nil, false, false
}
