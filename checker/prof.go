package main

import (
	"os"
	"runtime/pprof"
)

func startProf() func() {
	p := os.Getenv("GZ_CPUPROFILE")
	if p == "" {
		return func() {}
	}
	f, err := os.Create(p)
	if err != nil {
		return func() {}
	}
	pprof.StartCPUProfile(f)
	return func() { pprof.StopCPUProfile(); f.Close() }
}
