package main

import (
	"fmt"
	"go/ast"
	"go/token"
	"go/types"
	"math/big"
	"sort"
	"strings"

	"golang.org/x/tools/go/packages"
	"golang.org/x/tools/go/ssa"
	"golang.org/x/tools/go/types/typeutil"
)

func init() {
	registerProp("C04", "Reed-Solomon codec and GF(2^m) arithmetic", checkC04)
}

type refField struct {
	name      string
	primitive int64
	size      int64
	base      int64
}

// field constants of ISO 18004 (QR), ISO 16022 (Data Matrix), ISO 24778 (Aztec)
var refFields = []refField{
	{"GenericGF_AZTEC_DATA_12", 0x1069, 4096, 1},
	{"GenericGF_AZTEC_DATA_10", 0x409, 1024, 1},
	{"GenericGF_AZTEC_DATA_6", 0x43, 64, 1},
	{"GenericGF_AZTEC_PARAM", 0x13, 16, 1},
	{"GenericGF_QR_CODE_FIELD_256", 0x11D, 256, 0},
	{"GenericGF_DATA_MATRIX_FIELD_256", 0x12D, 256, 1},
}

// isPrimitivePoly: x generates the multiplicative group of GF(2)[x]/(p): order exactly size-1
func isPrimitivePoly(p, size int64) bool {
	if p < size || p >= 2*size {
		return false // degree must be exactly m
	}
	x := int64(1)
	for i := int64(1); i <= size-1; i++ {
		x <<= 1
		if x&size != 0 {
			x ^= p
		}
		if x == 1 {
			return i == size-1
		}
	}
	return false
}

func checkC04(c *Ctx, r *Report) {
	checkGFConstants(c, r)
	checkGFTableLoop(c, r)
	checkGFOps(c, r)
	checkRSRoots(c, r)
	checkChienSearch(c, r)
	checkFieldUse(c, r)
	checkRSState(c, r)
	checkRSWhole(c, r)
	checkRSInstances(c, r)
	checkGFWhole(c, r)
	// kinds of the decoder
	r.Rule("E-KIND-RS", "ReedSolomonDecoder.Decode returns only ReedSolomonException-kind errors (so callers' checksum mapping sees every failure)", 1)
	nf := c.newNilFlow()
	if f := c.ssaFunc("common/reedsolomon", "ReedSolomonDecoder.Decode"); f != nil {
		ks := nf.kf.kinds[f]
		bad := kindsSubset(ks, kRS)
		r.Check(len(bad) == 0, "E-KIND-RS", "common/reedsolomon.ReedSolomonDecoder.Decode", c.pos(f.Pos()), fmt.Sprintf("may return kinds %v", bad))
	} else {
		r.AnchorLost("E-KIND-RS", "common/reedsolomon.ReedSolomonDecoder.Decode", "method not found")
	}
	// no writer to the shared field tables after init
	r.Rule("W-GF", "the shared field objects (GenericGF_* and their exp/log tables, zero/one polynomials) are not written after package initialisation", 6)
	sf := c.newSharedFlow(nf)
	ws := sf.writes()
	for _, rf := range refFields {
		key := "common/reedsolomon." + rf.name
		var bad []string
		for _, w := range ws {
			if w.Witness == key && !sf.initOnly[w.Fn] {
				bad = append(bad, shortFn(w.Fn)+" at "+c.pos(w.Pos))
			}
		}
		r.Check(len(bad) == 0, "W-GF", key, "", "written after init by "+strings.Join(bad, "; "))
	}
	r.Note("Euclid / Chien / Forney and the GenericGFPoly arithmetic are decided by folding on complete small domains (S-RSWHOLE); not decided: larger (k, r) and the 1024- / 4096-element fields beyond their tables (the same program text)")
}

func checkGFConstants(c *Ctx, r *Report) {
	r.Rule("T-GF", "each of the six fields is built by NewGenericGF(p, 2^m, b) with deg p = m, x primitive modulo p (order 2^m - 1, computed by the checker), the standard's polynomial, and generator base 0 for QR and 1 elsewhere; AZTEC_DATA_8 aliases the Data Matrix field and MAXICODE_FIELD_64 the Aztec 6-bit field", 8)
	ngf, _ := c.lookupObj("common/reedsolomon", "NewGenericGF").(*types.Func)
	for _, rf := range refFields {
		init, p := c.varInit("common/reedsolomon", rf.name)
		key := "common/reedsolomon." + rf.name
		if init == nil {
			r.AnchorLost("T-GF", key, "field variable not found")
			continue
		}
		r.Analysed(key)
		v := c.eval(p, init)
		if v.K != VCall || v.Fn != ngf || len(v.L) != 3 || !v.L[0].isInt() || !v.L[1].isInt() || !v.L[2].isInt() {
			r.Undecided("T-GF", key, c.pos(init.Pos()), "initialiser is not NewGenericGF(constant, constant, constant)")
			continue
		}
		pr, size, b := v.L[0].I, v.L[1].I, v.L[2].I
		bad := ""
		switch {
		case size <= 1 || size&(size-1) != 0:
			bad = fmt.Sprintf("size %d is not a power of two", size)
		case !isPrimitivePoly(pr, size):
			bad = fmt.Sprintf("0x%X is not a primitive polynomial of degree log2(%d): x does not have order %d", pr, size, size-1)
		case pr != rf.primitive || size != rf.size:
			bad = fmt.Sprintf("(0x%X, %d), the standard specifies (0x%X, %d)", pr, size, rf.primitive, rf.size)
		case b != rf.base:
			bad = fmt.Sprintf("generator base %d, the standard's generator polynomial starts at alpha^%d", b, rf.base)
		}
		r.Check(bad == "", "T-GF", key, c.pos(init.Pos()), bad)
	}
	for alias, target := range map[string]string{"GenericGF_AZTEC_DATA_8": "GenericGF_DATA_MATRIX_FIELD_256", "GenericGF_MAXICODE_FIELD_64": "GenericGF_AZTEC_DATA_6"} {
		init, p := c.varInit("common/reedsolomon", alias)
		key := "common/reedsolomon." + alias
		if init == nil {
			r.AnchorLost("T-GF", key, "alias not found")
			continue
		}
		r.Check(identObj(p, init) == c.lookupObj("common/reedsolomon", target), "T-GF", key, c.pos(init.Pos()), "must alias "+target)
	}
}

// NewGenericGF: expTable[i] = x for i = 0..size-1 starting from x = 1 with the step x -> 2x reduced modulo the
// primitive polynomial (loop body folded for every x of every field); logTable[expTable[i]] = i for i < size-1.
func checkGFTableLoop(c *Ctx, r *Report) {
	r.Rule("T-GFBUILD", "NewGenericGF fills expTable[i] with alpha^i: the loop starts at i = 0 with x = 1, stores x at index i and steps x to 2x mod p (body folded for every element of each of the six fields against polynomial reduction); logTable is the inverse on i < size-1; the tables are stored in the object", 3)
	fd, p := c.funcDeclOf("common/reedsolomon", "NewGenericGF")
	key := "common/reedsolomon.NewGenericGF"
	if fd == nil {
		r.AnchorLost("T-GFBUILD", key, "function not found")
		return
	}
	r.Analysed(key)
	ps := paramObjs(p, fd)
	var loops []*ast.ForStmt
	for _, st := range fd.Body.List {
		if f, ok := st.(*ast.ForStmt); ok {
			loops = append(loops, f)
		}
	}
	if len(loops) != 2 || len(ps) != 3 {
		r.Undecided("T-GFBUILD", key, c.pos(fd.Pos()), "expected the exp loop and the log loop")
		return
	}
	// x := 1 before the first loop
	var xObj types.Object
	for _, st := range fd.Body.List {
		if as, ok := st.(*ast.AssignStmt); ok && as.Tok == token.DEFINE && len(as.Lhs) == 1 {
			if v, isC := constInt(p, as.Rhs[0]); isC && v == 1 && st.Pos() < loops[0].Pos() {
				xObj = identObj(p, as.Lhs[0])
			}
		}
	}
	expLoop := loops[0]
	as, _ := expLoop.Init.(*ast.AssignStmt)
	bad := ""
	if xObj == nil || as == nil {
		bad = "x := 1 / loop counter not found"
	}
	var iObj types.Object
	if bad == "" {
		iObj = identObj(p, as.Lhs[0])
		if z, isC := constInt(p, as.Rhs[0]); !isC || z != 0 {
			bad = "exp loop does not start at 0"
		}
		if be, ok := expLoop.Cond.(*ast.BinaryExpr); !ok || be.Op != token.LSS || identObj(p, be.Y) != ps[1] {
			bad = "exp loop must run while i < size"
		}
	}
	nFolds := 0
	for _, rf := range refFields {
		if bad != "" {
			break
		}
		for x := int64(1); x < rf.size; x++ {
			env := map[types.Object]*Val{xObj: vint(x), iObj: vint(5), ps[0]: vint(rf.primitive), ps[1]: vint(rf.size), ps[2]: vint(rf.base)}
			var stIdx, stVal int64 = -1, -1
			hooks := &rpf{stHook: func(rr *rpf, lhs ast.Expr, v *Val) bool {
				ix, ok := lhs.(*ast.IndexExpr)
				if !ok {
					return false
				}
				iv := rr.expr(ix.Index)
				stIdx, stVal = iv.I, v.I
				return true
			}}
			if err := foldLoopBodies(c, p, env, hooks, nil, expLoop); err != nil {
				bad = "?" + err.Error()
				break
			}
			want := x << 1
			if want&rf.size != 0 {
				want ^= rf.primitive
			}
			if stIdx != 5 || stVal != x || env[xObj] == nil || env[xObj].I != want {
				bad = fmt.Sprintf("field 0x%X: element %d: stores %d at index %d and steps to %v; expected store of x at index i and step to %d", rf.primitive, x, stVal, stIdx, env[xObj], want)
				break
			}
			nFolds++
		}
	}
	if bad != "" && bad[0] == '?' {
		r.Undecided("T-GFBUILD", key+".exp", c.pos(expLoop.Pos()), bad)
	} else {
		r.Check(bad == "", "T-GFBUILD", key+".exp", c.pos(expLoop.Pos()), bad)
	}
	r.Extra("gf_step_folds", nFolds)
	// log loop: for i := 0; i < size-1; i++ { logTable[expTable[i]] = i }
	logLoop := loops[1]
	okLog := false
	if as2, ok := logLoop.Init.(*ast.AssignStmt); ok && len(logLoop.Body.List) == 1 {
		i2 := identObj(p, as2.Lhs[0])
		z, isC := constInt(p, as2.Rhs[0])
		if st, ok := logLoop.Body.List[0].(*ast.AssignStmt); ok && isC && z == 0 && len(st.Lhs) == 1 {
			if ix, ok := st.Lhs[0].(*ast.IndexExpr); ok {
				if inner, ok := ix.Index.(*ast.IndexExpr); ok && identObj(p, inner.Index) == i2 && identObj(p, st.Rhs[0]) == i2 {
					// bound: i < size-1
					s := c.newSymExec(p)
					if be, ok := logLoop.Cond.(*ast.BinaryExpr); ok && be.Op == token.LSS && s.expr(be.Y).equal(polyAtom(objAtom(ps[1])).sub(polyInt(1))) {
						okLog = true
					}
				}
			}
		}
	}
	r.Check(okLog, "T-GFBUILD", key+".log", c.pos(logLoop.Pos()), "the log loop must be `for i := 0; i < size-1; i++ { logTable[expTable[i]] = i }`")
	// the tables and parameters are stored into the object
	stored := map[string]bool{}
	ast.Inspect(fd.Body, func(n ast.Node) bool {
		switch x := n.(type) {
		case *ast.AssignStmt:
			for _, l := range x.Lhs {
				if sel, ok := l.(*ast.SelectorExpr); ok {
					stored[sel.Sel.Name] = true
				}
			}
		case *ast.KeyValueExpr:
			if id, ok := x.Key.(*ast.Ident); ok {
				stored[id.Name] = true
			}
		}
		return true
	})
	okStore := stored["expTable"] && stored["logTable"] && stored["size"] && stored["primitive"] && stored["generatorBase"]
	r.Check(okStore, "T-GFBUILD", key+".fields", c.pos(fd.Pos()), "expTable, logTable, size, primitive and generatorBase must be stored in the new field object")
}

func checkGFOps(c *Ctx, r *Report) {
	r.Rule("T-GFOPS", "Multiply(a,b) is 0 when a or b is 0 and otherwise exp[(log a + log b) mod (size-1)]; Inverse(a) = exp[size - 1 - log a] and fails for 0; Log fails for 0; Exp/GetGeneratorBase/GetSize are plain reads; addOrSubtract is xor", 6)
	recvField := func(fd *ast.FuncDecl, p *packages.Package, f string) *Poly {
		return polyAtom("fld(" + polyAtom(objAtom(recvObj(p, fd))).String() + "," + f + ")")
	}
	idx := func(a, i *Poly) *Poly { return polyAtom("idx(" + a.String() + "," + i.String() + ")") }
	if fd, p := c.funcDeclOf("common/reedsolomon", "GenericGF.Multiply"); fd != nil {
		ps := paramObjs(p, fd)
		s := c.symFunc(fd, p, nil)
		a, b := polyAtom(objAtom(ps[0])), polyAtom(objAtom(ps[1]))
		exp, log, size := recvField(fd, p, "expTable"), recvField(fd, p, "logTable"), recvField(fd, p, "size")
		want := idx(exp, polyAtom("mod("+idx(log, a).add(idx(log, b)).String()+","+size.sub(polyInt(1)).String()+")"))
		okZero, okMain := false, false
		for _, rt := range s.rets {
			if len(rt.Vals) != 1 {
				continue
			}
			if z, isC := rt.Vals[0].isConst(); isC && z.Sign() == 0 && len(rt.Conds) == 1 {
				okZero = true
			}
			if rt.Vals[0].equal(want) {
				okMain = true
			}
		}
		// the zero guard folded
		okGuard := false
		if len(fd.Body.List) >= 1 {
			if ifs, ok := fd.Body.List[0].(*ast.IfStmt); ok {
				okGuard = true
				for _, t := range [][3]int64{{0, 0, 1}, {0, 5, 1}, {5, 0, 1}, {3, 4, 0}} {
					v, err := c.rpfExpr(p, ifs.Cond, map[types.Object]*Val{ps[0]: vint(t[0]), ps[1]: vint(t[1])}, nil)
					if err != nil || v.K != VBool || v.B != (t[2] == 1) {
						okGuard = false
					}
				}
			}
		}
		r.Check(okZero && okMain && okGuard, "T-GFOPS", "common/reedsolomon.GenericGF.Multiply", c.pos(fd.Pos()), "expected `if a == 0 || b == 0 { return 0 }; return expTable[(logTable[a]+logTable[b]) % (size-1)]`")
	} else {
		r.AnchorLost("T-GFOPS", "common/reedsolomon.GenericGF.Multiply", "method not found")
	}
	if fd, p := c.funcDeclOf("common/reedsolomon", "GenericGF.Inverse"); fd != nil {
		ps := paramObjs(p, fd)
		s := c.symFunc(fd, p, func(types.Object) bool { return true })
		a := polyAtom(objAtom(ps[0]))
		exp, log, size := recvField(fd, p, "expTable"), recvField(fd, p, "logTable"), recvField(fd, p, "size")
		want := idx(exp, size.sub(idx(log, a)).sub(polyInt(1)))
		okMain, okErr := false, false
		for _, rt := range s.rets {
			if len(rt.Vals) == 2 && rt.Vals[0].equal(want) {
				okMain = true
			}
			if len(rt.Vals) == 2 && len(rt.Conds) == 1 && condIs(rt.Conds[0], token.EQL, a, polyInt(0)) && strings.HasPrefix(rt.Vals[1].String(), "call:") {
				okErr = true
			}
		}
		r.Check(okMain && okErr, "T-GFOPS", "common/reedsolomon.GenericGF.Inverse", c.pos(fd.Pos()), "expected `if a == 0 { return error }; return expTable[size - logTable[a] - 1]`")
	} else {
		r.AnchorLost("T-GFOPS", "common/reedsolomon.GenericGF.Inverse", "method not found")
	}
	if fd, p := c.funcDeclOf("common/reedsolomon", "GenericGF.Log"); fd != nil {
		ps := paramObjs(p, fd)
		s := c.symFunc(fd, p, func(types.Object) bool { return true })
		a := polyAtom(objAtom(ps[0]))
		want := idx(recvField(fd, p, "logTable"), a)
		okMain, okErr := false, false
		for _, rt := range s.rets {
			if len(rt.Vals) == 2 && rt.Vals[0].equal(want) {
				okMain = true
			}
			if len(rt.Vals) == 2 && len(rt.Conds) == 1 && condIs(rt.Conds[0], token.EQL, a, polyInt(0)) && strings.HasPrefix(rt.Vals[1].String(), "call:") {
				okErr = true
			}
		}
		r.Check(okMain && okErr, "T-GFOPS", "common/reedsolomon.GenericGF.Log", c.pos(fd.Pos()), "expected `if a == 0 { return error }; return logTable[a]`")
	} else {
		r.AnchorLost("T-GFOPS", "common/reedsolomon.GenericGF.Log", "method not found")
	}
	if fd, p := c.funcDeclOf("common/reedsolomon", "GenericGF.Exp"); fd != nil {
		ps := paramObjs(p, fd)
		s := c.symFunc(fd, p, nil)
		want := idx(recvField(fd, p, "expTable"), polyAtom(objAtom(ps[0])))
		r.Check(len(s.rets) == 1 && len(s.rets[0].Vals) == 1 && s.rets[0].Vals[0].equal(want), "T-GFOPS", "common/reedsolomon.GenericGF.Exp", c.pos(fd.Pos()), "expected `return expTable[a]`")
	} else {
		r.AnchorLost("T-GFOPS", "common/reedsolomon.GenericGF.Exp", "method not found")
	}
	for _, g := range [][2]string{{"GetGeneratorBase", "generatorBase"}, {"GetSize", "size"}} {
		m := methodOf(c, "common/reedsolomon", "GenericGF", g[0])
		f, ok := c.trivialGetter(m)
		r.Check(m != nil && ok && f == g[1], "T-GFOPS", "common/reedsolomon.GenericGF."+g[0], "", "must return the field "+g[1])
	}
	if fd, p := c.funcDeclOf("common/reedsolomon", "GenericGF_addOrSubtract"); fd != nil {
		ok := true
		for _, t := range [][2]int64{{0, 0}, {5, 3}, {255, 1}, {4095, 4095}} {
			res, err := c.rpfCall(fd, p, []*Val{vint(t[0]), vint(t[1])}, nil)
			if err != nil || len(res) != 1 || res[0].I != t[0]^t[1] {
				ok = false
			}
		}
		r.Check(ok, "T-GFOPS", "common/reedsolomon.GenericGF_addOrSubtract", c.pos(fd.Pos()), "addition in GF(2^m) is xor")
	} else {
		r.AnchorLost("T-GFOPS", "common/reedsolomon.GenericGF_addOrSubtract", "function not found")
	}
}

// generator roots and syndrome points use the same exponents base .. base + n - 1
func checkRSRoots(c *Ctx, r *Report) {
	r.Rule("S-RSROOTS", "the encoder's generator polynomial of degree n has roots alpha^(base + d - 1), d = 1..n (factors (x + alpha^k) appended from the cached degree upwards, starting from the constant 1), the decoder evaluates syndromes at alpha^(base + i), i = 0..n-1, storing syndrome i at coefficient index n-1-i, and Forney's magnitudes are multiplied by the inverse locator exactly when the base is not 0", 4)
	// encoder
	if fd, p := c.funcDeclOf("common/reedsolomon", "ReedSolomonEncoder.buildGenerator"); fd != nil {
		key := "common/reedsolomon.ReedSolomonEncoder.buildGenerator"
		r.Analysed(key)
		s := c.symFunc(fd, p, func(o types.Object) bool { return true })
		ro := polyAtom(objAtom(recvObj(p, fd))).String()
		field := "fld(" + ro + ",field)"
		base := polyAtom("call:(*common/reedsolomon.GenericGF).GetGeneratorBase(" + field + ")")
		ok := false
		var loopOK bool
		for _, cl := range s.calls {
			if !isMethodNamed(cl.Callee, "common/reedsolomon", "GenericGF", "Exp") || len(cl.Args) != 1 {
				continue
			}
			for _, k := range kAtoms(cl.Args[0]) {
				// d = len(cachedGenerators) + K ; argument = d - 1 + base
				size := polyAtom("len(fld(" + ro + ",cachedGenerators))")
				d := size.add(polyAtom(k))
				if cl.Args[0].equal(d.sub(polyInt(1)).add(base)) {
					ok = true
				}
			}
		}
		// loop: for d := size; d <= degree; d++
		ast.Inspect(fd.Body, func(n ast.Node) bool {
			if f, isF := n.(*ast.ForStmt); isF {
				if be, isB := f.Cond.(*ast.BinaryExpr); isB && be.Op == token.LEQ && identObj(p, be.Y) == paramObjs(p, fd)[0] {
					if inc, isI := f.Post.(*ast.IncDecStmt); isI && inc.Tok == token.INC {
						loopOK = true
					}
				}
			}
			return true
		})
		// the factor is the literal []int{1, root}
		factorOK := false
		ast.Inspect(fd.Body, func(n ast.Node) bool {
			if cl, isC := n.(*ast.CompositeLit); isC && len(cl.Elts) == 2 {
				if v, isK := constInt(p, cl.Elts[0]); isK && v == 1 {
					if call, isCall := cl.Elts[1].(*ast.CallExpr); isCall && isMethodNamed(typeutil.Callee(p.TypesInfo, call), "common/reedsolomon", "GenericGF", "Exp") {
						factorOK = true
					}
				}
			}
			return true
		})
		r.Check(ok && loopOK && factorOK, "S-RSROOTS", key, c.pos(fd.Pos()), fmt.Sprintf("root exponent d - 1 + base for d = cached..degree (%v), loop d <= degree (%v), factor {1, alpha^k} (%v)", ok, loopOK, factorOK))
	} else {
		r.AnchorLost("S-RSROOTS", "common/reedsolomon.ReedSolomonEncoder.buildGenerator", "method not found")
	}
	// NewReedSolomonEncoder seeds the cache with the constant polynomial 1
	if fd, p := c.funcDeclOf("common/reedsolomon", "NewReedSolomonEncoder"); fd != nil {
		ok := false
		ast.Inspect(fd.Body, func(n ast.Node) bool {
			if call, isC := n.(*ast.CallExpr); isC && isFuncNamed(typeutil.Callee(p.TypesInfo, call), "common/reedsolomon", "NewGenericGFPoly") {
				if cl, isL := call.Args[1].(*ast.CompositeLit); isL && len(cl.Elts) == 1 {
					if v, isK := constInt(p, cl.Elts[0]); isK && v == 1 {
						ok = true
					}
				}
			}
			return true
		})
		r.Check(ok, "S-RSROOTS", "common/reedsolomon.NewReedSolomonEncoder", c.pos(fd.Pos()), "the generator cache must start with the constant polynomial 1")
	} else {
		r.AnchorLost("S-RSROOTS", "common/reedsolomon.NewReedSolomonEncoder", "function not found")
	}
	// decoder
	if fd, p := c.funcDeclOf("common/reedsolomon", "ReedSolomonDecoder.Decode"); fd != nil {
		key := "common/reedsolomon.ReedSolomonDecoder.Decode"
		r.Analysed(key)
		s := c.symFunc(fd, p, func(o types.Object) bool { return true })
		ro := polyAtom(objAtom(recvObj(p, fd))).String()
		base := polyAtom("call:(*common/reedsolomon.GenericGF).GetGeneratorBase(fld(" + ro + ",field))")
		twoS := polyAtom(objAtom(paramObjs(p, fd)[1]))
		okArg, okStore := false, false
		var kks []string
		for _, cl := range s.calls {
			if isMethodNamed(cl.Callee, "common/reedsolomon", "GenericGF", "Exp") && len(cl.Args) == 1 {
				for _, k := range kAtoms(cl.Args[0]) {
					if cl.Args[0].equal(polyAtom(k).add(base)) {
						okArg = true
						kks = append(kks, k)
						// loop condition i < twoS
						bound := false
						for _, cd := range cl.Conds {
							if condIs(cd, token.LSS, polyAtom(k), twoS) {
								bound = true
							}
						}
						if !bound {
							okArg = false
						}
					}
				}
			}
		}
		for _, st := range s.stores {
			for _, k1 := range kks {
				if st.Index != nil && st.Loop == 1 {
					want := polyAtom("len(" + st.Base.String() + ")").sub(polyInt(1)).sub(polyAtom(k1))
					if st.Index.equal(want) {
						okStore = true
					}
				}
			}
		}
		// syndromeCoefficients := make([]int, twoS)
		r.Check(okArg && okStore, "S-RSROOTS", key, c.pos(fd.Pos()), fmt.Sprintf("syndromes at alpha^(i + base) for i < twoS (%v), stored at index len-1-i (%v)", okArg, okStore))
	} else {
		r.AnchorLost("S-RSROOTS", "common/reedsolomon.ReedSolomonDecoder.Decode", "method not found")
	}
	if fd, p := c.funcDeclOf("common/reedsolomon", "ReedSolomonDecoder.findErrorMagnitudes"); fd != nil {
		ok := false
		ast.Inspect(fd.Body, func(n ast.Node) bool {
			ifs, isI := n.(*ast.IfStmt)
			if !isI {
				return true
			}
			be, isB := ast.Unparen(ifs.Cond).(*ast.BinaryExpr)
			if !isB || be.Op != token.NEQ {
				return true
			}
			call, isC := be.X.(*ast.CallExpr)
			z, isK := constInt(p, be.Y)
			if isC && isK && z == 0 && isMethodNamed(typeutil.Callee(p.TypesInfo, call), "common/reedsolomon", "GenericGF", "GetGeneratorBase") && len(ifs.Body.List) == 1 {
				if as, isA := ifs.Body.List[0].(*ast.AssignStmt); isA {
					if mc, isM := as.Rhs[0].(*ast.CallExpr); isM && isMethodNamed(typeutil.Callee(p.TypesInfo, mc), "common/reedsolomon", "GenericGF", "Multiply") {
						ok = true
					}
				}
			}
			return true
		})
		r.Check(ok, "S-RSROOTS", "common/reedsolomon.ReedSolomonDecoder.findErrorMagnitudes.base-correction", c.pos(fd.Pos()), "the magnitude must be multiplied by the inverse locator exactly when GetGeneratorBase() != 0")
	} else {
		r.AnchorLost("S-RSROOTS", "common/reedsolomon.ReedSolomonDecoder.findErrorMagnitudes", "method not found")
	}
}

// the Chien search tries every non-zero field element and the correction lands at len-1-log(location)
func checkChienSearch(c *Ctx, r *Report) {
	r.Rule("S-CHIEN", "findErrorLocations evaluates the locator at every one of the size-1 non-zero field elements (candidates i = 1..size-1, or alpha^(a +/- k) for size-1 consecutive k), records the inverse of each root, and fails unless it found as many roots as the locator's degree; Decode corrects position len(received)-1-log(location) and rejects a negative position", 3)
	fd, p := c.funcDeclOf("common/reedsolomon", "ReedSolomonDecoder.findErrorLocations")
	key := "common/reedsolomon.ReedSolomonDecoder.findErrorLocations"
	if fd == nil {
		r.AnchorLost("S-CHIEN", key, "method not found")
	} else {
		r.Analysed(key)
		s := c.symFunc(fd, p, func(o types.Object) bool {
			fn, ok := o.(*types.Func)
			return ok && (fn.Name() == "GetSize" || fn.Name() == "Exp" || fn.Name() == "GetDegree" || fn.Name() == "Inverse")
		})
		ro := polyAtom(objAtom(recvObj(p, fd))).String()
		size := polyAtom("call:(*common/reedsolomon.GenericGF).GetSize(fld(" + ro + ",field))")
		bad := "no locator evaluation inside a loop"
		var cand *Poly
		var evalConds []symCond
		for _, cl := range s.calls {
			if isMethodNamed(cl.Callee, "common/reedsolomon", "GenericGFPoly", "EvaluateAt") && len(cl.Args) == 1 && len(kAtoms(cl.Args[0])) == 1 {
				cand = cl.Args[0]
				evalConds = cl.Conds
			}
		}
		if cand != nil {
			k := kAtoms(cand)[0]
			K := polyAtom(k)
			// number of iterations: the loop condition `counter < bound` with counter = init + K
			var count *Poly
			var lo *Poly
			for _, cd := range evalConds {
				if cd.neg || (cd.op != token.LSS && cd.op != token.LEQ) {
					continue
				}
				if len(kAtoms(cd.l)) == 1 && kAtoms(cd.l)[0] == k && len(kAtoms(cd.r)) == 0 {
					init := cd.l.sub(K)
					if _, isC := init.isConst(); !isC {
						continue
					}
					n := cd.r.sub(init)
					if cd.op == token.LEQ {
						n = n.add(polyInt(1))
					}
					if strings.Contains(cd.r.String(), "GetSize") {
						count, lo = n, init
					}
				}
			}
			cs := cand.String()
			switch {
			case count == nil:
				bad = "the search loop is not bounded by the field size"
			case cand.equal(lo.add(K)):
				// candidates lo .. lo+count-1 must include 1 .. size-1
				loC, _ := lo.isConst()
				short := size.sub(lo.add(count)) // elements missing at the top
				sc, isC := short.isConst()
				if loC.Cmp(big.NewRat(1, 1)) > 0 || !isC || sc.Sign() > 0 {
					bad = "the candidates " + prettyPoly(lo) + " .. " + prettyPoly(lo.add(count).sub(polyInt(1))) + " do not cover every non-zero element 1 .. size-1"
				} else {
					bad = ""
				}
			case strings.HasPrefix(cs, "call:(*common/reedsolomon.GenericGF).Exp("):
				short := size.sub(polyInt(1)).sub(count)
				sc, isC := short.isConst()
				if !isC || sc.Sign() > 0 {
					bad = "only " + prettyPoly(count) + " powers of alpha are tried; the multiplicative group has size-1 elements"
				} else {
					bad = ""
				}
			default:
				bad = "?candidate " + prettyPoly(cand) + " is neither the loop counter nor a power of alpha"
			}
		}
		reportFold(r, c, "S-CHIEN", key, fd.Pos(), bad)
		// the count check after the loop
		okCount := false
		for _, rt := range s.rets {
			if len(rt.Vals) == 2 && !strings.HasPrefix(rt.Vals[1].String(), "nil") {
				for _, cd := range rt.Conds {
					if cd.op == token.NEQ && !cd.neg && (strings.Contains(cd.r.String(), "GetDegree") || strings.Contains(cd.l.String(), "GetDegree")) {
						okCount = true
					}
				}
			}
		}
		r.Check(okCount, "S-CHIEN", key+"/count", c.pos(fd.Pos()), "fewer roots than the locator's degree must be an error (uncorrectable word), not a partial correction")
	}
	fd, p = c.funcDeclOf("common/reedsolomon", "ReedSolomonDecoder.Decode")
	key = "common/reedsolomon.ReedSolomonDecoder.Decode/position"
	if fd == nil {
		r.AnchorLost("S-CHIEN", key, "method not found")
		return
	}
	r.Analysed(key)
	s := c.symFunc(fd, p, func(o types.Object) bool { return true })
	recv := polyAtom(objAtom(paramObjs(p, fd)[0]))
	ok := false
	for _, st := range s.stores {
		if st.Base.equal(recv) && st.Loop == 1 {
			// index = len(received) - 1 - res0(Log(errorLocations[i]))
			rest := polyAtom("len(" + recv.String() + ")").sub(polyInt(1)).sub(st.Index)
			if len(rest.m) == 1 && strings.Contains(rest.String(), ".Log(") && strings.Contains(rest.String(), "idx(") {
				for _, cd := range st.Conds {
					if cd.neg && cd.op == token.LSS && cd.l.equal(st.Index) {
						if z, isC := cd.r.isConst(); isC && z.Sign() == 0 {
							ok = true
						}
					}
				}
			}
		}
	}
	r.Check(ok, "S-CHIEN", key, c.pos(fd.Pos()), "each error must be corrected at received[len(received)-1-log(location)], and a negative position rejected first")
}

// each symbology's encoder and decoder use the field the standard prescribes
func checkFieldUse(c *Ctx, r *Report) {
	r.Rule("S-FIELD", "each construction of an RS encoder/decoder names the field of its symbology (QR encoder and decoder: QR_CODE_FIELD_256; Data Matrix decoder: DATA_MATRIX_FIELD_256 with the encoder's own tables on the same polynomial; Aztec parameters: AZTEC_PARAM; Aztec data by layer count <=2 / <=8 / <=22 / else: 6, 8, 10, 12-bit fields with matching codeword sizes)", 5)
	want := map[string]string{
		"qrcode/encoder.generateECBytes": "GenericGF_QR_CODE_FIELD_256",
		"qrcode/decoder.NewDecoder":      "GenericGF_QR_CODE_FIELD_256",
		"datamatrix/decoder.NewDecoder":  "GenericGF_DATA_MATRIX_FIELD_256",
	}
	for fnKey, field := range want {
		i := strings.LastIndex(fnKey, ".")
		f := c.ssaFunc(fnKey[:i], fnKey[i+1:])
		if f == nil {
			r.AnchorLost("S-FIELD", fnKey, "function not found")
			continue
		}
		ok := false
		for _, b := range f.Blocks {
			for _, in := range b.Instrs {
				call, isC := in.(*ssa.Call)
				if !isC {
					continue
				}
				sc := call.Common().StaticCallee()
				if sc == nil || (sc.Name() != "NewReedSolomonEncoder" && sc.Name() != "NewReedSolomonDecoder") {
					continue
				}
				if ld, isL := call.Common().Args[0].(*ssa.UnOp); isL {
					if g, isG := ld.X.(*ssa.Global); isG && g.Name() == field {
						ok = true
					}
				}
			}
		}
		r.Check(ok, "S-FIELD", fnKey, c.pos(f.Pos()), "must build its Reed-Solomon codec on "+field)
	}
	// aztec detector parameter field
	if f := c.ssaFunc("aztec/detector", "Detector.getCorrectedParameterData"); f != nil {
		ok := false
		for _, b := range f.Blocks {
			for _, in := range b.Instrs {
				if call, isC := in.(*ssa.Call); isC {
					if sc := call.Common().StaticCallee(); sc != nil && sc.Name() == "NewReedSolomonDecoder" {
						if ld, isL := call.Common().Args[0].(*ssa.UnOp); isL {
							if g, isG := ld.X.(*ssa.Global); isG && g.Name() == "GenericGF_AZTEC_PARAM" {
								ok = true
							}
						}
					}
				}
			}
		}
		r.Check(ok, "S-FIELD", "aztec/detector.Detector.getCorrectedParameterData", c.pos(f.Pos()), "the mode message is protected over GF(16): GenericGF_AZTEC_PARAM")
	} else {
		r.AnchorLost("S-FIELD", "aztec/detector.Detector.getCorrectedParameterData", "method not found")
	}
	checkAztecFieldLadder(c, r, "S-FIELD")
}

// correctBits: layers <= 2 -> (6, DATA_6); <= 8 -> (8, DATA_8); <= 22 -> (10, DATA_10); else (12, DATA_12)
func checkAztecFieldLadder(c *Ctx, r *Report, rule string) {
	fd, p := c.funcDeclOf("aztec/decoder", "Decoder.correctBits")
	key := "aztec/decoder.Decoder.correctBits.field-ladder"
	if fd == nil {
		r.AnchorLost(rule, key, "method not found")
		return
	}
	var ladder *ast.IfStmt
	for _, st := range fd.Body.List {
		if ifs, ok := st.(*ast.IfStmt); ok && ladder == nil {
			ladder = ifs
		}
	}
	if ladder == nil {
		checkAztecCutRule(c, r, rule, false) // not the if-ladder shape: decided by folding correctBits for every size
		return
	}
	var sizeObj, gfObj types.Object
	for _, st := range fd.Body.List {
		if ds, ok := st.(*ast.DeclStmt); ok {
			if gd, ok := ds.Decl.(*ast.GenDecl); ok {
				for _, sp := range gd.Specs {
					vs := sp.(*ast.ValueSpec)
					for _, n := range vs.Names {
						o := p.TypesInfo.Defs[n]
						if isIntT(o.Type()) {
							sizeObj = o
						} else {
							gfObj = o
						}
					}
				}
			}
		}
	}
	if sizeObj == nil || gfObj == nil {
		checkAztecCutRule(c, r, rule, false) // not the if-ladder shape: decided by folding correctBits for every size
		return
	}
	bad := ""
	for layers := int64(1); layers <= 32 && bad == ""; layers++ {
		env := map[types.Object]*Val{sizeObj: vint(0), gfObj: {K: VNil}}
		hooks := &rpf{
			callHook: func(rr *rpf, call *ast.CallExpr, callee types.Object) (*Val, bool) {
				if f, ok := callee.(*types.Func); ok && f.Name() == "GetNbLayers" {
					return vint(layers), true
				}
				return nil, false
			},
			selHook: func(rr *rpf, sel *ast.SelectorExpr) (*Val, bool) {
				if obj, ok := p.TypesInfo.Uses[sel.Sel]; ok && obj.Pkg() != nil && strings.HasSuffix(obj.Pkg().Path(), "common/reedsolomon") && strings.HasPrefix(obj.Name(), "GenericGF_") {
					return vstr(obj.Name()), true
				}
				return nil, false
			},
		}
		rr := &rpf{c: c, p: p, env: env, callHook: hooks.callHook, selHook: hooks.selHook}
		var err error
		func() {
			defer func() {
				if x := recover(); x != nil {
					if re, ok := x.(*rpfErr); ok {
						err = re
						return
					}
					panic(x)
				}
			}()
			rr.stmt(ladder)
		}()
		if err != nil {
			bad = "?" + err.Error()
			break
		}
		wantSize, wantGF := int64(12), "GenericGF_AZTEC_DATA_12"
		switch {
		case layers <= 2:
			wantSize, wantGF = 6, "GenericGF_AZTEC_DATA_6"
		case layers <= 8:
			wantSize, wantGF = 8, "GenericGF_AZTEC_DATA_8"
		case layers <= 22:
			wantSize, wantGF = 10, "GenericGF_AZTEC_DATA_10"
		}
		if env[sizeObj].I != wantSize || env[gfObj].K != VStr || env[gfObj].S != wantGF {
			bad = fmt.Sprintf("%d layers: codeword size %v over %v; ISO 24778: %d bits over %s", layers, env[sizeObj], env[gfObj], wantSize, wantGF)
		}
	}
	if bad != "" && bad[0] == '?' {
		r.Undecided(rule, key, c.pos(ladder.Pos()), bad)
	} else {
		r.Check(bad == "", rule, key, c.pos(ladder.Pos()), bad)
	}
}

// W-RSSTATE: codec objects keep no state between calls
func checkRSState(c *Ctx, r *Report) {
	r.Rule("W-RSSTATE", "a Reed-Solomon decoder keeps no state between Decode calls and an encoder none but its generator cache: in common/reedsolomon, storage reachable through a field of ReedSolomonDecoder or ReedSolomonEncoder is written (Store, copy) only on an object allocated in the same function (the constructors), except ReedSolomonEncoder.cachedGenerators in buildGenerator, whose growth S-RSROOTS decides - so the result of a call cannot depend on earlier calls on the same instance", 2)
	checkNoInstanceState(c, r, "W-RSSTATE", "common/reedsolomon", []string{"ReedSolomonDecoder", "ReedSolomonEncoder"}, func(f *ssa.Function, tn, field string, val ssa.Value) bool {
		return tn == "ReedSolomonEncoder" && field == "cachedGenerators" && f.Name() == "buildGenerator"
	})
}

// checkNoInstanceState: in package rel, storage reachable through a field of one of the named struct types is written
// only on an object allocated in the writing function, or where allow says so.
func checkNoInstanceState(c *Ctx, r *Report, rule, rel string, names []string, allow func(f *ssa.Function, typeName, field string, val ssa.Value) bool) {
	sp := c.ssaPkg(rel)
	if sp == nil {
		r.AnchorLost(rule, rel, "package not loaded")
		return
	}
	guarded := map[string]bool{}
	seen := map[string]bool{}
	for _, name := range names {
		guarded[name] = true
		if obj := sp.Pkg.Scope().Lookup(name); obj != nil {
			seen[name] = true
		}
	}
	bad := map[string][]string{}
	var root func(v ssa.Value, depth int) (string, string, ssa.Value)
	root = func(v ssa.Value, depth int) (string, string, ssa.Value) {
		if depth > 20 {
			return "", "", nil
		}
		switch x := v.(type) {
		case *ssa.FieldAddr:
			t := x.X.Type()
			if p, ok := t.Underlying().(*types.Pointer); ok {
				if n, ok := p.Elem().(*types.Named); ok && n.Obj().Pkg() == sp.Pkg && guarded[n.Obj().Name()] {
					return n.Obj().Name(), p.Elem().Underlying().(*types.Struct).Field(x.Field).Name(), x.X
				}
			}
			return root(x.X, depth+1)
		case *ssa.IndexAddr:
			return root(x.X, depth+1)
		case *ssa.Slice:
			return root(x.X, depth+1)
		case *ssa.UnOp:
			if x.Op == token.MUL {
				return root(x.X, depth+1)
			}
		case *ssa.ChangeType:
			return root(x.X, depth+1)
		case *ssa.Phi:
			for _, e := range x.Edges {
				if tn, f, b := root(e, depth+1); tn != "" {
					return tn, f, b
				}
			}
		}
		return "", "", nil
	}
	nfuncs := 0
	for f := range c.allFuncs {
		if f.Pkg != sp || f.Blocks == nil {
			continue
		}
		nfuncs++
		note := func(addr, val ssa.Value, pos token.Pos, what string) {
			tn, field, base := root(addr, 0)
			if tn == "" {
				return
			}
			if _, fresh := base.(*ssa.Alloc); fresh {
				return
			}
			if allow != nil && allow(f, tn, field, val) {
				return
			}
			if !pos.IsValid() {
				pos = f.Pos()
			}
			bad[tn] = append(bad[tn], fmt.Sprintf("%s %s %s.%s at %s", shortFn(f), what, tn, field, c.pos(pos)))
		}
		for _, b := range f.Blocks {
			for _, in := range b.Instrs {
				switch x := in.(type) {
				case *ssa.Store:
					note(x.Addr, x.Val, x.Pos(), "stores to")
				case *ssa.Call:
					if bi, ok := x.Call.Value.(*ssa.Builtin); ok && (bi.Name() == "copy" || bi.Name() == "clear") && len(x.Call.Args) > 0 {
						note(x.Call.Args[0], nil, x.Pos(), bi.Name()+"s into")
					}
				}
			}
		}
	}
	r.Analysed(fmt.Sprintf("%s: %d function bodies", rel, nfuncs))
	for _, name := range names {
		key := rel + "." + name
		if !seen[name] {
			r.AnchorLost(rule, key, "type not found")
			continue
		}
		sort.Strings(bad[name])
		r.Check(len(bad[name]) == 0, rule, key, "", "state written outside its constructor: "+strings.Join(bad[name], "; "))
	}
}
