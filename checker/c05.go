package main

import (
	"fmt"
	"go/ast"
	"go/token"
	"go/types"
	"math/bits"

	"golang.org/x/tools/go/packages"
	"golang.org/x/tools/go/types/typeutil"
)

func init() {
	registerProp("C05", "Damaged QR / Data Matrix symbols decode exactly, up to the promised capacity", checkC05)
}

func checkC05(c *Ctx, r *Report) {
	rows := checkQRVersionTable(c, r) // block structures: which codeword belongs to which block rests on these
	_ = rows
	checkBCHTolerance(c, r)
	checkFormatDecodeFold(c, r)
	checkVersionDecodeFold(c, r)
	checkBothCopies(c, r)
	checkDMGenerators(c, r) // the Data Matrix encoder's own generator polynomials: a symbol written with a wrong one cannot be corrected at all (also C08)
	checkDMECCBlock(c, r)   // and the arithmetic that uses them (also C08)
	checkQRInfoReadPositions(c, r)
	checkQRFunctionPattern(c, r) // which modules carry codewords: a misplaced function-pattern rectangle feeds wrong bits into the blocks
	checkRSFullParity(c, r)
	checkRSWord(c, r)
	checkQRInterleave(c, r)
	checkQRZigZag(c, r)
	checkDMDeinterleave(c, r)
	checkDecodePipelines(c, r)
	checkRSEncodeQR(c, r)  // the symbols whose damage is corrected are written with this parity
	checkRSInstances(c, r) // a decoder is reused for every block and symbol: nothing of an earlier word survives in it (also C04)
	checkDMPlacement(c, r)
	checkDMSweep(c, r)           // a module read from the wrong place costs one of the promised corrections (same obligations as under C08)
	checkDMBlockInterleave(c, r) // each Data Matrix block's check words are computed over that block's own data (also C08)
	r.Note("Reed-Solomon correction itself is decided under C04 on complete small domains (S-RSWHOLE); not decided: correction for the real block sizes (the same text, larger k and r), detection and sampling of damaged images")
}

func onesDiff(a, b int64) int { return bits.OnesCount64(uint64(a ^ b)) }

func checkBCHTolerance(c *Ctx, r *Report) {
	r.Rule("T-BCHDIST", "the acceptance thresholds of the nearest-codeword decoders are consistent with the code tables in the source: K in `bestDifference <= K` satisfies 3 <= K <= floor((d-1)/2) where d is the minimum pairwise Hamming distance of the table, computed by the checker (format: 32 words; version: 34 words)", 2)
	// format
	var fmtWords []int64
	if init, p := c.varInit("qrcode/decoder", "formatInfoDecodeLookup"); init != nil {
		v := c.eval(p, init)
		for _, row := range v.L {
			if xs, ok := row.ints(); ok && len(xs) == 2 {
				fmtWords = append(fmtWords, xs[0])
			}
		}
	}
	var verWords []int64
	if init, p := c.varInit("qrcode/decoder", "VERSION_DECODE_INFO"); init != nil {
		if xs, ok := c.eval(p, init).ints(); ok {
			verWords = xs
		}
	}
	minDist := func(ws []int64) int {
		d := 1 << 30
		for i := range ws {
			for j := i + 1; j < len(ws); j++ {
				if x := onesDiff(ws[i], ws[j]); x < d {
					d = x
				}
			}
		}
		return d
	}
	thresholdOf := func(rel, fn string) (int64, string, bool) {
		fd, p := c.funcDeclOf(rel, fn)
		if fd == nil {
			return 0, "", false
		}
		var k int64 = -1
		n := 0
		// the acceptance test: an if statement (outside the table loop) that compares one variable with a constant
		// and whose body is a single return - either the accepting return under `d <= k` or the refusing one
		// (nil first result) under `k < d`; the condition is folded for d = 0..20
		for _, st := range fd.Body.List {
			ifs, ok := st.(*ast.IfStmt)
			if !ok || ifs.Init != nil || ifs.Else != nil || len(ifs.Body.List) != 1 {
				continue
			}
			rs, isR := ifs.Body.List[0].(*ast.ReturnStmt)
			be, isB := ast.Unparen(ifs.Cond).(*ast.BinaryExpr)
			if !isR || !isB || len(rs.Results) == 0 {
				continue
			}
			var dObj types.Object
			var dSel *ast.SelectorExpr // the distance held in a field of a local (best.difference)
			var other ast.Expr
			if _, isC := constInt(p, be.Y); isC {
				other = be.X
			} else if _, isC := constInt(p, be.X); isC {
				other = be.Y
			}
			if other != nil {
				dObj = identObj(p, other)
				if dObj == nil {
					dSel, _ = ast.Unparen(other).(*ast.SelectorExpr)
				}
			}
			if dObj == nil && dSel == nil {
				continue
			}
			refuses := false
			if id, isI := ast.Unparen(rs.Results[0]).(*ast.Ident); isI && id.Name == "nil" {
				refuses = true
			}
			kk, mono := int64(-1), true
			for d := int64(0); d <= 20; d++ {
				env := map[types.Object]*Val{}
				var hk *rpf
				if dObj != nil {
					env[dObj] = vint(d)
				} else {
					dd := d
					hk = &rpf{selHook: func(rr *rpf, sel *ast.SelectorExpr) (*Val, bool) {
						if sel == dSel {
							return vint(dd), true
						}
						return nil, false
					}}
				}
				v, err := c.rpfExpr(p, ifs.Cond, env, hk)
				if err != nil || v.K != VBool {
					mono = false
					break
				}
				accepted := v.B != refuses
				if accepted && d == kk+1 {
					kk = d
				} else if accepted {
					mono = false
				}
			}
			if mono {
				k = kk
				n++
			}
		}
		return k, c.pos(fd.Pos()), n == 1
	}
	if k, pos, ok := thresholdOf("qrcode/decoder", "doDecodeFormatInformation"); ok && len(fmtWords) == 32 {
		d := minDist(fmtWords)
		r.Check(k >= 3 && int(k) <= (d-1)/2, "T-BCHDIST", "qrcode/decoder.doDecodeFormatInformation.threshold", pos, fmt.Sprintf("accepts up to %d differing bits; table minimum distance %d allows at most %d, the property promises 3", k, d, (d-1)/2))
	} else {
		r.Undecided("T-BCHDIST", "qrcode/decoder.doDecodeFormatInformation.threshold", pos, "threshold or table not recognised")
	}
	if k, pos, ok := thresholdOf("qrcode/decoder", "Version_decodeVersionInformation"); ok && len(verWords) == 34 {
		d := minDist(verWords)
		r.Check(k >= 3 && int(k) <= (d-1)/2, "T-BCHDIST", "qrcode/decoder.Version_decodeVersionInformation.threshold", pos, fmt.Sprintf("accepts up to %d differing bits; table minimum distance %d allows at most %d, the property promises 3", k, d, (d-1)/2))
	} else {
		r.Undecided("T-BCHDIST", "qrcode/decoder.Version_decodeVersionInformation.threshold", pos, "threshold or table not recognised")
	}
}

func bitsHook(rr *rpf, call *ast.CallExpr, callee types.Object) (*Val, bool) {
	if f, ok := callee.(*types.Func); ok && f.Pkg() != nil && f.Pkg().Path() == "math/bits" && (f.Name() == "OnesCount" || f.Name() == "OnesCount32" || f.Name() == "OnesCount64") {
		v := rr.expr(call.Args[0])
		if !v.isInt() {
			rpfFail("OnesCount of a non-integer")
		}
		return vint(int64(bits.OnesCount64(uint64(v.I)))), true
	}
	if f, ok := callee.(*types.Func); ok && (f.Name() == "Errorf" || f.Name() == "New") && f.Pkg() != nil && f.Pkg().Path() == "golang.org/x/xerrors" {
		return vstr("error"), true
	}
	return nil, false
}

// errorPatterns enumerates bit patterns of the given width: all of weight <= 1, and a deterministic
// sample (or all, in the thorough tier) of weights 2 and 3.
func errorPatterns(width int, thorough bool) []int64 {
	var out []int64
	out = append(out, 0)
	for i := 0; i < width; i++ {
		out = append(out, 1<<uint(i))
	}
	n := 0
	for i := 0; i < width; i++ {
		for j := i + 1; j < width; j++ {
			n++
			if thorough || n%5 == 0 {
				out = append(out, 1<<uint(i)|1<<uint(j))
			}
			for k := j + 1; k < width; k++ {
				n++
				if thorough || n%11 == 0 {
					out = append(out, 1<<uint(i)|1<<uint(j)|1<<uint(k))
				}
			}
		}
	}
	return out
}

func checkFormatDecodeFold(c *Ctx, r *Report) {
	r.Rule("M-FMTDECODE", "FormatInformation_DecodeFormatInformation folded on the literal table: for each of the 32 format words and every enumerated pattern of <= 3 flipped bits (same pattern in both copies; different patterns in the two copies) it returns the format of that word (EC level bits and mask)", 32)
	fd, p := c.funcDeclOf("qrcode/decoder", "FormatInformation_DecodeFormatInformation")
	if fd == nil {
		r.AnchorLost("M-FMTDECODE", "qrcode/decoder.FormatInformation_DecodeFormatInformation", "function not found")
		return
	}
	r.Analysed("qrcode/decoder.FormatInformation_DecodeFormatInformation")
	pats := errorPatterns(15, c.Tier == "thorough")
	nFolds := 0
	for data := int64(0); data < 32; data++ {
		w := int64(refQRFormatWord(int(data)))
		key := fmt.Sprintf("qrcode/decoder.FormatInformation_DecodeFormatInformation(word %02d)", data)
		bad := ""
		try := func(m1, m2 int64, what string) {
			if bad != "" {
				return
			}
			res, err := c.rpfCall(fd, p, []*Val{vint(m1), vint(m2)}, &rpf{callHook: bitsHook})
			nFolds++
			if err != nil {
				bad = "?" + err.Error()
				return
			}
			if len(res) != 1 || res[0].K != VStruct || !res[0].Fields["dataMask"].isInt() || !res[0].Fields["errorCorrectionLevel"].isInt() ||
				res[0].Fields["dataMask"].I != data&7 || res[0].Fields["errorCorrectionLevel"].I != data>>3 {
				bad = fmt.Sprintf("%s: copies 0x%04X / 0x%04X of format word 0x%04X (level bits %d, mask %d) decode to %v", what, m1, m2, w, data>>3, data&7, res)
			}
		}
		for i, e := range pats {
			try(w^e, w^e, "same damage in both copies")
			e2 := pats[(i*7+3)%len(pats)]
			try(w^e, w^e2, "independent damage <= 3 bits per copy")
		}
		if bad != "" && bad[0] == '?' {
			r.Undecided("M-FMTDECODE", key, c.pos(fd.Pos()), bad)
		} else {
			r.Check(bad == "", "M-FMTDECODE", key, c.pos(fd.Pos()), bad)
		}
	}
	r.Extra("format_decode_folds", nFolds)
}

func checkVersionDecodeFold(c *Ctx, r *Report) {
	r.Rule("M-VERDECODE", "Version_decodeVersionInformation folded on the literal table: for each of the 34 version words and every enumerated pattern of <= 3 flipped bits it returns the Version of that number", 34)
	fd, p := c.funcDeclOf("qrcode/decoder", "Version_decodeVersionInformation")
	if fd == nil {
		r.AnchorLost("M-VERDECODE", "qrcode/decoder.Version_decodeVersionInformation", "function not found")
		return
	}
	r.Analysed("qrcode/decoder.Version_decodeVersionInformation")
	pats := errorPatterns(18, c.Tier == "thorough")
	if c.Tier != "thorough" {
		// keep the quick tier light: all single bits, every 4th heavier pattern
		var light []int64
		for i, e := range pats {
			if bits.OnesCount64(uint64(e)) <= 1 || i%4 == 0 {
				light = append(light, e)
			}
		}
		pats = light
	}
	nFolds := 0
	for v := 7; v <= 40; v++ {
		w := int64(refQRVersionWord(v))
		key := fmt.Sprintf("qrcode/decoder.Version_decodeVersionInformation(v%d)", v)
		bad := ""
		for _, e := range pats {
			res, err := c.rpfCall(fd, p, []*Val{vint(w ^ e)}, &rpf{callHook: bitsHook})
			nFolds++
			if err != nil {
				bad = "?" + err.Error()
				break
			}
			okRes := len(res) == 2 && res[1].K == VNil && res[0].K == VCall && len(res[0].L) > 0 && res[0].L[0].isInt() && int(res[0].L[0].I) == v
			if !okRes {
				bad = fmt.Sprintf("version word 0x%05X of version %d with bits 0x%05X flipped decodes to %v", w, v, e, res)
				break
			}
		}
		if bad != "" && bad[0] == '?' {
			r.Undecided("M-VERDECODE", key, c.pos(fd.Pos()), bad)
		} else {
			r.Check(bad == "", "M-VERDECODE", key, c.pos(fd.Pos()), bad)
		}
	}
	r.Extra("version_decode_folds", nFolds)
}

// both copies are consulted
func checkBothCopies(c *Ctx, r *Report) {
	r.Rule("M-BOTHCOPIES", "ReadFormatInformation hands two separately read 15-bit words to the decoder; ReadVersion returns an error only after both 18-bit copies failed (the second read is reached whenever the first did not return); a decoded version must match the symbol's dimension", 3)
	if fd, p := c.funcDeclOf("qrcode/decoder", "BitMatrixParser.ReadFormatInformation"); fd != nil {
		key := "qrcode/decoder.BitMatrixParser.ReadFormatInformation"
		r.Analysed(key)
		calls := findCalls(p, fd.Body, func(o types.Object) bool {
			return isFuncNamed(o, "qrcode/decoder", "FormatInformation_DecodeFormatInformation")
		})
		ok := false
		if len(calls) == 1 && len(calls[0].Args) == 2 {
			a := identObj(p, stripConv(calls[0].Args[0]))
			b := identObj(p, stripConv(calls[0].Args[1]))
			// both are accumulated by copyBit in separate loops: each assigned from copyBit(.., .., itself)
			acc := func(o types.Object) int {
				n := 0
				ast.Inspect(fd.Body, func(nd ast.Node) bool {
					if as, isA := nd.(*ast.AssignStmt); isA && len(as.Lhs) == 1 && identObj(p, as.Lhs[0]) == o {
						if call, isC := as.Rhs[0].(*ast.CallExpr); isC && len(call.Args) == 3 && identObj(p, call.Args[2]) == o {
							n++
						}
					}
					return true
				})
				return n
			}
			ok = a != nil && b != nil && a != b && acc(a) >= 3 && acc(b) >= 2
		}
		r.Check(ok, "M-BOTHCOPIES", key, c.pos(fd.Pos()), "DecodeFormatInformation must receive two distinct accumulated words (top-left copy, and the split copy)")
	} else {
		r.AnchorLost("M-BOTHCOPIES", "qrcode/decoder.BitMatrixParser.ReadFormatInformation", "method not found")
	}
	if fd, p := c.funcDeclOf("qrcode/decoder", "BitMatrixParser.ReadVersion"); fd != nil {
		key := "qrcode/decoder.BitMatrixParser.ReadVersion"
		r.Analysed(key)
		calls := findCalls(p, fd.Body, func(o types.Object) bool {
			return isFuncNamed(o, "qrcode/decoder", "Version_decodeVersionInformation")
		})
		// top-level statement structure: two decode attempts, each followed by `if ok-condition { return version, nil }`, final error return
		okTwo := len(calls) == 2
		if okTwo {
			for _, cl := range calls {
				st := enclosingStmt(fd.Body, cl)
				top := false
				for _, s := range fd.Body.List {
					if s == st {
						top = true
					}
				}
				if !top {
					okTwo = false
				}
			}
		}
		// after the second attempt: an error exit at the top level, as the final return or as a guard clause
		okErr := false
		if okTwo {
			second := enclosingStmt(fd.Body, calls[1])
			after := false
			for _, st := range fd.Body.List {
				if st == second {
					after = true
					continue
				}
				if !after {
					continue
				}
				switch x := st.(type) {
				case *ast.ReturnStmt:
					okErr = okErr || blockReturnsError(p, []ast.Stmt{x}, nil)
				case *ast.IfStmt:
					okErr = okErr || (x.Else == nil && blockReturnsError(p, x.Body.List, nil))
				}
			}
		}
		// dimension agreement in both acceptance tests
		nDim := 0
		ast.Inspect(fd.Body, func(nd ast.Node) bool {
			if call, ok := nd.(*ast.CallExpr); ok && isMethodNamed(typeutil.Callee(p.TypesInfo, call), "qrcode/decoder", "Version", "GetDimensionForVersion") {
				nDim++
			}
			return true
		})
		r.Check(okTwo && okErr, "M-BOTHCOPIES", key, c.pos(fd.Pos()), "both version copies must be decoded unconditionally in sequence (second attempt not nested under a condition) before the final error")
		r.Check(nDim >= 2, "M-BOTHCOPIES", key+".dimension-agreement", c.pos(fd.Pos()), "each accepted version must be compared with the symbol's dimension")
	} else {
		r.AnchorLost("M-BOTHCOPIES", "qrcode/decoder.BitMatrixParser.ReadVersion", "method not found")
	}
	checkQRInfoReadWhole(c, r)
}

func stripConv(e ast.Expr) ast.Expr {
	if call, ok := ast.Unparen(e).(*ast.CallExpr); ok && len(call.Args) == 1 {
		return call.Args[0]
	}
	return e
}

// RS is asked to use the full parity and every block is corrected before its bytes are used
func checkRSFullParity(c *Ctx, r *Report) {
	r.Rule("S-RSFULL", "in QR and Data Matrix correctErrors the number of parity symbols handed to the Reed-Solomon decoder is len(codewords) - numDataCodewords (all of the block's EC codewords), a failure is returned as a checksum error, and in Decode every block goes through correctErrors (error -> return) with its own (codewords, numDataCodewords) before its data bytes are copied out", 4)
	for _, t := range []struct{ rel, recv string }{{"qrcode/decoder", "Decoder"}, {"datamatrix/decoder", "Decoder"}} {
		fd, p := c.funcDeclOf(t.rel, t.recv+".correctErrors")
		key := t.rel + "." + t.recv + ".correctErrors"
		if fd == nil {
			r.AnchorLost("S-RSFULL", key, "method not found")
			continue
		}
		r.Analysed(key)
		ps := paramObjs(p, fd)
		s := c.symFunc(fd, p, nil)
		ok := false
		for _, cl := range s.calls {
			if isMethodNamed(cl.Callee, "common/reedsolomon", "ReedSolomonDecoder", "Decode") && len(cl.Args) == 2 {
				want := polyAtom("len(" + polyAtom(objAtom(ps[0])).String() + ")").sub(polyAtom(objAtom(ps[1])))
				if cl.Args[1].equal(want) {
					ok = true
				}
			}
		}
		// error mapped to checksum exception
		okErr := false
		ast.Inspect(fd.Body, func(n ast.Node) bool {
			if ifs, isI := n.(*ast.IfStmt); isI && blockReturnsError(p, ifs.Body.List, isChecksumExc) {
				okErr = true
			}
			return true
		})
		// corrected data copied back for i < numDataCodewords
		r.Check(ok && okErr, "S-RSFULL", key, c.pos(fd.Pos()), fmt.Sprintf("parity count len(codewordBytes) - numDataCodewords (%v), failure -> checksum error (%v)", ok, okErr))
	}
	checkBlockLoop(c, r, "qrcode/decoder", "Decoder.decode", "GetCodewords", "GetNumDataCodewords")
	checkBlockLoop(c, r, "datamatrix/decoder", "Decoder.Decode", "getCodewords", "getNumDataCodewords")
}

func checkBlockLoop(c *Ctx, r *Report, rel, fn, getCw, getN string) {
	fd, p := c.funcDeclOf(rel, fn)
	key := rel + "." + fn + ".per-block"
	if fd == nil {
		r.AnchorLost("S-RSFULL", key, "method not found")
		return
	}
	isCE := func(o types.Object) bool {
		f, ok := o.(*types.Func)
		return ok && f.Name() == "correctErrors"
	}
	calls := findCalls(p, fd.Body, isCE)
	if len(calls) == 0 {
		// the per-block loop may live in a helper of the same package that the method calls (an extracted method)
		for _, hc := range findCalls(p, fd.Body, func(o types.Object) bool {
			f, ok := o.(*types.Func)
			return ok && f.Pkg() == p.Types && c.funcDecl[f] != nil && c.funcDecl[f].Body != nil
		}) {
			hf := typeutil.Callee(p.TypesInfo, hc).(*types.Func)
			if hfd := c.funcDecl[hf]; len(findCalls(p, hfd.Body, isCE)) == 1 {
				fd = hfd
				calls = findCalls(p, fd.Body, isCE)
				break
			}
		}
	}
	if len(calls) != 1 {
		r.Undecided("S-RSFULL", key, c.pos(fd.Pos()), fmt.Sprintf("%d correctErrors calls", len(calls)))
		return
	}
	call := calls[0]
	st := enclosingStmt(fd.Body, call)
	gi, _ := guardsOf(fd.Body, st)
	inLoop := false
	var body []ast.Stmt
	for _, e := range gi.Enclosing {
		switch l := e.Node.(type) {
		case *ast.RangeStmt:
			inLoop = true
			body = l.Body.List
		case *ast.ForStmt:
			inLoop = true
			body = l.Body.List
		}
	}
	bad := ""
	if !inLoop {
		bad = "correctErrors is not called inside the per-block loop"
	}
	// arguments: both derived from the same block variable via getCw / getN
	var blockObj types.Object
	argFrom := func(arg ast.Expr, getter string) bool {
		o := identObj(p, arg)
		if o == nil {
			return false
		}
		found := false
		for _, s := range body {
			if as, ok := s.(*ast.AssignStmt); ok && len(as.Lhs) == 1 && identObj(p, as.Lhs[0]) == o {
				if cl, ok := as.Rhs[0].(*ast.CallExpr); ok {
					if sel, ok := cl.Fun.(*ast.SelectorExpr); ok && sel.Sel.Name == getter {
						b := identObj(p, sel.X)
						if blockObj == nil {
							blockObj = b
						}
						found = b != nil && b == blockObj
					}
				}
			}
		}
		return found
	}
	if bad == "" && !(argFrom(call.Args[0], getCw) && argFrom(call.Args[1], getN)) {
		bad = "correctErrors must receive the block's own codewords and data-codeword count"
	}
	// error exit follows, and the copy-out (a store into the result buffer from the corrected codewords) comes after
	if bad == "" {
		idx := -1
		for i, s := range body {
			if s == st {
				idx = i
			}
		}
		okExit, okCopyAfter := false, false
		errObj := types.Object(nil)
		if as, ok := st.(*ast.AssignStmt); ok {
			errObj = identObj(p, as.Lhs[0])
		}
		for i, s := range body {
			if i <= idx {
				// a copy-out before correction is the violation
				if i < idx && copiesFrom(p, s, identObj(p, call.Args[0])) {
					bad = "block bytes are copied out before correctErrors ran"
				}
				continue
			}
			if ifs, ok := s.(*ast.IfStmt); ok && errObj != nil {
				if be, ok := ast.Unparen(ifs.Cond).(*ast.BinaryExpr); ok && be.Op == token.NEQ && identObj(p, be.X) == errObj && blockReturnsError(p, ifs.Body.List, nil) {
					okExit = true
				}
			}
			if okExit && copiesFrom(p, s, identObj(p, call.Args[0])) {
				okCopyAfter = true
			}
		}
		if bad == "" && !(okExit && okCopyAfter) {
			bad = fmt.Sprintf("after correctErrors: error exit %v, copy-out of the corrected codewords %v", okExit, okCopyAfter)
		}
	}
	r.Check(bad == "", "S-RSFULL", key, c.pos(call.Pos()), bad)
}

// copiesFrom: statement (or loop) that reads src[...] on the right-hand side of a store
func copiesFrom(p *packages.Package, s ast.Stmt, src types.Object) bool {
	found := false
	ast.Inspect(s, func(n ast.Node) bool {
		as, ok := n.(*ast.AssignStmt)
		if !ok {
			return true
		}
		for _, rhs := range as.Rhs {
			ast.Inspect(rhs, func(m ast.Node) bool {
				if ix, ok := m.(*ast.IndexExpr); ok && identObj(p, ix.X) == src && src != nil {
					found = true
				}
				return true
			})
		}
		return true
	})
	return found
}

// T-INFOREAD: the module coordinates the decoder reads format and version information from
func checkQRInfoReadPositions(c *Ctx, r *Report) {
	defer checkQRInfoReadWhole(c, r)
	r.Rule("T-INFOREAD", "BitMatrixParser.ReadFormatInformation reads, most significant bit first, copy 1 from (0..5,8),(7,8),(8,8),(8,7),(8,5..0) and copy 2 from (8,d-1..d-7),(d-8..d-1,8) - 15 modules each, the mirror image of the encoder's placement (T-FMTPOS); ReadVersion reads copy 1 from columns d-9..d-11 of rows 5..0 and copy 2 from rows d-9..d-11 of columns 5..0 - 18 modules each: the loops are unrolled for dimensions 21, 45 and 177", 4)
	type coord struct{ i, j int64 }
	fold := func(fn string, dim int64) (map[string][]coord, []string, string) {
		fd, p := c.funcDeclOf("qrcode/decoder", "BitMatrixParser."+fn)
		if fd == nil {
			return nil, nil, "!"
		}
		seqs := map[string][]coord{}
		var order []string
		h := &rpf{unroll: 64}
		h.selHook = func(rr *rpf, sel *ast.SelectorExpr) (*Val, bool) {
			switch sel.Sel.Name {
			case "parsedFormatInfo", "parsedVersion":
				return &Val{K: VNil}, true
			}
			return nil, false
		}
		h.stHook = func(rr *rpf, lhs ast.Expr, v *Val) bool { return true }
		h.callHook = func(rr *rpf, call *ast.CallExpr, callee types.Object) (*Val, bool) {
			fnc, ok := callee.(*types.Func)
			if !ok {
				return nil, false
			}
			switch fnc.Name() {
			case "copyBit":
				i, j, acc := rr.expr(call.Args[0]), rr.expr(call.Args[1]), rr.expr(call.Args[2])
				if i.K != VInt || j.K != VInt || acc.K != VInt {
					rpfFail("copyBit with non-constant arguments")
				}
				name := exprString(call.Args[2])
				if _, seen := seqs[name]; !seen {
					order = append(order, name)
				}
				seqs[name] = append(seqs[name], coord{i.I, j.I})
				return vint(acc.I << 1), true
			case "GetHeight", "GetWidth":
				return vint(dim), true
			case "FormatInformation_DecodeFormatInformation":
				return &Val{K: VNil}, true
			case "Version_GetVersionForNumber":
				return nil, false
			}
			return errCtorHook(rr, call, callee)
		}
		h.multiHook = func(call *ast.CallExpr, callee types.Object) ([]*Val, bool) {
			if fnc, ok := callee.(*types.Func); ok && (fnc.Name() == "Version_decodeVersionInformation" || fnc.Name() == "Version_GetVersionForNumber") {
				// "no match": forces the second copy to be read as well
				return []*Val{{K: VNil}, vstr("error")}, true
			}
			return nil, false
		}
		h.env = map[types.Object]*Val{}
		if ro := recvObj(p, fd); ro != nil {
			h.env[ro] = &Val{K: VStruct, Fields: map[string]*Val{}, Local: true}
		}
		_, err := c.rpfCall(fd, p, nil, h)
		if err != nil {
			return seqs, order, "?" + err.Error()
		}
		return seqs, order, ""
	}
	same := func(a, b []coord) bool {
		if len(a) != len(b) {
			return false
		}
		for i := range a {
			if a[i] != b[i] {
				return false
			}
		}
		return true
	}
	for _, dim := range []int64{21, 45, 177} {
		key := fmt.Sprintf("qrcode/decoder.BitMatrixParser.ReadFormatInformation(d=%d)", dim)
		seqs, order, errS := fold("ReadFormatInformation", dim)
		if errS == "!" {
			r.AnchorLost("T-INFOREAD", key, "method not found")
			continue
		}
		r.Analysed(key)
		var w1, w2 []coord
		for i := int64(0); i <= 5; i++ {
			w1 = append(w1, coord{i, 8})
		}
		w1 = append(w1, coord{7, 8}, coord{8, 8}, coord{8, 7})
		for j := int64(5); j >= 0; j-- {
			w1 = append(w1, coord{8, j})
		}
		for j := dim - 1; j >= dim-7; j-- {
			w2 = append(w2, coord{8, j})
		}
		for i := dim - 8; i < dim; i++ {
			w2 = append(w2, coord{i, 8})
		}
		switch {
		case errS != "":
			r.Undecided("T-INFOREAD", key, "", errS[1:])
		case len(order) != 2:
			r.Fail("T-INFOREAD", key, "", "violation", fmt.Sprintf("%d accumulators filled by copyBit, expected the two copies", len(order)))
		case !same(seqs[order[0]], w1):
			r.Fail("T-INFOREAD", key, "", "violation", fmt.Sprintf("copy 1 is read from %v, expected %v", seqs[order[0]], w1))
		case !same(seqs[order[1]], w2):
			r.Fail("T-INFOREAD", key, "", "violation", fmt.Sprintf("copy 2 is read from %v, expected %v (7 modules up the right side of the bottom-left finder, 8 along the bottom of the top-right one)", seqs[order[1]], w2))
		default:
			r.Pass("T-INFOREAD", key, "", "")
		}
	}
	for _, dim := range []int64{45, 177} {
		key := fmt.Sprintf("qrcode/decoder.BitMatrixParser.ReadVersion(d=%d)", dim)
		seqs, order, errS := fold("ReadVersion", dim)
		if errS == "!" {
			r.AnchorLost("T-INFOREAD", key, "method not found")
			continue
		}
		r.Analysed(key)
		var w1, w2 []coord
		for j := int64(5); j >= 0; j-- {
			for i := dim - 9; i >= dim-11; i-- {
				w1 = append(w1, coord{i, j})
			}
		}
		for i := int64(5); i >= 0; i-- {
			for j := dim - 9; j >= dim-11; j-- {
				w2 = append(w2, coord{i, j})
			}
		}
		var got []coord
		for _, n := range order {
			got = append(got, seqs[n]...)
		}
		switch {
		case errS != "":
			r.Undecided("T-INFOREAD", key, "", errS[1:])
		case !same(got, append(append([]coord{}, w1...), w2...)):
			r.Fail("T-INFOREAD", key, "", "violation", fmt.Sprintf("version information is read from %v, expected the top-right block %v then the bottom-left block %v", got, w1, w2))
		default:
			r.Pass("T-INFOREAD", key, "", "")
		}
	}
}

// the word handed to the Reed-Solomon decoder is exactly the block, and the corrected data comes back
func checkRSWord(c *Ctx, r *Report) {
	r.Rule("S-RSWORD", "QR and Data Matrix correctErrors, folded with the Reed-Solomon decoder replaced by a recorder, hand Decode a word that is exactly the block - one symbol per codeword, in order, values 0..255, nothing before or after it (a longer word would let the decoder 'correct' positions that are not in the symbol instead of rejecting them) - with twoS = all of the block's check codewords, and afterwards store the first numDataCodewords symbols of that word, as corrected by the decoder, back into the block; blocks of (data, check) = (1,2), (3,4), (5,10), (19,7)", 2)
	for _, rel := range []string{"qrcode/decoder", "datamatrix/decoder"} {
		fd, p := c.funcDeclOf(rel, "Decoder.correctErrors")
		key := rel + ".Decoder.correctErrors.word"
		if fd == nil {
			r.AnchorLost("S-RSWORD", key, "method not found")
			continue
		}
		r.Analysed(key)
		bad := ""
		for _, shape := range [][2]int{{1, 2}, {3, 4}, {5, 10}, {19, 7}} {
			nd, ne := shape[0], shape[1]
			block := &Val{K: VList, Local: true}
			var orig []int64
			for i := 0; i < nd+ne; i++ {
				v := int64((i*37 + 200) % 256)
				orig = append(orig, v)
				block.L = append(block.L, vint(v))
			}
			calls := 0
			var gotWord []int64
			var gotTwoS int64
			h := &rpf{unroll: 1000}
			h.callHook = func(rr *rpf, call *ast.CallExpr, callee types.Object) (*Val, bool) {
				if isMethodNamed(callee, "common/reedsolomon", "ReedSolomonDecoder", "Decode") && len(call.Args) == 2 {
					w, n := rr.expr(call.Args[0]), rr.expr(call.Args[1])
					ws, ok := listInts(w)
					if !ok || n.K != VInt {
						rpfFail("Reed-Solomon decoder called with a word that is not a list of constants")
					}
					calls++
					gotWord, gotTwoS = ws, n.I
					if !w.Local {
						rpfFail("Reed-Solomon decoder called on storage not created in correctErrors")
					}
					// the decoder 'corrects' every symbol: symbol i becomes 255 - value
					for i := range w.L {
						w.L[i] = vint(255 - ws[i])
					}
					return &Val{K: VNil}, true
				}
				return errCtorHook(rr, call, callee)
			}
			res, err := c.rpfCall(fd, p, []*Val{block, vint(int64(nd))}, h)
			if err != nil {
				bad = "?" + err.Error()
				break
			}
			what := fmt.Sprintf("block of %d data and %d check codewords", nd, ne)
			if len(res) != 1 || res[0].K != VNil {
				bad = what + ": an error is returned although the decoder reported none"
				break
			}
			if calls != 1 {
				bad = fmt.Sprintf("%s: the Reed-Solomon decoder is called %d times", what, calls)
				break
			}
			if fmt.Sprint(gotWord) != fmt.Sprint(orig) {
				bad = fmt.Sprintf("%s: the decoder is handed a word of %d symbols %v, the block is the %d symbols %v", what, len(gotWord), gotWord, len(orig), orig)
				break
			}
			if gotTwoS != int64(ne) {
				bad = fmt.Sprintf("%s: the decoder is told to use %d check symbols", what, gotTwoS)
				break
			}
			after, _ := listInts(block)
			for i := range after {
				want := orig[i]
				if i < nd {
					want = 255 - orig[i]
				}
				if after[i] != want && (i < nd) {
					bad = fmt.Sprintf("%s: data codeword %d of the block is %d after correction, the decoder's word holds %d there", what, i, after[i], want)
					break
				}
			}
			if bad != "" {
				break
			}
		}
		reportFold(r, c, "S-RSWORD", key, fd.Pos(), bad)
	}
}

// S-PIPELINE: from the codewords read off the symbol to the byte stream handed to the bit-stream parser
func checkDecodePipelines(c *Ctx, r *Report) {
	r.Rule("S-PIPELINE", "the decoders' own glue, folded from source with the readers, Reed-Solomon and the bit-stream parser replaced by recorders: the Data Matrix Decoder.Decode (all 30 sizes) and the QR Decoder.decode (10 versions x 4 levels; all 160 in the thorough tier), given the interleaved stream of tagged codewords of the symbol, hand every block with its own data-codeword count to correctErrors and then hand the bit-stream parser exactly the data codewords of the message in their original order - nothing missing, nothing appended", 70)
	type stop struct{}
	// ---------------- Data Matrix
	if fd, p := c.funcDeclOf("datamatrix/decoder", "Decoder.Decode"); fd == nil {
		r.AnchorLost("S-PIPELINE", "datamatrix/decoder.Decoder.Decode", "method not found")
	} else {
		nv, _ := c.lookupObj("datamatrix/decoder", "NewVersion").(*types.Func)
		nfd := c.funcDecl[nv]
		init, ip := c.varInit("datamatrix/decoder", "versions")
		var tv *Val
		if init != nil {
			tv = c.eval(ip, init)
		}
		for _, ref := range refDM {
			key := fmt.Sprintf("datamatrix/decoder.Decoder.Decode %dx%d", ref.rows, ref.cols)
			r.Analysed(key)
			pos := c.pos(fd.Pos())
			var ver *Val
			if tv != nil && tv.K == VList && nfd != nil {
				for _, e := range tv.L {
					if e.K == VCall && e.Fn == nv && len(e.L) == 6 && e.L[1].isInt() && e.L[2].isInt() && int(e.L[1].I) == ref.rows && int(e.L[2].I) == ref.cols {
						if res, err := c.rpfCall(nfd, c.declPkg[nfd], e.L, nil); err == nil && len(res) == 1 && res[0].K == VStruct {
							ver = res[0]
						}
					}
				}
			}
			if ver == nil {
				r.Undecided("S-PIPELINE", key, pos, "no foldable versions entry for this size")
				continue
			}
			B, total := ref.blocks, ref.data+ref.ec
			raw := &Val{K: VList}
			for q := 0; q < total; q++ {
				raw.L = append(raw.L, vint(int64(q)))
			}
			var got []int64
			var blocksSeen []int64
			captured := false
			h := &rpf{unroll: 100000, maxSteps: 5000000}
			h.callHook = func(rr *rpf, call *ast.CallExpr, callee types.Object) (*Val, bool) {
				fn, ok := callee.(*types.Func)
				if !ok {
					return nil, false
				}
				switch fn.Name() {
				case "GetVersion":
					return ver, true
				case "correctErrors":
					n := rr.expr(call.Args[1])
					if n.K != VInt {
						rpfFail("correctErrors with a non-constant data-codeword count")
					}
					blocksSeen = append(blocksSeen, n.I)
					return &Val{K: VNil}, true
				}
				return errCtorHook(rr, call, callee)
			}
			h.multiHook = func(call *ast.CallExpr, callee types.Object) ([]*Val, bool) {
				fn, ok := callee.(*types.Func)
				if !ok {
					return nil, false
				}
				switch fn.Name() {
				case "NewBitMatrixParser":
					return []*Val{{K: VStruct, Ptr: true, Fields: map[string]*Val{}}, {K: VNil}}, true
				case "readCodewords":
					return []*Val{raw, {K: VNil}}, true
				case "DecodedBitStreamParser_decode":
					v := rpfCurrent.expr(call.Args[0])
					got, captured = nil, true
					if xs, ok := listInts(v); ok {
						got = xs
					}
					panic(stop{})
				}
				return nil, false
			}
			var err error
			func() {
				defer func() {
					if x := recover(); x != nil {
						if _, ok := x.(stop); ok {
							return
						}
						panic(x)
					}
				}()
				_, err = c.rpfCall(fd, p, []*Val{{K: VNil}}, h)
			}()
			if err != nil {
				r.Undecided("S-PIPELINE", key, pos, err.Error())
				continue
			}
			bad := ""
			if !captured {
				bad = "the bit-stream parser is never reached"
			}
			if bad == "" && len(got) != ref.data {
				bad = fmt.Sprintf("the bit-stream parser is handed %d bytes, the symbol has %d data codewords", len(got), ref.data)
			}
			for i := 0; i < len(got) && bad == ""; i++ {
				if got[i] != int64(i) {
					bad = fmt.Sprintf("byte %d handed to the bit-stream parser is stream codeword %d, the message's data codeword %d is stream codeword %d", i, got[i], i, i)
				}
			}
			if bad == "" && len(blocksSeen) != B {
				bad = fmt.Sprintf("correctErrors is called for %d blocks, the symbol has %d", len(blocksSeen), B)
			}
			for b := 0; b < len(blocksSeen) && bad == ""; b++ {
				want := int64(ref.data / B)
				if b < ref.data%B {
					want++
				}
				if blocksSeen[b] != want {
					bad = fmt.Sprintf("block %d is corrected with %d data codewords, it has %d", b, blocksSeen[b], want)
				}
			}
			r.Check(bad == "", "S-PIPELINE", key, pos, bad)
		}
	}
	// ---------------- QR
	fd, p := c.funcDeclOf("qrcode/decoder", "Decoder.decode")
	if fd == nil {
		r.AnchorLost("S-PIPELINE", "qrcode/decoder.Decoder.decode", "method not found")
		return
	}
	versions := []int{1, 2, 5, 7, 10, 15, 20, 27, 32, 40}
	if c.Tier == "thorough" {
		versions = nil
		for v := 1; v <= 40; v++ {
			versions = append(versions, v)
		}
	}
	const ecTag = 1000000
	for _, v := range versions {
		for lv := 0; lv < 4; lv++ {
			key := fmt.Sprintf("qrcode/decoder.Decoder.decode v%d-%s", v, refQRLevelNames[lv])
			r.Analysed(key)
			pos := c.pos(fd.Pos())
			ec, groups := refQRBlocks(v, lv)
			total := refQRTotalCodewords(v)
			var dataLen []int
			for _, g := range groups {
				for i := 0; i < g[0]; i++ {
					dataLen = append(dataLen, g[1])
				}
			}
			nb := len(dataLen)
			numData := total - ec*nb
			start := make([]int, nb)
			off, maxD := 0, 0
			for b, n := range dataLen {
				start[b] = off
				off += n
				if n > maxD {
					maxD = n
				}
			}
			raw := &Val{K: VList}
			for i := 0; i < maxD; i++ {
				for b := 0; b < nb; b++ {
					if i < dataLen[b] {
						raw.L = append(raw.L, vint(int64(start[b]+i)))
					}
				}
			}
			for i := 0; i < ec; i++ {
				for b := 0; b < nb; b++ {
					raw.L = append(raw.L, vint(int64(ecTag+b*1000+i)))
				}
			}
			ecb := &Val{K: VList}
			for _, g := range groups {
				ecb.L = append(ecb.L, &Val{K: VStruct, Fields: map[string]*Val{"count": vint(int64(g[0])), "dataCodewords": vint(int64(g[1]))}})
			}
			ecBlocks := &Val{K: VStruct, Ptr: true, Fields: map[string]*Val{"ecCodewordsPerBlock": vint(int64(ec)), "ecBlocks": ecb}}
			var got, blocksSeen []int64
			captured := false
			h := &rpf{unroll: 100000, maxSteps: 5000000}
			h.callHook = func(rr *rpf, call *ast.CallExpr, callee types.Object) (*Val, bool) {
				fn, ok := callee.(*types.Func)
				if !ok {
					return nil, false
				}
				switch fn.Name() {
				case "GetTotalCodewords":
					return vint(int64(total)), true
				case "GetECBlocksForLevel":
					return ecBlocks, true
				case "GetErrorCorrectionLevel":
					return vint(int64(lv)), true
				case "correctErrors":
					n := rr.expr(call.Args[1])
					if n.K != VInt {
						rpfFail("correctErrors with a non-constant data-codeword count")
					}
					blocksSeen = append(blocksSeen, n.I)
					return &Val{K: VNil}, true
				}
				return errCtorHook(rr, call, callee)
			}
			h.multiHook = func(call *ast.CallExpr, callee types.Object) ([]*Val, bool) {
				fn, ok := callee.(*types.Func)
				if !ok {
					return nil, false
				}
				switch fn.Name() {
				case "ReadVersion", "ReadFormatInformation":
					return []*Val{{K: VStruct, Ptr: true, Fields: map[string]*Val{}}, {K: VNil}}, true
				case "ReadCodewords":
					return []*Val{raw, {K: VNil}}, true
				case "DecodedBitStreamParser_Decode":
					captured = true
					got, _ = listInts(rpfCurrent.expr(call.Args[0]))
					panic(stop{})
				}
				return nil, false
			}
			var err error
			func() {
				defer func() {
					if x := recover(); x != nil {
						if _, ok := x.(stop); ok {
							return
						}
						panic(x)
					}
				}()
				_, err = c.rpfCall(fd, p, []*Val{{K: VStruct, Ptr: true, Fields: map[string]*Val{}}, {K: VNil}}, h)
			}()
			if err != nil {
				r.Undecided("S-PIPELINE", key, pos, err.Error())
				continue
			}
			bad := ""
			if !captured {
				bad = "the bit-stream parser is never reached"
			}
			if bad == "" && len(got) != numData {
				bad = fmt.Sprintf("the bit-stream parser is handed %d bytes, the symbol has %d data codewords", len(got), numData)
			}
			for i := 0; i < len(got) && bad == ""; i++ {
				if got[i] != int64(i) {
					bad = fmt.Sprintf("byte %d handed to the bit-stream parser carries tag %d, not data codeword %d of the message", i, got[i], i)
				}
			}
			if bad == "" && len(blocksSeen) != nb {
				bad = fmt.Sprintf("correctErrors is called for %d blocks, the structure has %d", len(blocksSeen), nb)
			}
			for b := 0; b < len(blocksSeen) && bad == ""; b++ {
				if blocksSeen[b] != int64(dataLen[b]) {
					bad = fmt.Sprintf("block %d is corrected with %d data codewords, it has %d", b, blocksSeen[b], dataLen[b])
				}
			}
			r.Check(bad == "", "S-PIPELINE", key, pos, bad)
		}
	}
}

// S-INFOREADW: ReadFormatInformation and ReadVersion folded whole over a planted symbol: it decides the positions
// (T-INFOREAD) and the use of both copies (M-BOTHCOPIES) whatever the shape of the code that reads them.
func checkQRInfoReadWhole(c *Ctx, r *Report) {
	if _, done := r.rules["S-INFOREADW"]; done {
		return
	}
	r.Rule("S-INFOREADW", "BitMatrixParser.ReadFormatInformation and ReadVersion folded whole with the symbol replaced by a planted one (BitMatrix.Get answers from a set of dark modules, the decoders of the two kinds of word are recorders): with one dark module at the k-th position of a copy - in a mirrored symbol, at its transpose - the word of that copy handed to the decoder is 1<<(n-1-k) and the other word 0, for every k, n = 15 (format; dimensions 21, 45, 177) and n = 18 (version; dimensions 45, 177); with no dark module, and with every module dark except the two copies, both words are 0; ReadVersion decodes copy 2 after copy 1 failed or gave a version of another dimension, returns the first version whose dimension matches, and returns no version when neither does", 14)
	type coord struct{ i, j int64 }
	fdF, pF := c.funcDeclOf("qrcode/decoder", "BitMatrixParser.ReadFormatInformation")
	fdV, pV := c.funcDeclOf("qrcode/decoder", "BitMatrixParser.ReadVersion")
	if fdF == nil || fdV == nil {
		r.AnchorLost("S-INFOREADW", "qrcode/decoder.BitMatrixParser", "ReadFormatInformation or ReadVersion not found")
		return
	}
	// fold runs fn on a symbol whose dark modules are given by dark; verdicts scripts the version decoder's answers
	// (0 = no match, n = version n); it returns the words handed to the decoders in call order and the result
	fold := func(fd *ast.FuncDecl, p *packages.Package, dim int64, mirror bool, dark func(x, y int64) bool, verdicts []int64) (words [][]int64, res []*Val, err error) {
		h := &rpf{unroll: 64}
		h.selHook = func(rr *rpf, sel *ast.SelectorExpr) (*Val, bool) {
			switch sel.Sel.Name {
			case "parsedFormatInfo", "parsedVersion":
				return &Val{K: VNil}, true
			}
			return nil, false
		}
		h.stHook = func(rr *rpf, lhs ast.Expr, v *Val) bool {
			if sel, ok := ast.Unparen(lhs).(*ast.SelectorExpr); ok {
				return sel.Sel.Name == "parsedFormatInfo" || sel.Sel.Name == "parsedVersion"
			}
			return false
		}
		h.callHook = func(rr *rpf, call *ast.CallExpr, callee types.Object) (*Val, bool) {
			fnc, ok := callee.(*types.Func)
			if !ok {
				return nil, false
			}
			recvNamed := ""
			if sig, ok := fnc.Type().(*types.Signature); ok && sig.Recv() != nil {
				recvNamed = namedOf(sig.Recv().Type())
			}
			switch {
			case recvNamed == "BitMatrix" && fnc.Name() == "Get":
				x, y := rr.expr(call.Args[0]), rr.expr(call.Args[1])
				if x.K != VInt || y.K != VInt {
					rpfFail("BitMatrix.Get with non-constant arguments")
				}
				if x.I < 0 || y.I < 0 || x.I >= dim || y.I >= dim {
					rpfFail("BitMatrix.Get(%d, %d) outside the %dx%d symbol", x.I, y.I, dim, dim)
				}
				return vbool(dark(x.I, y.I)), true
			case recvNamed == "BitMatrix" && (fnc.Name() == "GetHeight" || fnc.Name() == "GetWidth"):
				return vint(dim), true
			case fnc.Name() == "FormatInformation_DecodeFormatInformation":
				a, b := rr.expr(call.Args[0]), rr.expr(call.Args[1])
				if a.K != VInt || b.K != VInt {
					rpfFail("DecodeFormatInformation with non-constant arguments")
				}
				words = append(words, []int64{a.I, b.I})
				return &Val{K: VNil}, true
			}
			return errCtorHook(rr, call, callee)
		}
		h.multiHook = func(call *ast.CallExpr, callee types.Object) ([]*Val, bool) {
			fnc, ok := callee.(*types.Func)
			if !ok {
				return nil, false
			}
			switch fnc.Name() {
			case "Version_decodeVersionInformation":
				a := rpfCurrent.expr(call.Args[0])
				if a.K != VInt {
					rpfFail("decodeVersionInformation with a non-constant argument")
				}
				n := len(words)
				words = append(words, []int64{a.I})
				if n < len(verdicts) && verdicts[n] > 0 {
					return []*Val{{K: VStruct, Ptr: true, Fields: map[string]*Val{"versionNumber": vint(verdicts[n])}}, {K: VNil}}, true
				}
				return []*Val{{K: VNil}, vstr("error")}, true
			case "Version_GetVersionForNumber":
				rpfFail("a symbol of dimension %d takes its version from the dimension", dim)
			}
			return nil, false
		}
		h.env = map[types.Object]*Val{}
		if ro := recvObj(p, fd); ro != nil {
			h.env[ro] = &Val{K: VStruct, Ptr: true, Local: true, Fields: map[string]*Val{
				"mirror":    vbool(mirror),
				"bitMatrix": {K: VStruct, Ptr: true, Fields: map[string]*Val{}},
			}}
		}
		res, err = c.rpfCall(fd, p, nil, h)
		return
	}
	formatCopies := func(dim int64) (w1, w2 []coord) {
		for i := int64(0); i <= 5; i++ {
			w1 = append(w1, coord{i, 8})
		}
		w1 = append(w1, coord{7, 8}, coord{8, 8}, coord{8, 7})
		for j := int64(5); j >= 0; j-- {
			w1 = append(w1, coord{8, j})
		}
		for j := dim - 1; j >= dim-7; j-- {
			w2 = append(w2, coord{8, j})
		}
		for i := dim - 8; i < dim; i++ {
			w2 = append(w2, coord{i, 8})
		}
		return
	}
	versionCopies := func(dim int64) (w1, w2 []coord) {
		for j := int64(5); j >= 0; j-- {
			for i := dim - 9; i >= dim-11; i-- {
				w1 = append(w1, coord{i, j})
			}
		}
		for i := int64(5); i >= 0; i-- {
			for j := dim - 9; j >= dim-11; j-- {
				w2 = append(w2, coord{i, j})
			}
		}
		return
	}
	// positions decides one function on one dimension and orientation: want is the list of words expected per planting
	positions := func(key string, fd *ast.FuncDecl, p *packages.Package, dim int64, mirror bool, w1, w2 []coord, flat func([][]int64) ([]int64, string)) {
		r.Analysed(key)
		n := len(w1)
		type planting struct {
			name string
			dark func(x, y int64) bool
			want []int64
		}
		at := func(cd coord) func(x, y int64) bool {
			return func(x, y int64) bool {
				if mirror {
					x, y = y, x
				}
				return x == cd.i && y == cd.j
			}
		}
		inCopies := map[coord]bool{}
		for _, cd := range append(append([]coord{}, w1...), w2...) {
			inCopies[cd] = true
		}
		pl := []planting{
			{"no dark module", func(x, y int64) bool { return false }, []int64{0, 0}},
			{"every module dark except the two copies", func(x, y int64) bool {
				if mirror {
					x, y = y, x
				}
				return !inCopies[coord{x, y}]
			}, []int64{0, 0}},
		}
		for k := range w1 {
			pl = append(pl, planting{fmt.Sprintf("one dark module at (%d, %d), position %d of copy 1", w1[k].i, w1[k].j, k), at(w1[k]), []int64{1 << uint(n-1-k), 0}})
			pl = append(pl, planting{fmt.Sprintf("one dark module at (%d, %d), position %d of copy 2", w2[k].i, w2[k].j, k), at(w2[k]), []int64{0, 1 << uint(n-1-k)}})
		}
		for _, q := range pl {
			words, _, err := fold(fd, p, dim, mirror, q.dark, nil)
			if err != nil {
				r.Undecided("S-INFOREADW", key, c.pos(fd.Pos()), q.name+": "+err.Error())
				return
			}
			got, why := flat(words)
			if why != "" {
				r.Fail("S-INFOREADW", key, c.pos(fd.Pos()), "violation", q.name+": "+why)
				return
			}
			if got[0] != q.want[0] || got[1] != q.want[1] {
				r.Fail("S-INFOREADW", key, c.pos(fd.Pos()), "violation", fmt.Sprintf("%s: the decoder receives the words %#x (copy 1) and %#x (copy 2), expected %#x and %#x", q.name, got[0], got[1], q.want[0], q.want[1]))
				return
			}
		}
		r.Pass("S-INFOREADW", key, c.pos(fd.Pos()), fmt.Sprintf("%d plantings", len(pl)))
	}
	for _, mirror := range []bool{false, true} {
		for _, dim := range []int64{21, 45, 177} {
			w1, w2 := formatCopies(dim)
			positions(fmt.Sprintf("qrcode/decoder.BitMatrixParser.ReadFormatInformation(d=%d,mirror=%v)", dim, mirror), fdF, pF, dim, mirror, w1, w2, func(words [][]int64) ([]int64, string) {
				if len(words) != 1 || len(words[0]) != 2 {
					return nil, fmt.Sprintf("FormatInformation_DecodeFormatInformation is called %d times, expected once with the two words", len(words))
				}
				return words[0], ""
			})
		}
		for _, dim := range []int64{45, 177} {
			w1, w2 := versionCopies(dim)
			positions(fmt.Sprintf("qrcode/decoder.BitMatrixParser.ReadVersion(d=%d,mirror=%v)", dim, mirror), fdV, pV, dim, mirror, w1, w2, func(words [][]int64) ([]int64, string) {
				if len(words) != 2 || len(words[0]) != 1 || len(words[1]) != 1 {
					return nil, fmt.Sprintf("Version_decodeVersionInformation is called %d times when no copy decodes, expected once per copy", len(words))
				}
				return []int64{words[0][0], words[1][0]}, ""
			})
		}
	}
	// the order of the attempts and the agreement with the dimension (d=45 is version 7)
	w1, w2 := versionCopies(45)
	dark := func(x, y int64) bool { return (x == w1[17].i && y == w1[17].j) || (x == w2[16].i && y == w2[16].j) }
	for _, sc := range []struct {
		name     string
		verdicts []int64
		want     int64 // version returned; 0 = none
		calls    int
	}{
		{"copy 1 decodes to the version of the dimension", []int64{7, 8}, 7, 1},
		{"copy 1 does not decode, copy 2 gives the version of the dimension", []int64{0, 7}, 7, 2},
		{"copy 1 decodes to a version of another dimension, copy 2 to the right one", []int64{8, 7}, 7, 2},
		{"both copies decode to versions of another dimension", []int64{8, 9}, 0, 2},
		{"neither copy decodes", []int64{0, 0}, 0, 2},
	} {
		key := "qrcode/decoder.BitMatrixParser.ReadVersion/" + sc.name
		r.Analysed(key)
		words, res, err := fold(fdV, pV, 45, false, dark, sc.verdicts)
		switch {
		case err != nil:
			r.Undecided("S-INFOREADW", key, c.pos(fdV.Pos()), err.Error())
		case len(res) != 2:
			r.Undecided("S-INFOREADW", key, c.pos(fdV.Pos()), "ReadVersion does not return (version, error)")
		case len(words) != sc.calls || words[0][0] != 1 || (len(words) > 1 && words[1][0] != 2):
			r.Fail("S-INFOREADW", key, c.pos(fdV.Pos()), "violation", fmt.Sprintf("the version decoder is given %v, expected %d call(s): copy 1 (word 1) and then, unless it was accepted, copy 2 (word 2)", words, sc.calls))
		case sc.want == 0 && res[0].K != VNil:
			r.Fail("S-INFOREADW", key, c.pos(fdV.Pos()), "violation", "a version is returned although no copy gave the version of the dimension")
		case sc.want == 0 && sc.verdicts[0] == 0 && res[1].K == VNil:
			r.Fail("S-INFOREADW", key, c.pos(fdV.Pos()), "violation", "no error is returned although neither copy decoded")
		case sc.want != 0 && (res[0].K != VStruct || res[0].Fields["versionNumber"] == nil || res[0].Fields["versionNumber"].I != sc.want || res[1].K != VNil):
			r.Fail("S-INFOREADW", key, c.pos(fdV.Pos()), "violation", fmt.Sprintf("expected version %d and no error, got %s, %s", sc.want, res[0], res[1]))
		default:
			r.Pass("S-INFOREADW", key, c.pos(fdV.Pos()), "")
		}
	}
	r.DecidedBy("T-INFOREAD", "S-INFOREADW", "the words the decoders receive depend on exactly the standard's modules, bit by bit")
	r.DecidedBy("M-BOTHCOPIES", "S-INFOREADW", "both words reach the decoder, copy 2 of the version is tried whenever copy 1 is not accepted, and an accepted version has the symbol's dimension")
}

// namedOf gives the name of the named type t is, or points to ("" otherwise).
func namedOf(t types.Type) string {
	if p, ok := t.(*types.Pointer); ok {
		t = p.Elem()
	}
	if n, ok := t.(*types.Named); ok {
		return n.Obj().Name()
	}
	return ""
}
