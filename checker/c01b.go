package main

import (
	"fmt"
	"go/ast"
	"go/types"

	"golang.org/x/tools/go/packages"
	"golang.org/x/tools/go/types/typeutil"
)

// M-ECLEVEL: the error-correction level read from the format information reaches the reader's result.
func checkECLevelReported(c *Ctx, r *Report) {
	r.Rule("M-ECLEVEL", "the error-correction level a QR symbol was written with is reported by the reader: ErrorCorrectionLevel's bits, letters and ValueOf are mutually inverse on L/M/Q/H (folded); Decoder.decode hands the level of the format information to the bit-stream parser; the parser hands its letter to every DecoderResult it constructs; the DecoderResult constructors store it in the field GetECLevel returns; and QRCodeReader.Decode puts that value under ERROR_CORRECTION_LEVEL into the result before every successful return, under no condition other than the value being non-empty", 5)

	// ---- 1. the level's three representations
	func() {
		key := "qrcode/decoder.ErrorCorrectionLevel representations"
		r.Analysed(key)
		fb, fbp := c.funcDeclOf("qrcode/decoder", "ErrorCorrectionLevel_ForBits")
		gb, gbp := c.funcDeclOf("qrcode/decoder", "ErrorCorrectionLevel.GetBits")
		st, stp := c.funcDeclOf("qrcode/decoder", "ErrorCorrectionLevel.String")
		vo, vop := c.funcDeclOf("qrcode/decoder", "ErrorCorrectionLevel_ValueOf")
		if fb == nil || gb == nil || st == nil || vo == nil {
			r.AnchorLost("M-ECLEVEL", key, "ForBits / GetBits / String / ValueOf not found")
			return
		}
		bad := ""
		seenBits := map[int64]bool{}
		for _, name := range []string{"L", "M", "Q", "H"} {
			lv, ok := constValIn(c, "qrcode/decoder", "ErrorCorrectionLevel_"+name)
			if !ok {
				bad = "?ErrorCorrectionLevel_" + name + " is not a constant"
				break
			}
			hooks := func() *rpf {
				h := &rpf{unroll: 100, maxSteps: 10000, env: map[types.Object]*Val{}}
				h.callHook = func(rr *rpf, call *ast.CallExpr, callee types.Object) (*Val, bool) {
					return errCtorHook(rr, call, callee)
				}
				return h
			}
			h := hooks()
			h.env[recvObj(gbp, gb)] = vint(lv)
			res, err := c.rpfCall(gb, gbp, nil, h)
			if err != nil || len(res) != 1 || !res[0].isInt() {
				bad = fmt.Sprintf("?GetBits of level %s: %v %v", name, res, err)
				break
			}
			bits := res[0].I
			if bits < 0 || bits > 3 || seenBits[bits] {
				bad = fmt.Sprintf("level %s has format bits %d: not a value of its own in 0..3", name, bits)
				break
			}
			seenBits[bits] = true
			res, err = c.rpfCall(fb, fbp, []*Val{vint(bits)}, hooks())
			if err != nil || len(res) != 2 {
				bad = fmt.Sprintf("?ForBits(%d): %v %v", bits, res, err)
				break
			}
			if res[1].K != VNil || !res[0].isInt() || res[0].I != lv {
				bad = fmt.Sprintf("ErrorCorrectionLevel_ForBits(%d) does not give back level %s, whose bits these are", bits, name)
				break
			}
			h = hooks()
			h.env[recvObj(stp, st)] = vint(lv)
			res, err = c.rpfCall(st, stp, nil, h)
			if err != nil || len(res) != 1 || res[0].K != VStr {
				bad = fmt.Sprintf("?String of level %s: %v %v", name, res, err)
				break
			}
			if res[0].S != name {
				bad = fmt.Sprintf("level %s is reported as %q", name, res[0].S)
				break
			}
			res, err = c.rpfCall(vo, vop, []*Val{vstr(name)}, hooks())
			if err != nil || len(res) != 2 {
				bad = fmt.Sprintf("?ValueOf(%q): %v %v", name, res, err)
				break
			}
			if res[1].K != VNil || !res[0].isInt() || res[0].I != lv {
				bad = fmt.Sprintf("ErrorCorrectionLevel_ValueOf(%q) is not level %s", name, name)
				break
			}
		}
		reportFold(r, c, "M-ECLEVEL", key, st.Pos(), bad)
	}()

	// ---- 2. Decoder.decode -> parser
	func() {
		key := "qrcode/decoder.Decoder.decode:level"
		fd, p := c.funcDeclOf("qrcode/decoder", "Decoder.decode")
		if fd == nil {
			r.AnchorLost("M-ECLEVEL", key, "Decoder.decode not found")
			return
		}
		r.Analysed(key)
		calls := findCalls(p, fd.Body, func(o types.Object) bool { return isFuncNamed(o, "qrcode/decoder", "DecodedBitStreamParser_Decode") })
		bad := ""
		if len(calls) == 0 {
			bad = "the bit-stream parser is not called"
		}
		for _, call := range calls {
			if len(call.Args) < 3 {
				bad = "?the parser call has fewer than three arguments"
				break
			}
			src := resolveOnce(p, fd, call.Args[2])
			sc, ok := ast.Unparen(src).(*ast.CallExpr)
			fn, _ := typeutil.Callee(p.TypesInfo, sc).(*types.Func)
			if !ok || fn == nil || fn.Name() != "GetErrorCorrectionLevel" {
				bad = "the level handed to the bit-stream parser is " + exprString(call.Args[2]) + ", not the format information's GetErrorCorrectionLevel()"
				break
			}
			if field, ok := c.trivialGetter(fn); !ok || field != "errorCorrectionLevel" {
				bad = "?FormatInformation.GetErrorCorrectionLevel is not the getter of errorCorrectionLevel"
			}
		}
		reportFold(r, c, "M-ECLEVEL", key, fd.Pos(), bad)
	}()

	// ---- 3. parser -> DecoderResult
	func() {
		key := "qrcode/decoder.DecodedBitStreamParser_Decode:level"
		fd, p := c.funcDeclOf("qrcode/decoder", "DecodedBitStreamParser_Decode")
		if fd == nil {
			r.AnchorLost("M-ECLEVEL", key, "DecodedBitStreamParser_Decode not found")
			return
		}
		r.Analysed(key)
		var lvl types.Object
		for _, o := range paramObjs(p, fd) {
			if n, ok := o.Type().(*types.Named); ok && n.Obj().Name() == "ErrorCorrectionLevel" {
				lvl = o
			}
		}
		bad := ""
		if lvl == nil {
			bad = "?no parameter of type ErrorCorrectionLevel"
		} else if assignedIn(p, fd.Body, lvl) {
			bad = "the level parameter is reassigned"
		}
		n := 0
		if bad == "" {
			for _, call := range findCalls(p, fd.Body, func(o types.Object) bool {
				f, ok := o.(*types.Func)
				return ok && f.Pkg() != nil && pkgMatches(f.Pkg().Path(), "common") && len(f.Name()) >= 16 && f.Name()[:16] == "NewDecoderResult"
			}) {
				n++
				if len(call.Args) < 4 {
					bad = "?DecoderResult constructor with fewer than four arguments"
					break
				}
				sc, ok := ast.Unparen(resolveOnce(p, fd, call.Args[3])).(*ast.CallExpr)
				var fn *types.Func
				if ok {
					fn, _ = typeutil.Callee(p.TypesInfo, sc).(*types.Func)
				}
				sel, _ := func() (*ast.SelectorExpr, bool) {
					if !ok {
						return nil, false
					}
					s, isS := sc.Fun.(*ast.SelectorExpr)
					return s, isS
				}()
				if fn == nil || fn.Name() != "String" || sel == nil || identObj(p, sel.X) != lvl {
					bad = "the level handed to the DecoderResult is " + exprString(call.Args[3]) + ", not the String() of the level parameter"
					break
				}
			}
			if n == 0 && bad == "" {
				bad = "no DecoderResult is constructed"
			}
		}
		reportFold(r, c, "M-ECLEVEL", key, fd.Pos(), bad)
	}()

	// ---- 4. DecoderResult constructors and getter
	func() {
		key := "common.DecoderResult:ecLevel"
		r.Analysed(key)
		bad := ""
		getFd, getP := c.funcDeclOf("common", "DecoderResult.GetECLevel")
		baseFd, baseP := c.funcDeclOf("common", "NewDecoderResultWithParams")
		if getFd == nil || baseFd == nil {
			r.AnchorLost("M-ECLEVEL", key, "GetECLevel / NewDecoderResultWithParams not found")
			return
		}
		get, _ := getP.TypesInfo.Defs[getFd.Name].(*types.Func)
		base, _ := baseP.TypesInfo.Defs[baseFd.Name].(*types.Func)
		field, ok := c.trivialGetter(get)
		if !ok {
			bad = "GetECLevel does not simply return a field"
		}
		if bad == "" {
			m, ok := c.fieldInitCtor(base)
			if pi, has := m[field]; !ok || !has || pi != 3 {
				bad = "NewDecoderResultWithParams does not store its ecLevel parameter in the field GetECLevel returns (" + field + ")"
			}
		}
		for _, w := range []string{"NewDecoderResult", "NewDecoderResultWithSA", "NewDecoderResultWithSymbologyModifier"} {
			if bad != "" {
				break
			}
			fd, p := c.funcDeclOf("common", w)
			if fd == nil {
				continue
			}
			calls := findCalls(p, fd.Body, func(o types.Object) bool { return o == types.Object(base) })
			ps := paramObjs(p, fd)
			if len(calls) != 1 || len(calls[0].Args) < 4 || len(ps) < 4 || identObj(p, calls[0].Args[3]) != ps[3] || assignedIn(p, fd.Body, ps[3]) {
				bad = w + " does not forward its ecLevel parameter to NewDecoderResultWithParams"
			}
		}
		reportFold(r, c, "M-ECLEVEL", key, getFd.Pos(), bad)
	}()

	// ---- 5. reader
	func() {
		key := "qrcode.QRCodeReader.Decode:level"
		fd, p := c.funcDeclOf("qrcode", "QRCodeReader.Decode")
		if fd == nil {
			r.AnchorLost("M-ECLEVEL", key, "QRCodeReader.Decode not found")
			return
		}
		r.Analysed(key)
		bad := checkMetadataPut(c, p, fd, "ResultMetadataType_ERROR_CORRECTION_LEVEL", "GetECLevel")
		reportFold(r, c, "M-ECLEVEL", key, fd.Pos(), bad)
	}()
}

// resolveOnce follows a local variable that is assigned exactly once to its right-hand side.
func resolveOnce(p *packages.Package, fd *ast.FuncDecl, e ast.Expr) ast.Expr {
	for i := 0; i < 4; i++ {
		id, ok := ast.Unparen(e).(*ast.Ident)
		if !ok {
			return e
		}
		o := identObj(p, id)
		if o == nil {
			return e
		}
		d := singleDef(p, fd, o)
		if d == nil {
			return e
		}
		e = d
	}
	return e
}

// checkMetadataPut: in fd a PutMetadata(<key constant>, v) call exists where v is (a variable assigned once from) a
// call of the named getter; the only conditions it stands under are tests of v itself; every successful return of
// the function comes after it. Returns the complaint ("" if none).
func checkMetadataPut(c *Ctx, p *packages.Package, fd *ast.FuncDecl, keyConst, getter string) string {
	var put *ast.CallExpr
	for _, call := range findCalls(p, fd.Body, func(o types.Object) bool { return isMethodNamed(o, "", "Result", "PutMetadata") }) {
		if len(call.Args) != 2 {
			continue
		}
		if sel, ok := ast.Unparen(call.Args[0]).(*ast.SelectorExpr); ok && sel.Sel.Name == keyConst {
			if put != nil {
				return "?more than one PutMetadata(" + keyConst + ")"
			}
			put = call
		} else if id, ok := ast.Unparen(call.Args[0]).(*ast.Ident); ok && id.Name == keyConst {
			put = call
		}
	}
	if put == nil {
		return "no PutMetadata(" + keyConst + ", ...) call: the result does not report it"
	}
	var valObj types.Object
	if id, ok := ast.Unparen(put.Args[1]).(*ast.Ident); ok {
		valObj = identObj(p, id)
	}
	src, ok := ast.Unparen(resolveOnce(p, fd, put.Args[1])).(*ast.CallExpr)
	var fn *types.Func
	if ok {
		fn, _ = typeutil.Callee(p.TypesInfo, src).(*types.Func)
	}
	if fn == nil || fn.Name() != getter {
		return "the value put under " + keyConst + " is " + exprString(put.Args[1]) + ", not the decoder result's " + getter + "()"
	}
	// the receiver is the decoder result whose text the Result carries
	var recv types.Object
	if sel, ok := src.Fun.(*ast.SelectorExpr); ok {
		recv = identObj(p, sel.X)
	}
	textOK := false
	for _, call := range findCalls(p, fd.Body, func(o types.Object) bool { return isFuncNamed(o, "", "NewResult") }) {
		if len(call.Args) > 0 {
			if tc, ok := ast.Unparen(call.Args[0]).(*ast.CallExpr); ok {
				if sel, ok := tc.Fun.(*ast.SelectorExpr); ok && sel.Sel.Name == "GetText" && recv != nil && identObj(p, sel.X) == recv {
					textOK = true
				}
			}
		}
	}
	if !textOK {
		return "the " + getter + "() value is not taken from the decoder result whose text the Result carries"
	}
	stmt := enclosingStmt(fd.Body, put)
	gi, found := guardsOf(fd.Body, stmt)
	if !found {
		return "?the PutMetadata statement was not found on a path from the function body"
	}
	onlyValue := func(cond ast.Expr) bool {
		ok := true
		ast.Inspect(cond, func(n ast.Node) bool {
			switch x := n.(type) {
			case *ast.CallExpr:
				f, _ := typeutil.Callee(p.TypesInfo, x).(*types.Func)
				if f == nil || f.Name() != getter {
					if b, isB := typeutil.Callee(p.TypesInfo, x).(*types.Builtin); !isB || b.Name() != "len" {
						ok = false
					}
				}
			case *ast.Ident:
				o := identObj(p, x)
				switch o.(type) {
				case *types.Var:
					if o != valObj && o != recv {
						ok = false
					}
				}
			}
			return ok
		})
		return ok
	}
	var top ast.Stmt = stmt
	for i := len(gi.Enclosing) - 1; i >= 0; i-- {
		ctx := gi.Enclosing[i]
		ifs, isIf := ctx.Node.(*ast.IfStmt)
		if !isIf {
			return "the PutMetadata(" + keyConst + ") call stands inside a loop or switch"
		}
		if !onlyValue(ifs.Cond) {
			return "the PutMetadata(" + keyConst + ") call stands under the condition " + exprString(ifs.Cond) + ", which is not a test of the value alone: results for which it is false do not report it"
		}
		top = ifs
	}
	// `else` chains: the outermost if must itself be a statement of the body (not an else-branch of another test)
	gi2, _ := guardsOf(fd.Body, top)
	if len(gi2.Enclosing) != 0 {
		return "the test guarding PutMetadata(" + keyConst + ") is itself nested in another statement"
	}
	badRet := ""
	ast.Inspect(fd.Body, func(n ast.Node) bool {
		if rs, ok := n.(*ast.ReturnStmt); ok && len(rs.Results) == 2 {
			if id, ok := ast.Unparen(rs.Results[1]).(*ast.Ident); ok && id.Name == "nil" {
				if !wholeBefore(top, rs) {
					badRet = "a successful return at " + c.pos(rs.Pos()) + " comes before (or inside) the statement that reports " + keyConst
				}
			}
		}
		return true
	})
	return badRet
}
