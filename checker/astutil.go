package main

import (
	"go/ast"
	"go/token"
	"go/types"
	"strings"

	"golang.org/x/tools/go/packages"
	"golang.org/x/tools/go/types/typeutil"
)

// callSite is a call found in a function body, with the chain of enclosing control statements.
type callSite struct {
	Call    *ast.CallExpr
	Callee  types.Object
	Conds   []condCtx // innermost last
	InLoop  int       // nesting depth of for/range statements
	Ordinal int       // ordinal among calls to the same callee in this function (source order)
	Stmt    ast.Stmt  // the statement containing the call
}

type condCtx struct {
	Node   ast.Node // *ast.IfStmt, *ast.CaseClause, *ast.ForStmt, *ast.RangeStmt
	Branch bool     // for IfStmt: true = then-branch, false = else-branch
}

// walkCalls visits every call expression in body in source order.
func walkCalls(p *packages.Package, body ast.Node, visit func(cs *callSite)) {
	ord := map[types.Object]int{}
	var conds []condCtx
	loop := 0
	var curStmt ast.Stmt
	var walk func(n ast.Node)
	walkList := func(l []ast.Stmt) {
		for _, s := range l {
			walk(s)
		}
	}
	walk = func(n ast.Node) {
		if n == nil {
			return
		}
		switch x := n.(type) {
		case *ast.IfStmt:
			if x.Init != nil {
				walk(x.Init)
			}
			saved := curStmt
			curStmt = x
			walkExpr(p, x.Cond, &ord, conds, loop, curStmt, visit)
			curStmt = saved
			conds = append(conds, condCtx{x, true})
			walkList(x.Body.List)
			conds = conds[:len(conds)-1]
			if x.Else != nil {
				conds = append(conds, condCtx{x, false})
				walk(x.Else)
				conds = conds[:len(conds)-1]
			}
			return
		case *ast.BlockStmt:
			walkList(x.List)
			return
		case *ast.ForStmt:
			if x.Init != nil {
				walk(x.Init)
			}
			conds = append(conds, condCtx{x, true})
			loop++
			if x.Cond != nil {
				walkExpr(p, x.Cond, &ord, conds, loop, x, visit)
			}
			walkList(x.Body.List)
			if x.Post != nil {
				walk(x.Post)
			}
			loop--
			conds = conds[:len(conds)-1]
			return
		case *ast.RangeStmt:
			walkExpr(p, x.X, &ord, conds, loop, x, visit)
			conds = append(conds, condCtx{x, true})
			loop++
			walkList(x.Body.List)
			loop--
			conds = conds[:len(conds)-1]
			return
		case *ast.SwitchStmt:
			if x.Init != nil {
				walk(x.Init)
			}
			if x.Tag != nil {
				walkExpr(p, x.Tag, &ord, conds, loop, x, visit)
			}
			for _, cl := range x.Body.List {
				cc := cl.(*ast.CaseClause)
				for _, e := range cc.List {
					walkExpr(p, e, &ord, conds, loop, x, visit)
				}
				conds = append(conds, condCtx{cc, true})
				walkList(cc.Body)
				conds = conds[:len(conds)-1]
			}
			return
		case *ast.TypeSwitchStmt:
			if x.Init != nil {
				walk(x.Init)
			}
			walk(x.Assign)
			for _, cl := range x.Body.List {
				cc := cl.(*ast.CaseClause)
				conds = append(conds, condCtx{cc, true})
				walkList(cc.Body)
				conds = conds[:len(conds)-1]
			}
			return
		case *ast.LabeledStmt:
			walk(x.Stmt)
			return
		case ast.Stmt:
			saved := curStmt
			curStmt = x
			ast.Inspect(x, func(m ast.Node) bool {
				if fl, ok := m.(*ast.FuncLit); ok {
					_ = fl
					return false
				}
				if e, ok := m.(ast.Expr); ok {
					walkExpr(p, e, &ord, conds, loop, curStmt, visit)
					return false
				}
				return true
			})
			curStmt = saved
			return
		}
	}
	switch b := body.(type) {
	case *ast.BlockStmt:
		walkList(b.List)
	default:
		walk(body)
	}
}

func walkExpr(p *packages.Package, e ast.Expr, ord *map[types.Object]int, conds []condCtx, loop int, stmt ast.Stmt, visit func(cs *callSite)) {
	// post-order would match evaluation order; source order (pre-order by position) is what ordinals use
	var calls []*ast.CallExpr
	ast.Inspect(e, func(m ast.Node) bool {
		if _, ok := m.(*ast.FuncLit); ok {
			return false
		}
		if c, ok := m.(*ast.CallExpr); ok {
			calls = append(calls, c)
		}
		return true
	})
	for _, c := range calls {
		callee := typeutil.Callee(p.TypesInfo, c)
		cs := &callSite{Call: c, Callee: callee, Conds: append([]condCtx(nil), conds...), InLoop: loop, Stmt: stmt}
		if callee != nil {
			cs.Ordinal = (*ord)[callee]
			(*ord)[callee]++
		}
		visit(cs)
	}
}

// calleeName gives "pkgrel.Func" or "pkgrel.(Type).Method" for repository callees, full path otherwise.
func calleeName(o types.Object) string {
	if o == nil {
		return ""
	}
	return shortObj(o)
}

// isMethodNamed reports whether o is a method called name on a (pointer to a) named type tname in a package
// whose path ends with pkgSuffix.
func isMethodNamed(o types.Object, pkgSuffix, tname, name string) bool {
	f, ok := o.(*types.Func)
	if !ok || f.Name() != name {
		return false
	}
	sig := f.Type().(*types.Signature)
	if sig.Recv() == nil {
		return false
	}
	t := sig.Recv().Type()
	if pt, ok := t.(*types.Pointer); ok {
		t = pt.Elem()
	}
	n, ok := t.(*types.Named)
	if !ok {
		return false
	}
	if tname != "" && n.Obj().Name() != tname {
		return false
	}
	if n.Obj().Pkg() == nil {
		return false
	}
	return pkgMatches(n.Obj().Pkg().Path(), pkgSuffix)
}

func pkgMatches(path, rel string) bool {
	want := modPath
	if rel != "" {
		want += "/" + rel
	}
	return path == want
}

func isFuncNamed(o types.Object, rel, name string) bool {
	f, ok := o.(*types.Func)
	if !ok || f.Name() != name || f.Pkg() == nil {
		return false
	}
	if f.Type().(*types.Signature).Recv() != nil {
		return false
	}
	return pkgMatches(f.Pkg().Path(), rel)
}

// trivialGetter: method whose body is exactly `return recv.field` (or `return int(recv)` etc. is not a getter).
func (c *Ctx) trivialGetter(fn *types.Func) (field string, ok bool) {
	fd := c.funcDecl[fn]
	if fd == nil || fd.Recv == nil || fd.Body == nil || len(fd.Body.List) != 1 {
		return "", false
	}
	rs, ok := fd.Body.List[0].(*ast.ReturnStmt)
	if !ok || len(rs.Results) != 1 {
		return "", false
	}
	sel, ok := rs.Results[0].(*ast.SelectorExpr)
	if !ok {
		return "", false
	}
	id, ok := sel.X.(*ast.Ident)
	if !ok || len(fd.Recv.List) != 1 || len(fd.Recv.List[0].Names) != 1 || fd.Recv.List[0].Names[0].Name != id.Name {
		return "", false
	}
	return sel.Sel.Name, true
}

// fieldInitCtor: a function whose body is a single `return &T{p1, p2, ...}` or `return T{...}` / keyed
// literal whose elements are parameters. Returns field name -> parameter index.
func (c *Ctx) fieldInitCtor(fn *types.Func) (map[string]int, bool) {
	fd := c.funcDecl[fn]
	if fd == nil || fd.Body == nil || len(fd.Body.List) == 0 {
		return nil, false
	}
	p := c.declPkg[fd]
	rs, ok := fd.Body.List[len(fd.Body.List)-1].(*ast.ReturnStmt)
	if !ok || len(rs.Results) < 1 {
		return nil, false
	}
	e := rs.Results[0]
	if u, ok := e.(*ast.UnaryExpr); ok && u.Op == token.AND {
		e = u.X
	}
	cl, ok := e.(*ast.CompositeLit)
	if !ok {
		return nil, false
	}
	t := p.TypesInfo.TypeOf(cl)
	st, ok := t.Underlying().(*types.Struct)
	if !ok {
		return nil, false
	}
	params := map[types.Object]int{}
	i := 0
	for _, f := range fd.Type.Params.List {
		for _, n := range f.Names {
			params[p.TypesInfo.Defs[n]] = i
			i++
		}
	}
	out := map[string]int{}
	for k, el := range cl.Elts {
		name := ""
		val := el
		if kv, ok := el.(*ast.KeyValueExpr); ok {
			name = kv.Key.(*ast.Ident).Name
			val = kv.Value
		} else if k < st.NumFields() {
			name = st.Field(k).Name()
		}
		if id, ok := val.(*ast.Ident); ok {
			if pi, ok := params[p.TypesInfo.Uses[id]]; ok {
				// the parameter must not be reassigned in the body
				if !assignedIn(p, fd.Body, p.TypesInfo.Uses[id]) {
					out[name] = pi
				}
			}
		}
	}
	return out, true
}

func assignedIn(p *packages.Package, body ast.Node, obj types.Object) bool {
	found := false
	ast.Inspect(body, func(n ast.Node) bool {
		switch x := n.(type) {
		case *ast.AssignStmt:
			for _, l := range x.Lhs {
				if id, ok := l.(*ast.Ident); ok && (p.TypesInfo.Uses[id] == obj || p.TypesInfo.Defs[id] == obj) && x.Tok != token.DEFINE {
					found = true
				}
			}
		case *ast.IncDecStmt:
			if id, ok := x.X.(*ast.Ident); ok && p.TypesInfo.Uses[id] == obj {
				found = true
			}
		case *ast.UnaryExpr:
			if x.Op == token.AND {
				if id, ok := x.X.(*ast.Ident); ok && p.TypesInfo.Uses[id] == obj {
					found = true
				}
			}
		}
		return true
	})
	return found
}

// exprString renders an expression compactly (for messages only, never for matching).
func exprString(e ast.Expr) string {
	return types.ExprString(e)
}

func recvName(fd *ast.FuncDecl) string {
	if fd.Recv == nil || len(fd.Recv.List) == 0 || len(fd.Recv.List[0].Names) == 0 {
		return ""
	}
	return fd.Recv.List[0].Names[0].Name
}

func recvObj(p *packages.Package, fd *ast.FuncDecl) types.Object {
	if fd.Recv == nil || len(fd.Recv.List) == 0 || len(fd.Recv.List[0].Names) == 0 {
		return nil
	}
	return p.TypesInfo.Defs[fd.Recv.List[0].Names[0]]
}

func paramObjs(p *packages.Package, fd *ast.FuncDecl) []types.Object {
	var out []types.Object
	for _, f := range fd.Type.Params.List {
		for _, n := range f.Names {
			out = append(out, p.TypesInfo.Defs[n])
		}
	}
	return out
}

func fdKey(p *packages.Package, fd *ast.FuncDecl) string {
	rel := strings.TrimPrefix(strings.TrimPrefix(p.PkgPath, modPath), "/")
	if rel == "" {
		rel = "gozxing"
	}
	if fd.Recv != nil && len(fd.Recv.List) > 0 {
		t := fd.Recv.List[0].Type
		if st, ok := t.(*ast.StarExpr); ok {
			t = st.X
		}
		if id, ok := t.(*ast.Ident); ok {
			return rel + "." + id.Name + "." + fd.Name.Name
		}
	}
	return rel + "." + fd.Name.Name
}

// guardInfo describes what must have been false / true for control to reach a node.
type guardInfo struct {
	EarlyExits []*ast.IfStmt // preceding sibling `if c { ...; return/continue/break }` statements (c was false)
	Enclosing  []condCtx     // enclosing if/else/case/loop contexts (innermost last)
	Preceding  []ast.Stmt    // all statements that precede the node on the straight-line path to it (outermost first)
}

// guardsOf computes the guards on the syntactic path from the function body to target.
func guardsOf(body *ast.BlockStmt, target ast.Node) (gi guardInfo, found bool) {
	var walkList func(list []ast.Stmt) bool
	var walkStmt func(s ast.Stmt) bool
	contains := func(n ast.Node) bool {
		return n != nil && containsNode(n, target)
	}
	walkList = func(list []ast.Stmt) bool {
		for i, s := range list {
			if !contains(s) {
				continue
			}
			for _, prev := range list[:i] {
				gi.Preceding = append(gi.Preceding, prev)
				if ifs, ok := prev.(*ast.IfStmt); ok && terminates(ifs.Body.List) {
					gi.EarlyExits = append(gi.EarlyExits, ifs)
				}
			}
			return walkStmt(s)
		}
		return false
	}
	walkStmt = func(s ast.Stmt) bool {
		if s == target {
			return true
		}
		switch x := s.(type) {
		case *ast.BlockStmt:
			return walkList(x.List)
		case *ast.IfStmt:
			if x.Init != nil && contains(x.Init) {
				return true
			}
			if contains(x.Cond) {
				return true
			}
			if contains(x.Body) {
				gi.Enclosing = append(gi.Enclosing, condCtx{x, true})
				return walkList(x.Body.List)
			}
			if x.Else != nil && contains(x.Else) {
				gi.Enclosing = append(gi.Enclosing, condCtx{x, false})
				return walkStmt(x.Else)
			}
		case *ast.ForStmt:
			if contains(x.Body) {
				gi.Enclosing = append(gi.Enclosing, condCtx{x, true})
				return walkList(x.Body.List)
			}
			return true
		case *ast.RangeStmt:
			if contains(x.Body) {
				gi.Enclosing = append(gi.Enclosing, condCtx{x, true})
				return walkList(x.Body.List)
			}
			return true
		case *ast.SwitchStmt:
			for _, cl := range x.Body.List {
				cc := cl.(*ast.CaseClause)
				if contains(cc) {
					gi.Enclosing = append(gi.Enclosing, condCtx{cc, true})
					return walkList(cc.Body)
				}
			}
			return true
		case *ast.TypeSwitchStmt:
			for _, cl := range x.Body.List {
				cc := cl.(*ast.CaseClause)
				if contains(cc) {
					gi.Enclosing = append(gi.Enclosing, condCtx{cc, true})
					return walkList(cc.Body)
				}
			}
			return true
		case *ast.LabeledStmt:
			return walkStmt(x.Stmt)
		default:
			return contains(s)
		}
		return false
	}
	found = walkList(body.List)
	return
}

// findCalls lists calls in body whose callee satisfies pred, in source order.
func findCalls(p *packages.Package, body ast.Node, pred func(types.Object) bool) []*ast.CallExpr {
	var out []*ast.CallExpr
	ast.Inspect(body, func(n ast.Node) bool {
		if call, ok := n.(*ast.CallExpr); ok {
			if pred(typeutil.Callee(p.TypesInfo, call)) {
				out = append(out, call)
			}
		}
		return true
	})
	return out
}

// enclosingStmt finds the innermost statement of body that contains n.
func enclosingStmt(body *ast.BlockStmt, n ast.Node) ast.Stmt {
	// by structure, not by position: the loader reorders the operands of comparisons in place, so Pos()/End() of
	// an expression no longer bracket its parts
	var best ast.Stmt
	var stack []ast.Node
	done := false
	ast.Inspect(body, func(m ast.Node) bool {
		if done {
			return false
		}
		if m == nil {
			stack = stack[:len(stack)-1]
			return false
		}
		stack = append(stack, m)
		if m == n {
			for i := len(stack) - 1; i >= 0 && best == nil; i-- {
				if s, ok := stack[i].(ast.Stmt); ok {
					if _, isBlock := s.(*ast.BlockStmt); !isBlock {
						best = s
					}
				}
			}
			done = true
			return false
		}
		return true
	})
	return best
}

// containsNode: is inner a node of the tree rooted at outer (structural, see enclosingStmt)?
func containsNode(outer, inner ast.Node) bool {
	if outer == nil || inner == nil {
		return false
	}
	found := false
	ast.Inspect(outer, func(m ast.Node) bool {
		if m == inner {
			found = true
		}
		return !found
	})
	return found
}

// wholeBefore: statement a lies entirely before node b (it starts before b and does not contain it).
func wholeBefore(a, b ast.Node) bool {
	return a.Pos() < b.Pos() && !containsNode(a, b)
}

// usesIdent: does the node mention the object?
func usesIdent(p *packages.Package, n ast.Node, obj types.Object) bool {
	found := false
	if n == nil || obj == nil {
		return false
	}
	ast.Inspect(n, func(m ast.Node) bool {
		if id, ok := m.(*ast.Ident); ok && (p.TypesInfo.Uses[id] == obj || p.TypesInfo.Defs[id] == obj) {
			found = true
		}
		return true
	})
	return found
}
