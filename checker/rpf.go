package main

import (
	"fmt"
	"go/ast"
	"go/token"
	"go/types"
	"math/bits"
	"sort"
	"strconv"
	"strings"
	"unicode"

	"golang.org/x/tools/go/packages"
	"golang.org/x/tools/go/types/typeutil"
)

// Restricted pure folding (RPF): exhaustive constant folding of closed, loop-free integer/boolean
// terms and decision ladders over parameters with a finite declared domain. The fragment:
//   expressions: constants, parameters/locals, + - * / % & | ^ << >> &^, comparisons, && || !,
//                numeric conversions, indexing of literal tables, calls through an explicit hook
//   statements:  := = op= ++ --, var, if/else, switch (tag and tagless, no fallthrough), return,
//                break inside switch, blocks
// Loops, goto, defer, go, closures, stores through pointers, any call without a hook: the term leaves the
// fragment and the result is "undecided" (an error), never interpreted.

type rpfErr struct{ msg string }

func (e *rpfErr) Error() string { return e.msg }

func rpfFail(format string, a ...interface{}) { panic(&rpfErr{fmt.Sprintf(format, a...)}) }

type rpf struct {
	c           *Ctx
	p           *packages.Package
	env         map[types.Object]*Val
	callHook    func(r *rpf, call *ast.CallExpr, callee types.Object) (*Val, bool)
	selHook     func(r *rpf, sel *ast.SelectorExpr) (*Val, bool)
	idxHook     func(r *rpf, ix *ast.IndexExpr) (*Val, bool)
	stHook      func(r *rpf, lhs ast.Expr, v *Val) bool // store through an index/selector expression, recorded as an effect
	steps       int
	inTableLoop int
	multiHook   func(call *ast.CallExpr, callee types.Object) ([]*Val, bool)
	maxSteps    int // step budget of one fold (default 100000)
	assertHook  func(r *rpf, ta *ast.TypeAssertExpr, v *Val) (holds, claimed bool)
	curFn       *ast.FuncDecl // the function being folded (bare returns)
	effectCalls bool          // statement-level calls of repository functions are folded for their effect on fold-local storage
	deferred    []func()      // deferred calls of module functions (effectCalls folds), run when the folded function returns
	writeBack   bool          // after the fold, the values of the variables the caller put into env are copied back into the caller's env (modelled package variables that the function assigns)
	unroll      int           // > 0: plain `for` loops over scalar state are unrolled up to this many iterations (constant propagation with bounded unrolling); 0: such loops are outside the fragment
}

func vint(i int64) *Val  { return &Val{K: VInt, I: i} }
func vbool(b bool) *Val  { return &Val{K: VBool, B: b} }
func vstr(s string) *Val { return &Val{K: VStr, S: s} }

type rpfReturn struct{ vals []*Val }
type rpfBreak struct{}

// callFunc folds a function body on the given arguments. Returns the results.
// rpfDepth counts nested folds of module functions: a callee that calls itself without end (a fold of a mutated
// recursion) must end as a fold failure, not by exhausting the checker's memory.
var rpfDepth int

func (c *Ctx) rpfCall(fd *ast.FuncDecl, p *packages.Package, args []*Val, hooks *rpf) (res []*Val, err error) {
	rpfDepth++
	defer func() { rpfDepth-- }()
	if rpfDepth > 400 {
		return nil, &rpfErr{msg: fmt.Sprintf("%s: calls nested more than 400 deep while folding %s: unbounded recursion", c.pos(fd.Pos()), fd.Name.Name)}
	}
	r := &rpf{c: c, p: p, env: map[types.Object]*Val{}, curFn: fd}
	if hooks != nil {
		r.callHook = hooks.callHook
		r.selHook = hooks.selHook
		r.idxHook = hooks.idxHook
		r.stHook = hooks.stHook
		r.multiHook = hooks.multiHook
		r.unroll = hooks.unroll
		if r.unroll == 0 {
			r.unroll = 4096 // plain loops over scalar state are unrolled by default; the step budget bounds the fold
		}
		r.effectCalls = hooks.effectCalls
		r.assertHook = hooks.assertHook
		r.maxSteps = hooks.maxSteps
	}
	if r.unroll == 0 {
		r.unroll = 4096
	}
	r.effectCalls = true // statement-level calls of module functions are folded for their effect on fold-local storage
	defer func() {
		if x := recover(); x != nil {
			if re, ok := x.(*rpfErr); ok {
				err = re
				return
			}
			panic(x)
		}
	}()
	if hooks != nil {
		for k, v := range hooks.env {
			r.env[k] = v
		}
		if hooks.writeBack {
			defer func() {
				for k := range hooks.env {
					hooks.env[k] = r.env[k]
				}
			}()
		}
	}
	i := 0
	if fd.Recv != nil {
		for _, f := range fd.Recv.List {
			for _, n := range f.Names {
				if hooks != nil && hooks.env != nil {
					if v, ok := hooks.env[p.TypesInfo.Defs[n]]; ok {
						r.env[p.TypesInfo.Defs[n]] = v
					}
				}
				// a receiver the caller did not model: an opaque object (its fields are unknown; calls on it are
				// folded with the same object, so helper methods extracted from a method still fold)
				if _, bound := r.env[p.TypesInfo.Defs[n]]; !bound && n.Name != "_" {
					r.env[p.TypesInfo.Defs[n]] = &Val{K: VStruct, Ptr: true, Fields: map[string]*Val{}}
				}
			}
		}
	}
	for _, f := range fd.Type.Params.List {
		for _, n := range f.Names {
			if i >= len(args) {
				rpfFail("too few arguments")
			}
			r.env[p.TypesInfo.Defs[n]] = args[i]
			i++
		}
	}
	if fd.Type.Results != nil {
		for _, f := range fd.Type.Results.List {
			for _, n := range f.Names {
				r.env[p.TypesInfo.Defs[n]] = zeroOf(p.TypesInfo.Defs[n].Type())
			}
		}
	}
	ret := r.block(fd.Body.List)
	for i := len(r.deferred) - 1; i >= 0; i-- {
		r.deferred[i]()
	}
	if ret == nil {
		// fell off the end: named results
		var out []*Val
		if fd.Type.Results != nil {
			for _, f := range fd.Type.Results.List {
				for _, n := range f.Names {
					out = append(out, r.env[p.TypesInfo.Defs[n]])
				}
			}
		}
		return out, nil
	}
	return ret.vals, nil
}

// tryExpr folds e, turning a fold failure into an error value.
func (r *rpf) tryExpr(e ast.Expr) (v *Val, err error) {
	defer func() {
		if x := recover(); x != nil {
			if re, ok := x.(*rpfErr); ok {
				err = re
				return
			}
			panic(x)
		}
	}()
	return r.expr(e), nil
}

// rpfExpr folds one expression under an environment.
func (c *Ctx) rpfExpr(p *packages.Package, e ast.Expr, env map[types.Object]*Val, hooks *rpf) (v *Val, err error) {
	r := &rpf{c: c, p: p, env: env}
	if hooks != nil {
		r.callHook = hooks.callHook
		r.selHook = hooks.selHook
		r.idxHook = hooks.idxHook
		r.stHook = hooks.stHook
	}
	defer func() {
		if x := recover(); x != nil {
			if re, ok := x.(*rpfErr); ok {
				err = re
				return
			}
			panic(x)
		}
	}()
	return r.expr(e), nil
}

func zeroOf(t types.Type) *Val {
	switch u := t.Underlying().(type) {
	case *types.Array:
		// the zero array: storage of its own, every element zero
		if u.Len() <= 4096 {
			v := &Val{K: VList, T: t, Local: true}
			for i := int64(0); i < u.Len(); i++ {
				v.L = append(v.L, zeroOf(u.Elem()))
			}
			return v
		}
	case *types.Basic:
		if u.Info()&types.IsBoolean != 0 {
			return vbool(false)
		}
		if u.Info()&types.IsString != 0 {
			return vstr("")
		}
		if u.Info()&types.IsInteger != 0 {
			return &Val{K: VInt, T: t}
		}
	}
	return &Val{K: VNil, T: t}
}

func (r *rpf) block(stmts []ast.Stmt) *rpfReturn {
	for _, s := range stmts {
		if ret := r.stmt(s); ret != nil {
			return ret
		}
	}
	return nil
}

func (r *rpf) tick(n ast.Node) {
	r.steps++
	limit := 100000
	if r.maxSteps > 0 {
		limit = r.maxSteps
	}
	if r.steps > limit {
		rpfFail("%s: step budget exceeded", r.c.pos(n.Pos()))
	}
}

func (r *rpf) stmt(s ast.Stmt) *rpfReturn {
	r.tick(s)
	info := r.p.TypesInfo
	switch x := s.(type) {
	case *ast.EmptyStmt:
		return nil
	case *ast.BlockStmt:
		return r.block(x.List)
	case *ast.ReturnStmt:
		var out []*Val
		if len(x.Results) == 1 {
			if call, ok := x.Results[0].(*ast.CallExpr); ok {
				if _, isTuple := info.TypeOf(call).(*types.Tuple); isTuple {
					return &rpfReturn{r.callMulti(call)}
				}
			}
		}
		for _, e := range x.Results {
			out = append(out, r.expr(e))
		}
		if len(x.Results) == 0 && r.curFn != nil {
			if r.curFn.Type.Results == nil || r.curFn.Type.Results.NumFields() == 0 {
				return &rpfReturn{}
			}
			// named results: their current values
			var vals []*Val
			named := true
			for _, f := range r.curFn.Type.Results.List {
				if len(f.Names) == 0 {
					named = false
				}
				for _, n := range f.Names {
					v, ok := r.env[info.Defs[n]]
					if !ok {
						v = zeroOf(info.TypeOf(f.Type))
					}
					vals = append(vals, v)
				}
			}
			if named {
				return &rpfReturn{vals}
			}
		}
		if len(x.Results) == 0 {
			rpfFail("%s: bare return", r.c.pos(x.Pos()))
		}
		return &rpfReturn{out}
	case *ast.DeclStmt:
		gd, ok := x.Decl.(*ast.GenDecl)
		if !ok || gd.Tok != token.VAR {
			if ok && (gd.Tok == token.CONST || gd.Tok == token.TYPE) {
				return nil // constants are folded by the type checker; a local type declares no value
			}
			rpfFail("%s: unsupported declaration", r.c.pos(x.Pos()))
		}
		for _, sp := range gd.Specs {
			vs := sp.(*ast.ValueSpec)
			for i, n := range vs.Names {
				obj := info.Defs[n]
				if i < len(vs.Values) {
					r.env[obj] = r.expr(vs.Values[i])
				} else {
					r.env[obj] = zeroOf(obj.Type())
				}
			}
		}
		return nil
	case *ast.AssignStmt:
		if len(x.Lhs) != len(x.Rhs) {
			// multi-value call
			if len(x.Rhs) == 1 {
				if call, ok := x.Rhs[0].(*ast.CallExpr); ok {
					vals := r.callMulti(call)
					if len(vals) != len(x.Lhs) {
						rpfFail("%s: arity", r.c.pos(x.Pos()))
					}
					for i, l := range x.Lhs {
						r.assign(l, vals[i], x.Tok == token.DEFINE)
					}
					return nil
				}
			}
			// v, ok := x.(T): decided by the caller's hook (error values are symbolic in the fragment)
			if len(x.Rhs) == 1 && len(x.Lhs) == 2 && r.assertHook != nil {
				if ta, ok := ast.Unparen(x.Rhs[0]).(*ast.TypeAssertExpr); ok && ta.Type != nil {
					v := r.expr(ta.X)
					if holds, claimed := r.assertHook(r, ta, v); claimed {
						if holds {
							r.assign(x.Lhs[0], v, x.Tok == token.DEFINE)
						} else {
							r.assign(x.Lhs[0], zeroOf(info.TypeOf(ta.Type)), x.Tok == token.DEFINE)
						}
						r.assign(x.Lhs[1], vbool(holds), x.Tok == token.DEFINE)
						return nil
					}
				}
			}
			// v, ok := m[k] on a map value modelled as a struct of its entries (keys folded to constants)
			if len(x.Rhs) == 1 && len(x.Lhs) == 2 {
				if ix, ok := ast.Unparen(x.Rhs[0]).(*ast.IndexExpr); ok {
					if _, isMap := info.TypeOf(ix.X).Underlying().(*types.Map); isMap {
						if m := r.expr(ix.X); m.K == VStruct && m.Fields != nil {
							k := r.expr(ix.Index)
							if k.K == VInt || k.K == VStr {
								ks := k.S
								if k.K == VInt {
									ks = fmt.Sprint(k.I)
								}
								if e, has := m.Fields[ks]; has {
									r.assign(x.Lhs[0], e, x.Tok == token.DEFINE)
									r.assign(x.Lhs[1], vbool(true), x.Tok == token.DEFINE)
								} else {
									r.assign(x.Lhs[0], zeroOf(info.TypeOf(ix)), x.Tok == token.DEFINE)
									r.assign(x.Lhs[1], vbool(false), x.Tok == token.DEFINE)
								}
								return nil
							}
						}
					}
				}
			}
			// v, ok := m[k] on a map literal
			if len(x.Rhs) == 1 && len(x.Lhs) == 2 {
				if ix, ok := ast.Unparen(x.Rhs[0]).(*ast.IndexExpr); ok {
					if _, isMap := info.TypeOf(ix.X).Underlying().(*types.Map); isMap {
						if m := r.expr(ix.X); m.K == VList && m.MapKeys != nil {
							k := r.expr(ix.Index)
							if k.K == VInt || k.K == VStr {
								for i, mk := range m.MapKeys {
									if mk.K != k.K {
										rpfFail("%s: map literal with keys outside the pure fragment", r.c.pos(x.Pos()))
									}
									if (k.K == VInt && mk.I == k.I) || (k.K == VStr && mk.S == k.S) {
										r.assign(x.Lhs[0], m.L[i], x.Tok == token.DEFINE)
										r.assign(x.Lhs[1], vbool(true), x.Tok == token.DEFINE)
										return nil
									}
								}
								r.assign(x.Lhs[0], zeroOf(info.TypeOf(ix)), x.Tok == token.DEFINE)
								r.assign(x.Lhs[1], vbool(false), x.Tok == token.DEFINE)
								return nil
							}
						}
					}
				}
			}
			// v, ok := m[k] on a nil map: the zero value and false
			if len(x.Rhs) == 1 && len(x.Lhs) == 2 {
				if ix, ok := ast.Unparen(x.Rhs[0]).(*ast.IndexExpr); ok {
					if _, isMap := info.TypeOf(ix.X).Underlying().(*types.Map); isMap {
						if m := r.expr(ix.X); m.K == VNil {
							r.assign(x.Lhs[0], zeroOf(info.TypeOf(ix)), x.Tok == token.DEFINE)
							r.assign(x.Lhs[1], vbool(false), x.Tok == token.DEFINE)
							return nil
						}
					}
				}
			}
			rpfFail("%s: unsupported multi-assignment", r.c.pos(x.Pos()))
		}
		vals := make([]*Val, len(x.Rhs))
		for i, e := range x.Rhs {
			if x.Tok == token.ASSIGN || x.Tok == token.DEFINE {
				vals[i] = r.expr(e)
			} else {
				op := assignOp(x.Tok)
				vals[i] = r.binop(op, r.expr(x.Lhs[i]), r.expr(e), info.TypeOf(x.Lhs[i]), x.Pos())
			}
		}
		for i, l := range x.Lhs {
			r.assign(l, vals[i], x.Tok == token.DEFINE)
		}
		return nil
	case *ast.IncDecStmt:
		op := token.ADD
		if x.Tok == token.DEC {
			op = token.SUB
		}
		r.assign(x.X, r.binop(op, r.expr(x.X), vint(1), info.TypeOf(x.X), x.Pos()), false)
		return nil
	case *ast.IfStmt:
		if x.Init != nil {
			if ret := r.stmt(x.Init); ret != nil {
				return ret
			}
		}
		cond := r.expr(x.Cond)
		if cond.K != VBool {
			rpfFail("%s: condition not decidable", r.c.pos(x.Cond.Pos()))
		}
		if cond.B {
			return r.block(x.Body.List)
		}
		if x.Else != nil {
			return r.stmt(x.Else)
		}
		return nil
	case *ast.SwitchStmt:
		if x.Init != nil {
			if ret := r.stmt(x.Init); ret != nil {
				return ret
			}
		}
		var tag *Val
		if x.Tag != nil {
			tag = r.expr(x.Tag)
		}
		var deflt *ast.CaseClause
		run := func(cc *ast.CaseClause) (ret *rpfReturn) {
			defer func() {
				if y := recover(); y != nil {
					if _, ok := y.(rpfBreak); ok {
						ret = nil
						return
					}
					panic(y)
				}
			}()
			for _, st := range cc.Body {
				if bs, ok := st.(*ast.BranchStmt); ok {
					if bs.Tok == token.BREAK && bs.Label == nil {
						return nil
					}
					rpfFail("%s: unsupported branch statement", r.c.pos(bs.Pos()))
				}
				if ret := r.stmt(st); ret != nil {
					return ret
				}
			}
			return nil
		}
		for _, cl := range x.Body.List {
			cc := cl.(*ast.CaseClause)
			if cc.List == nil {
				deflt = cc
				continue
			}
			for _, e := range cc.List {
				v := r.expr(e)
				match := false
				if tag != nil {
					match = valEq(tag, v)
				} else {
					if v.K != VBool {
						rpfFail("%s: case not decidable", r.c.pos(e.Pos()))
					}
					match = v.B
				}
				if match {
					return run(cc)
				}
			}
		}
		if deflt != nil {
			return run(deflt)
		}
		return nil
	case *ast.TypeSwitchStmt:
		if x.Init != nil {
			if ret := r.stmt(x.Init); ret != nil {
				return ret
			}
		}
		// switch v := e.(type) / switch e.(type)
		var ta *ast.TypeAssertExpr
		switch a := x.Assign.(type) {
		case *ast.AssignStmt:
			if len(a.Rhs) == 1 {
				ta, _ = ast.Unparen(a.Rhs[0]).(*ast.TypeAssertExpr)
			}
		case *ast.ExprStmt:
			ta, _ = ast.Unparen(a.X).(*ast.TypeAssertExpr)
		}
		if ta == nil {
			rpfFail("%s: type switch outside the pure fragment", r.c.pos(x.Pos()))
		}
		v := r.expr(ta.X)
		hasType := func(te ast.Expr) bool {
			if id, ok := ast.Unparen(te).(*ast.Ident); ok && id.Name == "nil" {
				return v.K == VNil
			}
			if r.assertHook != nil {
				if holds, claimed := r.assertHook(r, &ast.TypeAssertExpr{X: ta.X, Type: te}, v); claimed {
					return holds
				}
			}
			if b, ok := r.p.TypesInfo.TypeOf(te).(*types.Basic); ok {
				switch {
				case b.Info()&types.IsInteger != 0:
					return v.K == VInt && (v.T == nil || types.Identical(v.T, b) || (b.Kind() == types.Int && v.T == nil))
				case b.Info()&types.IsString != 0:
					return v.K == VStr
				case b.Info()&types.IsBoolean != 0:
					return v.K == VBool
				case b.Info()&types.IsFloat != 0:
					return v.K == VFloat
				}
			}
			rpfFail("%s: case type not decidable", r.c.pos(te.Pos()))
			return false
		}
		runT := func(cc *ast.CaseClause) (ret *rpfReturn) {
			if o := r.p.TypesInfo.Implicits[cc]; o != nil {
				r.env[o] = v
			}
			defer func() {
				if y := recover(); y != nil {
					if _, ok := y.(rpfBreak); ok {
						ret = nil
						return
					}
					panic(y)
				}
			}()
			for _, st := range cc.Body {
				if bs, ok := st.(*ast.BranchStmt); ok && bs.Tok == token.BREAK && bs.Label == nil {
					return nil
				}
				if ret := r.stmt(st); ret != nil {
					return ret
				}
			}
			return nil
		}
		var defT *ast.CaseClause
		for _, cl := range x.Body.List {
			cc := cl.(*ast.CaseClause)
			if cc.List == nil {
				defT = cc
				continue
			}
			for _, te := range cc.List {
				if hasType(te) {
					return runT(cc)
				}
			}
		}
		if defT != nil {
			return runT(defT)
		}
		return nil
	case *ast.RangeStmt:
		// bounded iteration over a *literal table* only (the trip count is fixed by the source literal)
		lst := r.expr(x.X)
		if lst.K == VStr {
			// range over a string: byte offsets and runes (invalid UTF-8 yields U+FFFD, as in Go)
			for i, ch := range lst.S {
				if x.Key != nil {
					r.assign(x.Key, vint(int64(i)), x.Tok == token.DEFINE)
				}
				if x.Value != nil {
					r.assign(x.Value, &Val{K: VInt, I: int64(ch), T: types.Typ[types.Rune]}, x.Tok == token.DEFINE)
				}
				r.inTableLoop++
				ret, brk := r.loopIter(x.Body.List)
				r.inTableLoop--
				if ret != nil {
					return ret
				}
				if brk {
					break
				}
			}
			return nil
		}
		if lst.K == VNil {
			if t := info.TypeOf(x.X); t != nil {
				switch t.Underlying().(type) {
				case *types.Slice, *types.Map:
					return nil // ranging over a nil slice or map: no iteration
				}
			}
		}
		if mt, isMap := info.TypeOf(x.X).Underlying().(*types.Map); isMap && ((lst.K == VStruct && lst.Fields != nil) || (lst.K == VList && lst.MapKeys != nil)) {
			// range over a map: Go leaves the order open; the fold visits the entries in key order, so a result that
			// depends on the order is decided for one order only
			keys, vals := mapEntries(lst, mt)
			if keys == nil && len(vals) != 0 {
				rpfFail("%s: range over a map with keys outside the pure fragment", r.c.pos(x.Pos()))
			}
			for i := range keys {
				if x.Key != nil {
					r.assign(x.Key, keys[i], x.Tok == token.DEFINE)
				}
				if x.Value != nil {
					r.assign(x.Value, vals[i], x.Tok == token.DEFINE)
				}
				r.inTableLoop++
				ret, brk := r.loopIter(x.Body.List)
				r.inTableLoop--
				if ret != nil {
					return ret
				}
				if brk {
					break
				}
			}
			return nil
		}
		if lst.K != VList || lst.MapKeys != nil {
			rpfFail("%s: range over a non-literal value", r.c.pos(x.Pos()))
		}
		for i, el := range lst.L {
			if x.Key != nil {
				r.assign(x.Key, vint(int64(i)), x.Tok == token.DEFINE)
			}
			if x.Value != nil {
				r.assign(x.Value, el, x.Tok == token.DEFINE)
			}
			r.inTableLoop++
			ret, brk := r.loopIter(x.Body.List)
			r.inTableLoop--
			if ret != nil {
				return ret
			}
			if brk {
				break
			}
		}
		return nil
	case *ast.ForStmt:
		if r.unroll <= 0 {
			rpfFail("%s: statement outside the pure fragment (%T)", r.c.pos(s.Pos()), s)
		}
		if x.Init != nil {
			if ret := r.stmt(x.Init); ret != nil {
				return ret
			}
		}
		for n := 0; ; n++ {
			if n > r.unroll {
				rpfFail("%s: loop not finished after %d unrolled iterations", r.c.pos(x.Pos()), r.unroll)
			}
			if x.Cond != nil {
				cv := r.expr(x.Cond)
				if cv.K != VBool {
					rpfFail("%s: loop condition not decidable", r.c.pos(x.Cond.Pos()))
				}
				if !cv.B {
					break
				}
			}
			r.inTableLoop++
			ret, brk := r.loopIter(x.Body.List)
			r.inTableLoop--
			if ret != nil {
				return ret
			}
			if brk {
				break
			}
			if x.Post != nil {
				r.stmt(x.Post)
			}
		}
		return nil
	case *ast.BranchStmt:
		if x.Tok == token.BREAK && x.Label == nil {
			panic(rpfBreak{})
		}
	case *ast.DeferStmt:
		// a deferred effect stays in the fragment only when the caller's hook claims the call (its arguments are
		// folded here, at the defer statement, as Go does)
		if r.callHook != nil {
			callee := typeutil.Callee(info, x.Call)
			if _, ok := r.callHook(r, x.Call, callee); ok {
				return nil
			}
		}
		// a deferred method call of a module type on a struct value, for its effect on fold-local storage: receiver and
		// arguments are folded now, the body when the function returns
		if r.effectCalls {
			if fn, isFn := r.dynCallee(x.Call, typeutil.Callee(info, x.Call)).(*types.Func); isFn {
				if fd := r.c.funcDecl[fn]; fd != nil && fd.Recv != nil && fd.Body != nil {
					if sel, ok := x.Call.Fun.(*ast.SelectorExpr); ok {
						if base := r.expr(sel.X); base.K == VStruct {
							var args []*Val
							for _, a := range x.Call.Args {
								args = append(args, r.expr(a))
							}
							dp := r.c.declPkg[fd]
							r.deferred = append(r.deferred, func() {
								hooks := r.nestedHooks()
								if ro := recvObj(dp, fd); ro != nil {
									hooks.env[ro] = base
								}
								if _, err := r.c.rpfCall(fd, dp, args, hooks); err != nil {
									panic(err)
								}
								r.takeGlobals(hooks)
							})
							return nil
						}
					}
				}
			}
		}
		rpfFail("%s: defer outside the pure fragment", r.c.pos(x.Pos()))
	case *ast.ExprStmt:
		// an expression statement is an effect; it stays in the fragment only when the caller's hook
		// claims the call (it then records the folded arguments as an "effect" of the term)
		if call, ok := x.X.(*ast.CallExpr); ok && r.callHook != nil {
			callee := typeutil.Callee(info, call)
			if _, ok := r.callHook(r, call, callee); ok {
				return nil
			}
		}
		// a call of a repository function or method for its effect: folded like any other call; the only effects the
		// fragment admits are stores into storage created inside the fold
		if call, ok := x.X.(*ast.CallExpr); ok {
			if fn, isFn := r.dynCallee(call, typeutil.Callee(info, call)).(*types.Func); isFn && r.c.funcDecl[fn] != nil && r.c.funcDecl[fn].Body != nil && r.effectCalls {
				r.callMulti(call)
				return nil
			}
		}
		// copy(dst, src) into storage created inside this fold
		if call, ok := x.X.(*ast.CallExpr); ok && len(call.Args) == 2 {
			if b, isB := typeutil.Callee(info, call).(*types.Builtin); isB && b.Name() == "copy" {
				dst, src := r.expr(call.Args[0]), r.expr(call.Args[1])
				if src.K == VStr {
					// copy(dst, "text"): the bytes of the string
					bs := &Val{K: VList}
					for i := 0; i < len(src.S); i++ {
						bs.L = append(bs.L, vint(int64(src.S[i])))
					}
					src = bs
				}
				if dst.K == VList && src.K == VList && dst.Local {
					// as Go's copy: correct also when the two slices overlap (the source is read first)
					tmp := append([]*Val{}, src.L...)
					for i := 0; i < len(dst.L) && i < len(tmp); i++ {
						dst.L[i] = tmp[i]
					}
					return nil
				}
				rpfFail("%s: copy into storage not created inside the fold", r.c.pos(x.Pos()))
			}
		}
		rpfFail("%s: expression statement outside the pure fragment", r.c.pos(x.Pos()))
	}
	rpfFail("%s: statement outside the pure fragment (%T)", r.c.pos(s.Pos()), s)
	return nil
}

func assignOp(t token.Token) token.Token {
	switch t {
	case token.ADD_ASSIGN:
		return token.ADD
	case token.SUB_ASSIGN:
		return token.SUB
	case token.MUL_ASSIGN:
		return token.MUL
	case token.QUO_ASSIGN:
		return token.QUO
	case token.REM_ASSIGN:
		return token.REM
	case token.AND_ASSIGN:
		return token.AND
	case token.OR_ASSIGN:
		return token.OR
	case token.XOR_ASSIGN:
		return token.XOR
	case token.SHL_ASSIGN:
		return token.SHL
	case token.SHR_ASSIGN:
		return token.SHR
	case token.AND_NOT_ASSIGN:
		return token.AND_NOT
	}
	rpfFail("unsupported assignment operator %v", t)
	return token.ILLEGAL
}

func (r *rpf) assign(l ast.Expr, v *Val, define bool) {
	id, ok := l.(*ast.Ident)
	if !ok && r.stHook != nil && r.stHook(r, l, v) {
		return
	}
	if sel, isSel := l.(*ast.SelectorExpr); isSel {
		// field of a struct value built locally in this fold (fresh literal bound to a local variable)
		if bid, isId := sel.X.(*ast.Ident); isId {
			obj := r.p.TypesInfo.Uses[bid]
			if cur, has := r.env[obj]; has && cur.K == VStruct && cur.Local {
				cur.Fields[sel.Sel.Name] = v
				return
			}
		}
		// field of a struct element of a list created inside this fold: result[k].f = ...
		if ix, isIx := sel.X.(*ast.IndexExpr); isIx {
			if base, err := r.tryExpr(ix); err == nil && base.K == VStruct && base.Local && base.Fields != nil {
				base.Fields[sel.Sel.Name] = v
				return
			}
		}
	}
	if ix, isIx := l.(*ast.IndexExpr); isIx {
		if xt := r.p.TypesInfo.TypeOf(ix.X); xt != nil {
			if _, isMap := xt.Underlying().(*types.Map); isMap {
				if base, err := r.tryExpr(ix.X); err == nil && base.K == VStruct && base.Local && base.Fields != nil {
					ks, ok := mapKeyString(r.expr(ix.Index))
					if !ok {
						rpfFail("%s: map key outside the pure fragment", r.c.pos(l.Pos()))
					}
					base.Fields[ks] = v
					return
				}
			}
		}
		// element of a list created inside this fold by make(): local scratch storage (also through a field of a
		// struct value created inside the fold: result[j].codewords[i] = ...)
		if _, isId := ix.X.(*ast.Ident); !isId {
			if base, err := r.tryExpr(ix.X); err == nil && base.K == VList && base.Local {
				i := r.expr(ix.Index)
				if !i.isInt() || i.I < 0 || i.I >= int64(len(base.L)) {
					rpfFail("%s: index %v outside a local list of %d elements", r.c.pos(l.Pos()), i, len(base.L))
				}
				base.L[i.I] = v
				return
			}
		}
		if bid, isId := ix.X.(*ast.Ident); isId {
			obj := r.p.TypesInfo.Uses[bid]
			if cur, has := r.env[obj]; has && cur.K == VList && cur.Local {
				i := r.expr(ix.Index)
				if !i.isInt() || i.I < 0 || i.I >= int64(len(cur.L)) {
					rpfFail("%s: index %v outside a local list of %d elements", r.c.pos(l.Pos()), i, len(cur.L))
				}
				cur.L[i.I] = v
				return
			}
		}
	}
	if !ok {
		rpfFail("%s: assignment to non-variable", r.c.pos(l.Pos()))
	}
	if id.Name == "_" {
		return
	}
	obj := r.p.TypesInfo.Defs[id]
	if obj == nil {
		obj = r.p.TypesInfo.Uses[id]
	}
	if obj == nil {
		rpfFail("%s: unresolved identifier %s", r.c.pos(l.Pos()), id.Name)
	}
	if _, modelled := r.env[obj]; obj.Parent() == obj.Pkg().Scope() && !modelled {
		// (a package-level variable the caller put into the environment is part of the folded state: initialisers)
		rpfFail("%s: assignment to package-level variable", r.c.pos(l.Pos()))
	}
	r.env[obj] = v
}

func valEq(a, b *Val) bool {
	if a.K != b.K {
		rpfFail("comparison of different kinds")
	}
	switch a.K {
	case VInt:
		return a.I == b.I
	case VBool:
		return a.B == b.B
	case VStr:
		return a.S == b.S
	}
	rpfFail("comparison not decidable")
	return false
}

// rpfCurrent is the evaluator that is invoking a multi-value hook (hooks use it to fold the call's arguments).
var rpfCurrent *rpf

// nestedHooks builds the hooks of a method fold started from this fold: the same hooks, and the package variables the
// caller of the outermost fold modelled (they are visible in every function).
func (r *rpf) nestedHooks() *rpf {
	h := &rpf{callHook: r.callHook, selHook: r.selHook, idxHook: r.idxHook, stHook: r.stHook, multiHook: r.multiHook, assertHook: r.assertHook, unroll: r.unroll, maxSteps: r.maxSteps, effectCalls: r.effectCalls, env: map[types.Object]*Val{}, writeBack: true}
	for o, v := range r.env {
		if o != nil && o.Pkg() != nil && o.Parent() == o.Pkg().Scope() {
			h.env[o] = v
		}
	}
	return h
}

// takeGlobals copies the modelled package variables back after a nested fold (it may have assigned them).
func (r *rpf) takeGlobals(h *rpf) {
	for o, v := range h.env {
		if o != nil && o.Pkg() != nil && o.Parent() == o.Pkg().Scope() && v != nil {
			r.env[o] = v
		}
	}
}

// dynCallee resolves what a call statically cannot: a method called through an interface on a struct value built
// inside the fold (the value knows its type), and a function value held in a variable or field.
func (r *rpf) dynCallee(call *ast.CallExpr, callee types.Object) types.Object {
	info := r.p.TypesInfo
	if fn, ok := callee.(*types.Func); ok {
		if r.c.funcDecl[fn] != nil {
			return callee
		}
		sig, _ := fn.Type().(*types.Signature)
		if sig == nil || sig.Recv() == nil || !types.IsInterface(sig.Recv().Type()) {
			return callee
		}
		sel, isSel := call.Fun.(*ast.SelectorExpr)
		if !isSel {
			return callee
		}
		base := r.expr(sel.X)
		if base.K != VStruct || base.T == nil {
			return callee
		}
		t := base.T
		if _, isPtr := t.(*types.Pointer); !isPtr {
			t = types.NewPointer(t)
		}
		if o, _, _ := types.LookupFieldOrMethod(t, true, fn.Pkg(), fn.Name()); o != nil {
			if m, isM := o.(*types.Func); isM && r.c.funcDecl[m] != nil {
				return m
			}
		}
		return callee
	}
	if callee == nil || func() bool { _, isVar := callee.(*types.Var); return isVar }() {
		if tv, ok := info.Types[call.Fun]; ok && !tv.IsType() {
			if _, isSig := tv.Type.Underlying().(*types.Signature); isSig {
				func() {
					defer func() {
						if x := recover(); x != nil {
							if _, isErr := x.(*rpfErr); !isErr {
								panic(x)
							}
						}
					}()
					if v := r.expr(call.Fun); v != nil && v.K == VFunc && v.Fn != nil {
						callee = v.Fn
					}
				}()
			}
		}
	}
	return callee
}

func (r *rpf) callMulti(call *ast.CallExpr) []*Val {
	callee := typeutil.Callee(r.p.TypesInfo, call)
	if r.multiHook != nil {
		rpfCurrent = r
		if vals, ok := r.multiHook(call, callee); ok {
			return vals
		}
	}
	callee = r.dynCallee(call, callee)
	if fn, ok := callee.(*types.Func); ok {
		if fd := r.c.funcDecl[fn]; fd != nil && fd.Recv == nil {
			var args []*Val
			for _, a := range call.Args {
				args = append(args, r.expr(a))
			}
			res, err := r.c.rpfCall(fd, r.c.declPkg[fd], args, r)
			if err != nil {
				panic(err)
			}
			return res
		}
		// multi-result method of a repository type on a struct receiver value: fold the body with the receiver bound
		if fd := r.c.funcDecl[fn]; fd != nil && fd.Recv != nil && fd.Body != nil {
			if sel, ok := call.Fun.(*ast.SelectorExpr); ok {
				if _, isMethod := r.p.TypesInfo.Selections[sel]; isMethod {
					if base := r.expr(sel.X); base.K == VStruct {
						var args []*Val
						for _, a := range call.Args {
							args = append(args, r.expr(a))
						}
						dp := r.c.declPkg[fd]
						hooks := r.nestedHooks()
						if ro := recvObj(dp, fd); ro != nil {
							hooks.env[ro] = base
						}
						res, err := r.c.rpfCall(fd, dp, args, hooks)
						r.takeGlobals(hooks)
						if err != nil {
							panic(err)
						}
						return res
					}
				}
			}
		}
	}
	rpfFail("%s: call outside the pure fragment", r.c.pos(call.Pos()))
	return nil
}

func (r *rpf) expr(e ast.Expr) *Val {
	r.tick(e)
	info := r.p.TypesInfo
	if tv, ok := info.Types[e]; ok && tv.Value != nil {
		v := r.c.eval(r.p, e)
		if v.K != VUnknown {
			return v
		}
	}
	switch x := e.(type) {
	case *ast.ParenExpr:
		return r.expr(x.X)
	case *ast.Ident:
		obj := info.Uses[x]
		if obj == nil {
			obj = info.Defs[x]
		}
		if v, ok := r.env[obj]; ok {
			return v
		}
		if obj != nil && obj.Pkg() != nil && obj.Parent() == obj.Pkg().Scope() {
			v := r.c.eval(r.p, e)
			if v.K == VCall && v.Fn == nil {
				if iv := r.pkgVarByFold(obj); iv != nil {
					return iv
				}
			}
			if v.K != VUnknown {
				return v
			}
		}
		if x.Name == "nil" {
			return &Val{K: VNil}
		}
		if fn, isFn := obj.(*types.Func); isFn && r.c.funcDecl[fn] != nil {
			return &Val{K: VFunc, Fn: fn} // a declared function of the module used as a value
		}
		rpfFail("%s: free variable %s", r.c.pos(x.Pos()), x.Name)
	case *ast.SelectorExpr:
		if r.selHook != nil {
			if v, ok := r.selHook(r, x); ok {
				return v
			}
		}
		if obj, ok := info.Uses[x.Sel]; ok && obj.Pkg() != nil && obj.Parent() == obj.Pkg().Scope() {
			v := r.c.eval(r.p, e)
			if v.K != VUnknown {
				return v
			}
		}
		// field of a struct value
		base := r.expr(x.X)
		if base.K == VStruct {
			if f := base.Fields[x.Sel.Name]; f != nil {
				return f
			}
		}
		if base.K == VCall && base.Fn != nil {
			// value built by a field-initialising constructor: resolved by the caller through selHook
		}
		rpfFail("%s: selector outside the pure fragment", r.c.pos(x.Pos()))
	case *ast.IndexExpr:
		if r.idxHook != nil {
			if v, ok := r.idxHook(r, x); ok {
				return v
			}
		}
		base := r.expr(x.X)
		idx := r.expr(x.Index)
		// m[k] in value position on a nil map or on a map modelled as a struct of its entries: the entry or the zero value
		if xt := info.TypeOf(x.X); xt != nil {
			if _, isMap := xt.Underlying().(*types.Map); isMap && (base.K == VNil || (base.K == VStruct && base.Fields != nil)) && (idx.K == VInt || idx.K == VStr) {
				ks := idx.S
				if idx.K == VInt {
					ks = fmt.Sprint(idx.I)
				}
				if base.K == VStruct {
					if e, has := base.Fields[ks]; has {
						return e
					}
				}
				return zeroOf(info.TypeOf(x))
			}
		}
		if base.K == VStr && idx.K == VInt {
			if idx.I < 0 || idx.I >= int64(len(base.S)) {
				rpfFail("%s: index %d out of range of constant string (len %d)", r.c.pos(x.Pos()), idx.I, len(base.S))
			}
			return vint(int64(base.S[idx.I]))
		}
		if base.K == VList && base.MapKeys != nil && idx.K == VStr {
			for i, k := range base.MapKeys {
				if k.K != VStr {
					rpfFail("%s: map literal with keys outside the pure fragment", r.c.pos(x.Pos()))
				}
				if k.S == idx.S {
					return base.L[i]
				}
			}
			return zeroOf(info.TypeOf(x))
		}
		if base.K != VList || idx.K != VInt {
			rpfFail("%s: index outside the pure fragment", r.c.pos(x.Pos()))
		}
		if base.MapKeys != nil {
			for i, k := range base.MapKeys {
				if k.K != VInt {
					rpfFail("%s: map literal with keys outside the pure fragment", r.c.pos(x.Pos()))
				}
				if k.I == idx.I {
					return base.L[i]
				}
			}
			return zeroOf(info.TypeOf(x)) // an absent key reads as the zero value
		}
		if idx.I < 0 || idx.I >= int64(len(base.L)) {
			rpfFail("%s: index %d out of range (len %d)", r.c.pos(x.Pos()), idx.I, len(base.L))
		}
		return base.L[idx.I]
	case *ast.CompositeLit:
		t := info.TypeOf(x)
		if t == nil {
			rpfFail("%s: untyped composite literal", r.c.pos(x.Pos()))
		}
		ut := t.Underlying()
		switch st := ut.(type) {
		case *types.Struct:
			v := &Val{K: VStruct, Fields: map[string]*Val{}, T: t, Pos: x.Pos(), Local: true}
			for i, el := range x.Elts {
				if kv, ok := el.(*ast.KeyValueExpr); ok {
					v.Fields[kv.Key.(*ast.Ident).Name] = r.expr(kv.Value)
				} else if i < st.NumFields() {
					v.Fields[st.Field(i).Name()] = r.expr(el)
				}
			}
			// fields the literal does not mention hold their zero value
			for i := 0; i < st.NumFields(); i++ {
				if _, ok := v.Fields[st.Field(i).Name()]; !ok {
					switch st.Field(i).Type().Underlying().(type) {
					case *types.Basic, *types.Slice, *types.Pointer, *types.Map:
						v.Fields[st.Field(i).Name()] = zeroOf(st.Field(i).Type())
					}
				}
			}
			return v
		case *types.Slice, *types.Array:
			v := &Val{K: VList, T: t, Pos: x.Pos(), Local: true} // storage created by this very evaluation
			keyed := false
			for _, el := range x.Elts {
				if _, ok := el.(*ast.KeyValueExpr); ok {
					keyed = true
				}
			}
			if !keyed {
				for _, el := range x.Elts {
					v.L = append(v.L, r.expr(el))
				}
				// an array longer than its literal: the rest is zero
				if at, isArr := ut.(*types.Array); isArr && int64(len(v.L)) < at.Len() && at.Len() <= 4096 {
					for int64(len(v.L)) < at.Len() {
						v.L = append(v.L, zeroOf(at.Elem()))
					}
				}
				return v
			}
			// keyed elements (`'L': x`, `3: y`, unkeyed ones continue from the last index): constant keys only
			var elemT types.Type
			n := int64(-1)
			switch tt := ut.(type) {
			case *types.Array:
				elemT, n = tt.Elem(), tt.Len()
			case *types.Slice:
				elemT = tt.Elem()
			}
			sparse := map[int64]*Val{}
			idx, max := int64(0), int64(-1)
			for _, el := range x.Elts {
				val := el
				if kv, ok := el.(*ast.KeyValueExpr); ok {
					k := r.expr(kv.Key)
					if k.K != VInt || k.I < 0 || k.I > 4096 {
						rpfFail("%s: list literal with a key that is not a small constant", r.c.pos(x.Pos()))
					}
					idx, val = k.I, kv.Value
				}
				sparse[idx] = r.expr(val)
				if idx > max {
					max = idx
				}
				idx++
			}
			if n < 0 {
				n = max + 1
			}
			if n > 4096 || max >= n {
				rpfFail("%s: list literal too large", r.c.pos(x.Pos()))
			}
			for i := int64(0); i < n; i++ {
				if e, ok := sparse[i]; ok {
					v.L = append(v.L, e)
				} else {
					v.L = append(v.L, zeroOf(elemT))
				}
			}
			return v
		}
		rpfFail("%s: composite literal outside the pure fragment", r.c.pos(x.Pos()))
	case *ast.SliceExpr:
		if x.Slice3 {
			rpfFail("%s: 3-index slice", r.c.pos(x.Pos()))
		}
		base := r.expr(x.X)
		n := int64(0)
		switch base.K {
		case VStr:
			n = int64(len(base.S))
		case VList:
			n = int64(len(base.L))
		default:
			rpfFail("%s: slice of a non-list", r.c.pos(x.Pos()))
		}
		lo, hi := int64(0), n
		if x.Low != nil {
			v := r.expr(x.Low)
			if !v.isInt() {
				rpfFail("%s: slice bound", r.c.pos(x.Pos()))
			}
			lo = v.I
		}
		if x.High != nil {
			v := r.expr(x.High)
			if !v.isInt() {
				rpfFail("%s: slice bound", r.c.pos(x.Pos()))
			}
			hi = v.I
		}
		if base.K == VList && hi > n && hi <= base.Cap && base.Local {
			// re-slicing a list made with spare capacity up to that capacity: the new elements are zero
			var et types.Type
			if st, ok := info.TypeOf(x.X).Underlying().(*types.Slice); ok {
				et = st.Elem()
			}
			for int64(len(base.L)) < hi {
				if et != nil {
					base.L = append(base.L, zeroOf(et))
				} else {
					base.L = append(base.L, vint(0))
				}
			}
			n = int64(len(base.L))
		}
		if lo < 0 || hi < lo || hi > n {
			rpfFail("%s: slice bounds [%d:%d] out of range (len %d)", r.c.pos(x.Pos()), lo, hi, n)
		}
		if base.K == VStr {
			return vstr(base.S[lo:hi])
		}
		// shares the element storage with the original, as a Go slice does (stores through either are seen by
		// both); the capacity is cut at hi, so an append to the result reallocates instead of writing into the
		// original's tail
		return &Val{K: VList, L: base.L[lo:hi:hi], T: base.T, Local: base.Local}
	case *ast.TypeAssertExpr:
		// x.(T) on a folded value: holds when the value has the basic kind asserted (a hint value given as a string)
		if x.Type != nil {
			v := r.expr(x.X)
			if r.assertHook != nil {
				if holds, claimed := r.assertHook(r, x, v); claimed {
					if holds {
						return v
					}
					rpfFail("%s: a single-value type assertion that does not hold: a run-time panic", r.c.pos(x.Pos()))
				}
			}
			if bt, ok := info.TypeOf(x.Type).Underlying().(*types.Basic); ok {
				switch {
				case bt.Info()&types.IsString != 0 && v.K == VStr, bt.Info()&types.IsInteger != 0 && v.K == VInt, bt.Info()&types.IsBoolean != 0 && v.K == VBool:
					return v
				}
			}
			rpfFail("%s: type assertion outside the pure fragment", r.c.pos(x.Pos()))
		}
	case *ast.FuncLit:
		return &Val{K: VFuncLit, Expr: x, Pkg: r.p}
	case *ast.UnaryExpr:
		if x.Op == token.AND {
			if _, ok := x.X.(*ast.CompositeLit); ok {
				v := r.expr(x.X)
				v.Ptr = true
				return v
			}
		}
		v := r.expr(x.X)
		switch x.Op {
		case token.AND:
			// &x of a struct or list value: the value itself (values of the fold are shared by reference)
			if v.K == VStruct || v.K == VList {
				return v
			}
		case token.NOT:
			if v.K == VBool {
				return vbool(!v.B)
			}
		case token.SUB:
			if v.K == VInt {
				return r.wrap(vint(-v.I), info.TypeOf(e))
			}
			if v.K == VFloat {
				return &Val{K: VFloat, F: -v.F}
			}
		case token.ADD:
			return v
		case token.XOR:
			if v.K == VInt {
				return r.wrap(vint(^v.I), info.TypeOf(e))
			}
		}
		rpfFail("%s: unary operator outside the pure fragment", r.c.pos(x.Pos()))
	case *ast.BinaryExpr:
		if x.Op == token.LAND || x.Op == token.LOR {
			a := r.expr(x.X)
			if a.K != VBool {
				rpfFail("%s: operand not boolean", r.c.pos(x.Pos()))
			}
			if x.Op == token.LAND && !a.B {
				return vbool(false)
			}
			if x.Op == token.LOR && a.B {
				return vbool(true)
			}
			b := r.expr(x.Y)
			if b.K != VBool {
				rpfFail("%s: operand not boolean", r.c.pos(x.Pos()))
			}
			return vbool(b.B)
		}
		a, b := r.expr(x.X), r.expr(x.Y)
		return r.binop(x.Op, a, b, info.TypeOf(e), x.Pos())
	case *ast.CallExpr:
		if ftv, ok := info.Types[x.Fun]; ok && ftv.IsType() && len(x.Args) == 1 {
			v := r.expr(x.Args[0])
			if bt, isB := ftv.Type.Underlying().(*types.Basic); isB && bt.Info()&types.IsFloat != 0 {
				// integer / float -> float (float32 precision is not modelled: only float64 is folded)
				if bt.Kind() != types.Float64 && bt.Kind() != types.UntypedFloat {
					rpfFail("%s: conversion to %s outside the pure fragment", r.c.pos(x.Pos()), bt.Name())
				}
				switch v.K {
				case VInt:
					return &Val{K: VFloat, F: float64(v.I)}
				case VFloat:
					return v
				}
			}
			if v.K == VFloat {
				if bt, isB := ftv.Type.Underlying().(*types.Basic); isB && bt.Info()&types.IsInteger != 0 {
					if v.F != v.F || v.F > 1e15 || v.F < -1e15 {
						rpfFail("%s: float to integer conversion out of range", r.c.pos(x.Pos()))
					}
					return r.wrap(vint(int64(v.F)), ftv.Type) // truncation toward zero, as in Go
				}
			}
			if v.K == VInt {
				if bt, isB := ftv.Type.Underlying().(*types.Basic); isB && bt.Info()&types.IsString != 0 {
					if v.I >= 0 && v.I <= 0x10FFFF {
						return vstr(string(rune(v.I))) // string(b) of a byte or rune: the one-character string
					}
					rpfFail("%s: integer to string conversion", r.c.pos(x.Pos()))
				}
				return r.wrap(vint(v.I), ftv.Type)
			}
			if st, isSlice := ftv.Type.Underlying().(*types.Slice); isSlice && v.K == VStr {
				out := &Val{K: VList, T: ftv.Type}
				if eb, isB := st.Elem().Underlying().(*types.Basic); isB && eb.Kind() == types.Int32 {
					for _, ch := range v.S { // []rune(s)
						out.L = append(out.L, vint(int64(ch)))
					}
					return out
				}
				for i := 0; i < len(v.S); i++ {
					out.L = append(out.L, vint(int64(v.S[i])))
				}
				return out
			}
			if bt, isB := ftv.Type.Underlying().(*types.Basic); isB && bt.Info()&types.IsString != 0 && v.K == VList {
				b := make([]byte, len(v.L))
				for i, e := range v.L {
					if !e.isInt() {
						rpfFail("%s: non-byte element", r.c.pos(x.Pos()))
					}
					b[i] = byte(e.I)
				}
				return vstr(string(b))
			}
			if v.K == VBool || v.K == VStr {
				return v
			}
			rpfFail("%s: conversion outside the pure fragment", r.c.pos(x.Pos()))
		}
		callee := typeutil.Callee(info, x)
		if r.callHook != nil {
			if v, ok := r.callHook(r, x, callee); ok {
				return v
			}
		}
		callee = r.dynCallee(x, callee)
		// a call of a function literal held in a variable, a field or a table (one result)
		if callee == nil || func() bool { _, isVar := callee.(*types.Var); return isVar }() {
			if fv, err := r.tryExpr(x.Fun); err == nil && fv != nil && fv.K == VFuncLit {
				if lit, isLit := fv.Expr.(*ast.FuncLit); isLit && fv.Pkg != nil {
					var args []*Val
					for _, a := range x.Args {
						args = append(args, r.expr(a))
					}
					fd := &ast.FuncDecl{Name: ast.NewIdent("func literal"), Type: lit.Type, Body: lit.Body}
					hooks := r.nestedHooks()
					res, ferr := r.c.rpfCall(fd, fv.Pkg, args, hooks)
					if ferr != nil {
						panic(ferr)
					}
					r.takeGlobals(hooks)
					if len(res) == 1 {
						return res[0]
					}
					rpfFail("%s: function literal with %d results in expression context", r.c.pos(x.Pos()), len(res))
				}
			}
		}
		// pure functions of the standard library and the min / max builtins on folded integers
		if v, ok := r.stdPure(x, callee); ok {
			return v
		}
		if b, ok := callee.(*types.Builtin); ok && b.Name() == "append" && len(x.Args) >= 1 {
			base := r.expr(x.Args[0])
			out := &Val{K: VList, T: info.TypeOf(x)}
			// the fold always copies: the result is storage of its own when the base was (or was empty)
			out.Local = base.K == VNil || (base.K == VList && (base.Local || len(base.L) == 0))
			if base.K == VList {
				out.L = append(out.L, base.L...)
			} else if base.K != VNil {
				rpfFail("%s: append to a non-list", r.c.pos(x.Pos()))
			}
			for i, a := range x.Args[1:] {
				v := r.expr(a)
				if x.Ellipsis.IsValid() && i == len(x.Args)-2 {
					switch v.K {
					case VList:
						out.L = append(out.L, v.L...)
					case VStr:
						for k := 0; k < len(v.S); k++ {
							out.L = append(out.L, vint(int64(v.S[k])))
						}
					default:
						rpfFail("%s: spread of a non-list", r.c.pos(x.Pos()))
					}
				} else {
					out.L = append(out.L, v)
				}
			}
			if base.K == VList && base.Cap >= int64(len(out.L)) {
				out.Cap = base.Cap // appended within the capacity: the capacity stays
			}
			return out
		}
		if b, ok := callee.(*types.Builtin); ok && b.Name() == "make" && len(x.Args) >= 1 {
			if _, isMap := info.TypeOf(x).Underlying().(*types.Map); isMap {
				// a map made inside the fold: a struct of its entries, keyed by the folded key
				return &Val{K: VStruct, T: info.TypeOf(x), Local: true, Fields: map[string]*Val{}}
			}
		}
		if b, ok := callee.(*types.Builtin); ok && b.Name() == "delete" && len(x.Args) == 2 {
			if m := r.expr(x.Args[0]); m.K == VStruct && m.Local && m.Fields != nil {
				if ks, ok := mapKeyString(r.expr(x.Args[1])); ok {
					delete(m.Fields, ks)
					return &Val{K: VNil}
				}
			}
		}
		if b, ok := callee.(*types.Builtin); ok && b.Name() == "make" && len(x.Args) >= 2 {
			if _, isSlice := info.TypeOf(x).Underlying().(*types.Slice); isSlice {
				n := r.expr(x.Args[1])
				if !n.isInt() || n.I < 0 || n.I > 4096 {
					rpfFail("%s: make with a non-constant length", r.c.pos(x.Pos()))
				}
				out := &Val{K: VList, T: info.TypeOf(x), Local: true}
				if len(x.Args) == 3 {
					if cp := r.expr(x.Args[2]); cp.isInt() && cp.I >= n.I && cp.I <= 8192 {
						out.Cap = cp.I
					}
				}
				elem := info.TypeOf(x).Underlying().(*types.Slice).Elem()
				st, isStruct := elem.Underlying().(*types.Struct)
				for i := int64(0); i < n.I; i++ {
					if isStruct {
						// zero struct elements: local storage whose fields may be assigned (result[k].f = ...)
						e := &Val{K: VStruct, T: elem, Local: true, Fields: map[string]*Val{}}
						for f := 0; f < st.NumFields(); f++ {
							e.Fields[st.Field(f).Name()] = zeroOf(st.Field(f).Type())
						}
						out.L = append(out.L, e)
						continue
					}
					if bt, isBasic := elem.Underlying().(*types.Basic); isBasic && bt.Info()&(types.IsBoolean|types.IsString) != 0 {
						out.L = append(out.L, zeroOf(elem)) // false / ""
						continue
					}
					out.L = append(out.L, vint(0))
				}
				return out
			}
		}
		if b, ok := callee.(*types.Builtin); ok && b.Name() == "cap" && len(x.Args) == 1 {
			if v := r.expr(x.Args[0]); v.K == VList {
				if v.Cap > int64(len(v.L)) {
					return vint(v.Cap)
				}
				return vint(int64(len(v.L)))
			}
		}
		if b, ok := callee.(*types.Builtin); ok && b.Name() == "len" && len(x.Args) == 1 {
			v := r.expr(x.Args[0])
			if v.K == VList {
				return vint(int64(len(v.L)))
			}
			if v.K == VStr {
				return vint(int64(len(v.S)))
			}
			if t := info.TypeOf(x.Args[0]); t != nil && v.K == VStruct && v.Fields != nil {
				if _, isMap := t.Underlying().(*types.Map); isMap {
					return vint(int64(len(v.Fields)))
				}
			}
			if v.K == VNil {
				if t := info.TypeOf(x.Args[0]); t != nil {
					switch t.Underlying().(type) {
					case *types.Slice, *types.Map:
						return vint(0) // a nil slice or map is empty
					}
				}
			}
		}
		// trivial field getters on literal struct values
		if fn, ok := callee.(*types.Func); ok {
			if field, ok := r.c.trivialGetter(fn); ok {
				if sel, ok := x.Fun.(*ast.SelectorExpr); ok {
					base := r.expr(sel.X)
					if base.K == VStruct {
						if f := base.Fields[field]; f != nil {
							return f
						}
					}
				}
			}
		}
		// methods of repository types on literal struct receivers: fold the method body with the receiver bound
		if fn, ok := callee.(*types.Func); ok {
			if fd := r.c.funcDecl[fn]; fd != nil && fd.Recv != nil && fd.Body != nil {
				if sel, ok := x.Fun.(*ast.SelectorExpr); ok {
					if _, isMethod := info.Selections[sel]; isMethod {
						base := r.expr(sel.X)
						if base.K == VStruct {
							var args []*Val
							for _, a := range x.Args {
								args = append(args, r.expr(a))
							}
							dp := r.c.declPkg[fd]
							ro := recvObj(dp, fd)
							hooks := r.nestedHooks()
							if ro != nil {
								hooks.env[ro] = base
							}
							res, err := r.c.rpfCall(fd, dp, args, hooks)
							r.takeGlobals(hooks)
							if err != nil {
								panic(err)
							}
							if len(res) == 1 {
								return res[0]
							}
							rpfFail("%s: method with %d results in expression context", r.c.pos(x.Pos()), len(res))
						}
					}
				}
			}
		}
		// calls to package-level repository functions that are themselves in the fragment
		if fn, ok := callee.(*types.Func); ok {
			if fd := r.c.funcDecl[fn]; fd != nil && fd.Recv == nil && fd.Type.Results != nil && fd.Type.Results.NumFields() == 1 {
				var args []*Val
				for _, a := range x.Args {
					args = append(args, r.expr(a))
				}
				res, err := r.c.rpfCall(fd, r.c.declPkg[fd], args, r)
				if err != nil {
					panic(err)
				}
				if len(res) == 1 {
					return res[0]
				}
			}
		}
		rpfFail("%s: call outside the pure fragment", r.c.pos(x.Pos()))
	}
	rpfFail("%s: expression outside the pure fragment (%T)", r.c.pos(e.Pos()), e)
	return nil
}

func (r *rpf) wrap(v *Val, t types.Type) *Val {
	if t == nil {
		return v
	}
	b, ok := t.Underlying().(*types.Basic)
	if !ok {
		return v
	}
	switch b.Kind() {
	case types.Int8:
		v.I = int64(int8(v.I))
	case types.Int16:
		v.I = int64(int16(v.I))
	case types.Int32:
		v.I = int64(int32(v.I))
	case types.Uint8:
		v.I = int64(uint8(v.I))
	case types.Uint16:
		v.I = int64(uint16(v.I))
	case types.Uint32:
		v.I = int64(uint32(v.I))
	case types.Uint, types.Uint64, types.Uintptr:
		if v.I < 0 {
			rpfFail("negative value in unsigned 64-bit context")
		}
	}
	v.T = t
	return v
}

func (r *rpf) binop(op token.Token, a, b *Val, t types.Type, pos token.Pos) *Val {
	if a.K == VBool && b.K == VBool {
		switch op {
		case token.EQL:
			return vbool(a.B == b.B)
		case token.NEQ:
			return vbool(a.B != b.B)
		}
	}
	if (a.K == VNil || b.K == VNil) && (op == token.EQL || op == token.NEQ) {
		known := func(v *Val) bool { return v.K == VNil || v.K == VStruct || v.K == VList || v.K == VStr }
		if known(a) && known(b) {
			eq := a.K == VNil && b.K == VNil
			if op == token.EQL {
				return vbool(eq)
			}
			return vbool(!eq)
		}
	}
	if a.K == VStruct && b.K == VStruct && a.Ptr && b.Ptr && (op == token.EQL || op == token.NEQ) {
		// pointers to struct values: identity of the folded object
		return vbool((a == b) == (op == token.EQL))
	}
	if a.K == VStr && b.K == VStr {
		switch op {
		case token.EQL:
			return vbool(a.S == b.S)
		case token.NEQ:
			return vbool(a.S != b.S)
		case token.ADD:
			return vstr(a.S + b.S)
		}
	}
	if (a.K == VFloat || b.K == VFloat) && (a.K == VFloat || a.K == VInt) && (b.K == VFloat || b.K == VInt) {
		fa, fb := a.F, b.F
		if a.K == VInt {
			fa = float64(a.I)
		}
		if b.K == VInt {
			fb = float64(b.I)
		}
		switch op {
		case token.ADD:
			return &Val{K: VFloat, F: fa + fb}
		case token.SUB:
			return &Val{K: VFloat, F: fa - fb}
		case token.MUL:
			return &Val{K: VFloat, F: fa * fb}
		case token.QUO:
			if fb == 0 {
				rpfFail("%s: floating-point division by zero", r.c.pos(pos))
			}
			return &Val{K: VFloat, F: fa / fb}
		case token.EQL:
			return vbool(fa == fb)
		case token.NEQ:
			return vbool(fa != fb)
		case token.LSS:
			return vbool(fa < fb)
		case token.LEQ:
			return vbool(fa <= fb)
		case token.GTR:
			return vbool(fa > fb)
		case token.GEQ:
			return vbool(fa >= fb)
		}
		rpfFail("%s: floating-point operator outside the pure fragment", r.c.pos(pos))
	}
	if a.K != VInt || b.K != VInt {
		rpfFail("%s: operands outside the pure fragment", r.c.pos(pos))
	}
	x, y := a.I, b.I
	switch op {
	case token.ADD:
		return r.wrap(vint(x+y), t)
	case token.SUB:
		return r.wrap(vint(x-y), t)
	case token.MUL:
		return r.wrap(vint(x*y), t)
	case token.QUO:
		if y == 0 {
			rpfFail("%s: division by zero", r.c.pos(pos))
		}
		return r.wrap(vint(x/y), t)
	case token.REM:
		if y == 0 {
			rpfFail("%s: division by zero", r.c.pos(pos))
		}
		return r.wrap(vint(x%y), t)
	case token.AND:
		return r.wrap(vint(x&y), t)
	case token.OR:
		return r.wrap(vint(x|y), t)
	case token.XOR:
		return r.wrap(vint(x^y), t)
	case token.AND_NOT:
		return r.wrap(vint(x&^y), t)
	case token.SHL:
		if y < 0 || y > 63 {
			rpfFail("%s: shift count", r.c.pos(pos))
		}
		return r.wrap(vint(x<<uint(y)), t)
	case token.SHR:
		if y < 0 || y > 63 {
			rpfFail("%s: shift count", r.c.pos(pos))
		}
		return r.wrap(vint(x>>uint(y)), t)
	case token.EQL:
		return vbool(x == y)
	case token.NEQ:
		return vbool(x != y)
	case token.LSS:
		return vbool(x < y)
	case token.LEQ:
		return vbool(x <= y)
	case token.GTR:
		return vbool(x > y)
	case token.GEQ:
		return vbool(x >= y)
	}
	rpfFail("%s: operator %v outside the pure fragment", r.c.pos(pos), op)
	return nil
}

type rpfLoopBreak struct{}

// loopIter runs one iteration of a table loop; `continue` ends the iteration, `break` the loop.
func (r *rpf) loopIter(body []ast.Stmt) (ret *rpfReturn, brk bool) {
	defer func() {
		if y := recover(); y != nil {
			switch y.(type) {
			case rpfContinue:
				ret, brk = nil, false
			case rpfLoopBreak:
				ret, brk = nil, true
			default:
				panic(y)
			}
		}
	}()
	for _, st := range body {
		if bs, ok := st.(*ast.BranchStmt); ok && bs.Label == nil {
			if bs.Tok == token.CONTINUE {
				return nil, false
			}
			if bs.Tok == token.BREAK {
				return nil, true
			}
		}
		if ret := r.stmtC(st); ret != nil {
			return ret, false
		}
	}
	return nil, false
}

// rpfCallWithGlobals folds fd with some package-level objects bound to given values (literal tables).
func (c *Ctx) rpfCallWithGlobals(fd *ast.FuncDecl, p *packages.Package, args []*Val, hooks *rpf, globals map[types.Object]*Val) ([]*Val, error) {
	h := &rpf{env: map[types.Object]*Val{}}
	if hooks != nil {
		h.callHook, h.selHook, h.idxHook, h.stHook = hooks.callHook, hooks.selHook, hooks.idxHook, hooks.stHook
		h.multiHook, h.assertHook, h.unroll, h.maxSteps, h.effectCalls = hooks.multiHook, hooks.assertHook, hooks.unroll, hooks.maxSteps, hooks.effectCalls
		for k, v := range hooks.env {
			h.env[k] = v
		}
	}
	for k, v := range globals {
		h.env[k] = v
	}
	return c.rpfCall(fd, p, args, h)
}

// rpfCallMulti folds fd with a hook that supplies the results of multi-value calls (e.g. a scripted bit source).
func (c *Ctx) rpfCallMulti(fd *ast.FuncDecl, p *packages.Package, args []*Val, hooks *rpf, multi func(call *ast.CallExpr, callee types.Object) ([]*Val, bool)) ([]*Val, error) {
	h := &rpf{env: map[types.Object]*Val{}, multiHook: multi}
	if hooks != nil {
		h.callHook, h.selHook, h.idxHook, h.stHook = hooks.callHook, hooks.selHook, hooks.idxHook, hooks.stHook
		for k, v := range hooks.env {
			h.env[k] = v
		}
	}
	return c.rpfCall(fd, p, args, h)
}

// stdPure folds calls of math/bits functions, strconv.Itoa and the min / max builtins on constant integer arguments.
func (r *rpf) stdPure(x *ast.CallExpr, callee types.Object) (*Val, bool) {
	ints := func() ([]int64, bool) {
		var out []int64
		for _, a := range x.Args {
			v := r.expr(a)
			if v.K != VInt {
				return nil, false
			}
			out = append(out, v.I)
		}
		return out, true
	}
	if b, ok := callee.(*types.Builtin); ok && (b.Name() == "min" || b.Name() == "max") && len(x.Args) >= 1 {
		xs, ok := ints()
		if !ok {
			return nil, false
		}
		m := xs[0]
		for _, v := range xs[1:] {
			if (v < m) == (b.Name() == "min") {
				m = v
			}
		}
		return r.wrap(vint(m), r.p.TypesInfo.TypeOf(x)), true
	}
	fn, ok := callee.(*types.Func)
	if !ok || fn.Pkg() == nil {
		return nil, false
	}
	switch fn.Pkg().Path() {
	case "math/bits":
		xs, ok := ints()
		if !ok || len(xs) != 1 {
			return nil, false
		}
		u := uint64(xs[0])
		width := 64
		for _, w := range []int{8, 16, 32, 64} {
			if strings.HasSuffix(fn.Name(), fmt.Sprint(w)) {
				width = w
			}
		}
		if width < 64 {
			u &= 1<<uint(width) - 1
		}
		name := strings.TrimRight(fn.Name(), "0123456789")
		res := int64(-1)
		switch name {
		case "Reverse":
			res = int64(bits.Reverse64(u) >> uint(64-width))
		case "OnesCount":
			res = int64(bits.OnesCount64(u))
		case "TrailingZeros":
			if u == 0 {
				res = int64(width)
			} else {
				res = int64(bits.TrailingZeros64(u))
			}
		case "LeadingZeros":
			res = int64(bits.LeadingZeros64(u)) - int64(64-width)
		case "Len":
			res = int64(bits.Len64(u))
		case "ReverseBytes":
			res = int64(bits.ReverseBytes64(u) >> uint(64-width))
		}
		if res < 0 {
			return nil, false
		}
		return r.wrap(vint(res), r.p.TypesInfo.TypeOf(x)), true
	case "strings":
		if len(x.Args) == 2 {
			a, b := r.expr(x.Args[0]), r.expr(x.Args[1])
			if a.K == VStr && b.K == VStr {
				switch fn.Name() {
				case "Index":
					return vint(int64(strings.Index(a.S, b.S))), true
				case "Contains":
					return vbool(strings.Contains(a.S, b.S)), true
				case "HasPrefix":
					return vbool(strings.HasPrefix(a.S, b.S)), true
				case "HasSuffix":
					return vbool(strings.HasSuffix(a.S, b.S)), true
				}
			}
			if a.K == VStr && b.K == VInt {
				switch fn.Name() {
				case "IndexByte":
					return vint(int64(strings.IndexByte(a.S, byte(b.I)))), true
				case "IndexRune":
					return vint(int64(strings.IndexRune(a.S, rune(b.I)))), true
				}
			}
		}
	case "unicode":
		if xs, ok := ints(); ok && len(xs) == 1 {
			switch fn.Name() {
			case "IsDigit":
				return vbool(unicode.IsDigit(rune(xs[0]))), true
			case "IsLetter":
				return vbool(unicode.IsLetter(rune(xs[0]))), true
			case "IsUpper":
				return vbool(unicode.IsUpper(rune(xs[0]))), true
			case "IsLower":
				return vbool(unicode.IsLower(rune(xs[0]))), true
			case "IsSpace":
				return vbool(unicode.IsSpace(rune(xs[0]))), true
			}
		}
	case "strconv":
		if fn.Name() == "Itoa" {
			if xs, ok := ints(); ok && len(xs) == 1 {
				return vstr(strconv.Itoa(int(xs[0]))), true
			}
		}
	}
	return nil, false
}

// mapKeyString gives the key under which a fold-local map holds the entry of a folded key.
func mapKeyString(k *Val) (string, bool) {
	switch k.K {
	case VInt:
		return fmt.Sprint(k.I), true
	case VStr:
		return k.S, true
	}
	return "", false
}

// mapEntries lists the entries of a modelled map in key order (nil keys: not representable).
func mapEntries(m *Val, mt *types.Map) (keys, vals []*Val) {
	if m.K == VList {
		idx := make([]int, len(m.MapKeys))
		for i := range idx {
			idx[i] = i
			if m.MapKeys[i].K != VInt && m.MapKeys[i].K != VStr {
				return nil, m.L
			}
		}
		sort.Slice(idx, func(a, b int) bool {
			ka, kb := m.MapKeys[idx[a]], m.MapKeys[idx[b]]
			if ka.K == VInt {
				return ka.I < kb.I
			}
			return ka.S < kb.S
		})
		for _, i := range idx {
			keys, vals = append(keys, m.MapKeys[i]), append(vals, m.L[i])
		}
		return
	}
	basic, _ := mt.Key().Underlying().(*types.Basic)
	if basic == nil {
		for _, v := range m.Fields {
			vals = append(vals, v)
		}
		return nil, vals
	}
	var names []string
	for k := range m.Fields {
		names = append(names, k)
	}
	if basic.Info()&types.IsInteger != 0 {
		sort.Slice(names, func(a, b int) bool {
			x, _ := strconv.ParseInt(names[a], 10, 64)
			y, _ := strconv.ParseInt(names[b], 10, 64)
			return x < y
		})
		for _, n := range names {
			x, _ := strconv.ParseInt(n, 10, 64)
			keys, vals = append(keys, &Val{K: VInt, I: x, T: mt.Key()}), append(vals, m.Fields[n])
		}
		return
	}
	if basic.Info()&types.IsString != 0 {
		sort.Strings(names)
		for _, n := range names {
			keys, vals = append(keys, &Val{K: VStr, S: n, T: mt.Key()}), append(vals, m.Fields[n])
		}
		return
	}
	for _, n := range names {
		vals = append(vals, m.Fields[n])
	}
	return nil, vals
}

// pkgVarByFold folds the initialiser of a package variable that is an immediately invoked function literal
// (a table built at start-up); the value is shared state, not storage of the fold.
func (r *rpf) pkgVarByFold(obj types.Object) *Val {
	if r.c.iifeVals == nil {
		r.c.iifeVals = map[types.Object]*Val{}
	}
	if v, ok := r.c.iifeVals[obj]; ok {
		return v
	}
	r.c.iifeVals[obj] = nil // (a cycle gives up)
	init, ip := r.c.varInitOfObj(obj)
	call, ok := ast.Unparen(init).(*ast.CallExpr)
	if !ok || len(call.Args) != 0 || ip == nil {
		return nil
	}
	if _, isLit := ast.Unparen(call.Fun).(*ast.FuncLit); !isLit {
		return nil
	}
	sub := &rpf{c: r.c, p: ip, env: map[types.Object]*Val{}, unroll: 4096, effectCalls: true}
	v, err := sub.tryExpr(init)
	if err != nil || v == nil {
		return nil
	}
	v.Local = false
	r.c.iifeVals[obj] = v
	return v
}
