package main

import (
	"fmt"
	"go/ast"
	"go/token"
	"go/types"
	"os"
	"strconv"
	"strings"

	"golang.org/x/tools/go/packages"
	"golang.org/x/tools/go/types/typeutil"
)

func init() {
	registerProp("C10", "Check digits and checksums are computed, demanded and enforced", checkC10)
}

func checkC10(c *Ctx, r *Report) {
	checkSharedStores(c, r, "oned", 10) // check-digit computations use no shared scratch state (also C18)

	checkUPCTables(c, r)
	checkMod10(c, r)
	checkUPCEUses(c, r)
	checkUPCEExpand(c, r)
	checkUPCEParityLookup(c, r)
	checkUPCEANReaderEnforces(c, r)
	checkUPCEANWritersEnforce(c, r)
	checkCode128Checksum(c, r)
	checkCode93Checksum(c, r)
	checkExtensions(c, r)
	checkCode39Constructors(c, r)
	checkCode39CheckChar(c, r)
	checkExtensionHistory(c, r)
	checkExt5Parity(c, r)
	checkCode128ReaderTotal(c, r) // the mod-103 test on scripted symbols: valid ones are read whatever their check value, off-by-one ones refused (also C06)
	checkUPCDigitLoops(c, r)
	r.Note("not decided: that every single substitution is caught (a property of the code's minimum distance over all symbols); zero-suppression inverse beyond the expansion table")
}

// ---- tables ----

var refEANL = [10][4]int64{{3, 2, 1, 1}, {2, 2, 2, 1}, {2, 1, 2, 2}, {1, 4, 1, 1}, {1, 1, 3, 2}, {1, 2, 3, 1}, {1, 1, 1, 4}, {1, 3, 1, 2}, {1, 2, 1, 3}, {3, 1, 1, 2}}

// EAN-13 first digit -> parity of the six left digits (1 = G/even), most significant = first digit
var refEAN13First = [10]int64{0x00, 0x0B, 0x0D, 0x0E, 0x13, 0x19, 0x1C, 0x15, 0x16, 0x1A}

// UPC-E: number system 0, check digit d -> parity pattern; number system 1 is the complement
var refUPCEParity0 = [10]int64{0x38, 0x34, 0x32, 0x31, 0x2C, 0x26, 0x23, 0x2A, 0x29, 0x25}

// EAN-5 add-on: check value -> parity pattern
var refEAN5Parity = [10]int64{0x18, 0x14, 0x12, 0x11, 0x0C, 0x06, 0x03, 0x0A, 0x09, 0x05}

func checkIntTable(c *Ctx, r *Report, rule, rel, name string, want [][]int64) {
	init, p := c.varInit(rel, name)
	key := rel + "." + name
	if init == nil {
		r.AnchorLost(rule, key, "table not found")
		return
	}
	r.Analysed(key)
	v := c.eval(p, init)
	if v.K != VList {
		r.Undecided(rule, key, c.pos(init.Pos()), "not a literal table")
		return
	}
	bad := ""
	if len(v.L) != len(want) {
		bad = fmt.Sprintf("%d rows, expected %d", len(v.L), len(want))
	}
	for i := 0; i < len(v.L) && i < len(want) && bad == ""; i++ {
		var xs []int64
		if v.L[i].isInt() {
			xs = []int64{v.L[i].I}
		} else if l, ok := v.L[i].ints(); ok {
			xs = l
		} else {
			bad = fmt.Sprintf("row %d is not constant", i)
			break
		}
		if len(xs) != len(want[i]) {
			bad = fmt.Sprintf("row %d = %v, standard %v", i, xs, want[i])
			break
		}
		for j := range xs {
			if xs[j] != want[i][j] {
				bad = fmt.Sprintf("row %d = %v, standard %v", i, xs, want[i])
			}
		}
	}
	r.Check(bad == "", rule, key, c.pos(init.Pos()), bad)
}

func rows1(xs []int64) [][]int64 {
	var out [][]int64
	for _, x := range xs {
		out = append(out, []int64{x})
	}
	return out
}

func checkUPCTables(c *Ctx, r *Report) {
	r.Rule("T-UPCEAN", "UPC/EAN literal tables equal the GS1 General Specifications: L patterns, guard patterns, EAN-13 first-digit parities, UPC-E number-system/check-digit parities (system 1 = complement of system 0), EAN-5 check parities; the G patterns are built in init() as the reversed L patterns", 9)
	var l [][]int64
	for _, row := range refEANL {
		l = append(l, row[:])
	}
	checkIntTable(c, r, "T-UPCEAN", "oned", "UPCEANReader_L_PATTERNS", l)
	checkIntTable(c, r, "T-UPCEAN", "oned", "UPCEANReader_START_END_PATTERN", rows1([]int64{1, 1, 1}))
	checkIntTable(c, r, "T-UPCEAN", "oned", "UPCEANReader_MIDDLE_PATTERN", rows1([]int64{1, 1, 1, 1, 1}))
	checkIntTable(c, r, "T-UPCEAN", "oned", "UPCEANReader_END_PATTERN", rows1([]int64{1, 1, 1, 1, 1, 1}))
	checkIntTable(c, r, "T-UPCEAN", "oned", "upce_MIDDLE_END_PATTERN", rows1([]int64{1, 1, 1, 1, 1, 1}))
	checkIntTable(c, r, "T-UPCEAN", "oned", "extensionStartPattern", rows1([]int64{1, 1, 2}))
	checkIntTable(c, r, "T-UPCEAN", "oned", "ean13Reader_FIRST_DIGIT_ENCODINGS", rows1(refEAN13First[:]))
	checkIntTable(c, r, "T-UPCEAN", "oned", "checkDigitEncodings", rows1(refEAN5Parity[:]))
	var sys1 []int64
	for _, x := range refUPCEParity0 {
		sys1 = append(sys1, 0x3F^x)
	}
	checkIntTable(c, r, "T-UPCEAN", "oned", "upce_NUMSYS_AND_CHECK_DIGIT_PATTERNS", [][]int64{refUPCEParity0[:], sys1})
	checkLAndGInit(c, r)
}

// init(): L_AND_G = make(20); copy(L_AND_G, L); for i in 10..19: L_AND_G[i] = reverse(L[i-10])
func checkLAndGInit(c *Ctx, r *Report) {
	key := "oned.init.UPCEANReader_L_AND_G_PATTERNS"
	p := c.pkg("oned")
	if p == nil {
		r.AnchorLost("T-UPCEAN", key, "package not found")
		return
	}
	lg := c.lookupObj("oned", "UPCEANReader_L_AND_G_PATTERNS")
	lp := c.lookupObj("oned", "UPCEANReader_L_PATTERNS")
	var fd *ast.FuncDecl
	for _, f := range p.Syntax {
		for _, d := range f.Decls {
			if x, ok := d.(*ast.FuncDecl); ok && x.Name.Name == "init" && x.Recv == nil {
				uses := false
				ast.Inspect(x, func(n ast.Node) bool {
					if id, ok := n.(*ast.Ident); ok && p.TypesInfo.Uses[id] == lg {
						uses = true
					}
					return true
				})
				if uses {
					fd = x
				}
			}
		}
	}
	if fd == nil || lg == nil || lp == nil {
		r.AnchorLost("T-UPCEAN", key, "init() building the L-and-G table not found")
		return
	}
	r.Analysed(key)
	// the whole initialiser folded: whatever its loops look like, the table it leaves behind is compared with the
	// reference (L patterns followed by their reversals); the shape matcher below is the fallback
	if lpInit, lpp := c.varInitOfObj(lp); lpInit != nil {
		env := map[types.Object]*Val{lp: c.eval(lpp, lpInit), lg: {K: VNil}}
		rr := &rpf{c: c, p: p, env: env, unroll: 1000, curFn: fd}
		var ferr error
		func() {
			defer func() {
				if x := recover(); x != nil {
					if re, ok := x.(*rpfErr); ok {
						ferr = re
						return
					}
					panic(x)
				}
			}()
			rr.block(fd.Body.List)
		}()
		if ferr == nil && env[lg] != nil && env[lg].K == VList {
			bad := ""
			if len(env[lg].L) != 20 {
				bad = fmt.Sprintf("the table has %d rows, expected the 10 L and the 10 G patterns", len(env[lg].L))
			}
			for i := 0; i < 20 && bad == ""; i++ {
				row, ok := listInts(env[lg].L[i])
				if !ok || len(row) != 4 {
					bad = fmt.Sprintf("row %d is not four widths", i)
					break
				}
				for j := 0; j < 4; j++ {
					want := refEANL[i%10][j]
					if i >= 10 {
						want = refEANL[i-10][3-j]
					}
					if row[j] != want {
						bad = fmt.Sprintf("row %d (%s pattern of digit %d): element %d = %d, expected %d", i, map[bool]string{false: "L", true: "G"}[i >= 10], i%10, j, row[j], want)
					}
				}
			}
			r.Check(bad == "", "T-UPCEAN", key, c.pos(fd.Pos()), bad)
			return
		}
		if os.Getenv("GZ_DEBUG") != "" {
			fmt.Fprintln(os.Stderr, "T-UPCEAN init fold:", ferr, env[lg])
		}
	}
	bad := ""
	// make(.., 20) and copy(LG, L)
	okMake, okCopy := false, false
	var outer *ast.ForStmt
	for _, st := range fd.Body.List {
		switch x := st.(type) {
		case *ast.AssignStmt:
			if id, ok := x.Lhs[0].(*ast.Ident); ok && p.TypesInfo.Uses[id] == lg {
				if call, ok := x.Rhs[0].(*ast.CallExpr); ok && len(call.Args) == 2 {
					if n, ok := constInt(p, call.Args[1]); ok && n == 20 {
						okMake = true
					}
				}
			}
		case *ast.ExprStmt:
			if call, ok := x.X.(*ast.CallExpr); ok && len(call.Args) == 2 {
				if id, ok := call.Fun.(*ast.Ident); ok && id.Name == "copy" {
					if identObj(p, call.Args[0]) == lg && identObj(p, call.Args[1]) == lp {
						okCopy = true
					}
				}
			}
		case *ast.ForStmt:
			outer = x
		}
	}
	if !okMake || !okCopy || outer == nil {
		bad = "expected make(.., 20); copy(L_AND_G, L_PATTERNS); for i := 10..19"
	}
	if bad == "" {
		or, ok := loopVarRange(p, outer)
		var inner *ast.ForStmt
		for _, st := range outer.Body.List {
			if f, ok := st.(*ast.ForStmt); ok {
				inner = f
			}
		}
		if !ok || or.lo != 10 || or.hi != 20 || inner == nil {
			bad = "outer loop is not i = 10..19 with an inner reversal loop"
		} else {
			as, _ := inner.Init.(*ast.AssignStmt)
			var jv types.Object
			if as != nil && len(as.Lhs) == 1 {
				jv = p.TypesInfo.Defs[as.Lhs[0].(*ast.Ident)]
			}
			// the store after the inner loop
			var revObj types.Object
			for _, st := range outer.Body.List {
				if x, ok := st.(*ast.AssignStmt); ok && len(x.Lhs) == 1 {
					if ix, ok := x.Lhs[0].(*ast.IndexExpr); ok && identObj(p, ix.X) == lg && identObj(p, ix.Index) == or.v {
						revObj = identObj(p, x.Rhs[0])
					}
				}
			}
			if jv == nil || revObj == nil {
				bad = "L_AND_G[i] = reversed row store not found"
			}
			for i := int64(10); i < 20 && bad == ""; i++ {
				got := map[int64]int64{}
				for j := int64(0); j < 4; j++ {
					env := map[types.Object]*Val{or.v: vint(i), jv: vint(j)}
					hooks := &rpf{stHook: func(rr *rpf, lhs ast.Expr, v *Val) bool {
						ix, ok := lhs.(*ast.IndexExpr)
						if !ok || identObj(p, ix.X) != revObj {
							return false
						}
						iv := rr.expr(ix.Index)
						got[iv.I] = v.I
						return true
					}}
					if err := foldLoopBodies(c, p, env, hooks, outer, inner); err != nil {
						bad = "?" + err.Error()
						break
					}
				}
				for j := int64(0); j < 4 && bad == ""; j++ {
					if got[j] != refEANL[i-10][3-j] {
						bad = fmt.Sprintf("G pattern of digit %d: element %d = %d, expected %d (L pattern reversed)", i-10, j, got[j], refEANL[i-10][3-j])
					}
				}
			}
		}
	}
	if bad != "" && bad[0] == '?' {
		r.Undecided("T-UPCEAN", key, c.pos(fd.Pos()), bad)
		return
	}
	r.Check(bad == "", "T-UPCEAN", key, c.pos(fd.Pos()), bad)
}

// ---- weighted digit sums ----

type weightedSum struct {
	weights  map[int64]int64 // start offset from the end (1 = last char) -> weight; stride 2 downwards
	retKind  string          // "neg" = (M - sum) % 10 with M multiple of 10 >= bound, "pos" = sum % 10
	problems []string
	digitOK  bool
}

// liftWeightedSum recognises `for i := len-a; i >= 0; i -= 2 { acc += digit(s[i]) }` interleaved with `acc *= k`.
func liftWeightedSum(c *Ctx, fd *ast.FuncDecl, p *packages.Package, strParam types.Object) (*weightedSum, string) {
	s := c.symFunc(fd, p, func(o types.Object) bool { return isFuncNamed(o, "", "NewFormatException") })
	ws := &weightedSum{weights: map[int64]int64{}}
	lenS := polyAtom("len(" + polyAtom(objAtom(strParam)).String() + ")")
	// substitute: a local `length := len(s)` shows up as that atom already (assignment is transparent)
	var acc types.Object
	type item struct {
		off   int64
		scale int64
		isMul bool
	}
	var items []item
	for _, a := range s.assigns {
		if a.Tok == token.ADD_ASSIGN && a.Loop == 1 && a.Delta != nil {
			// Delta must be idx(s, len - off - 2K) - 48
			str := a.Delta.String()
			ks := atomsWithPrefix(str, "K~")
			if len(ks) != 1 {
				continue
			}
			K := polyAtom(ks[0])
			matched := false
			for off := int64(1); off <= 3; off++ {
				idx := lenS.sub(polyInt(off)).sub(K.mul(polyInt(2)))
				want := polyAtom("idx(" + polyAtom(objAtom(strParam)).String() + "," + idx.String() + ")").sub(polyInt(48))
				if a.Delta.equal(want) {
					if acc == nil {
						acc = a.Obj
					}
					if acc == a.Obj {
						items = append(items, item{off: off})
						matched = true
					}
				}
			}
			if !matched && acc != nil && a.Obj == acc {
				ws.problems = append(ws.problems, "unrecognised accumulation "+prettyPoly(a.Delta))
			}
		}
		if a.Tok == token.MUL_ASSIGN && a.Loop == 0 && a.Delta != nil && acc != nil && a.Obj == acc {
			if k, ok := a.Delta.isConst(); ok && k.IsInt() {
				items = append(items, item{isMul: true, scale: k.Num().Int64()})
			} else {
				ws.problems = append(ws.problems, "non-constant scale")
			}
		}
	}
	if acc == nil {
		return nil, "no digit accumulation `acc += s[i] - '0'` found"
	}
	for i, it := range items {
		if it.isMul {
			continue
		}
		w := int64(1)
		for _, later := range items[i+1:] {
			if later.isMul {
				w *= later.scale
			}
		}
		ws.weights[it.off] += w
	}
	// loop conditions: i >= 0 (all the way to the first character) — checked through the cond stack of the accumulations
	for _, a := range s.assigns {
		if a.Obj == acc && a.Tok == token.ADD_ASSIGN && a.Loop == 1 {
			okc := false
			for _, cd := range a.Conds {
				if l, _, strict, ok := cd.lessForm(); ok && !strict { // 0 <= i
					if z, ok := l.isConst(); ok && z.Sign() == 0 {
						okc = true
					}
				}
			}
			if !okc {
				ws.problems = append(ws.problems, "summing loop does not run down to index 0")
			}
		}
	}
	// return value
	accA := s.env[acc]
	for _, rt := range s.rets {
		if len(rt.Vals) == 0 || accA == nil {
			continue
		}
		v := rt.Vals[0]
		if v.equal(polyAtom("mod(" + accA.String() + ",10)")) {
			ws.retKind = "pos"
		}
		for _, m := range []int64{1000, 10000, 100000} {
			if v.equal(polyAtom("mod(" + polyInt(m).sub(accA).String() + ",10)")) {
				ws.retKind = "neg"
			}
		}
	}
	return ws, ""
}

func checkMod10(c *Ctx, r *Report) {
	defer checkChecksumFunctionsWhole(c, r) // the whole-function folds that decide when the matcher below does not recognise the code
	r.Rule("S-MOD10", "upceanReader_getStandardUPCEANChecksum weighs the digits 3,1,3,1.. from the right and returns (multiple of 10 - sum) mod 10; checkStandardUPCEANChecksum compares that value of s[:len-1] with the last digit; the EAN-5 add-on checksum weighs 3,9,3,9,3 from the right and returns sum mod 10; non-digits are rejected", 4)
	if fd, p := c.funcDeclOf("oned", "upceanReader_getStandardUPCEANChecksum"); fd != nil {
		key := "oned.upceanReader_getStandardUPCEANChecksum"
		r.Analysed(key)
		ws, why := liftWeightedSum(c, fd, p, paramObjs(p, fd)[0])
		if ws == nil {
			r.Undecided("S-MOD10", key, c.pos(fd.Pos()), why)
		} else {
			ok := len(ws.problems) == 0 && len(ws.weights) == 2 && ws.weights[1] == 3 && ws.weights[2] == 1 && ws.retKind == "neg"
			r.Check(ok, "S-MOD10", key, c.pos(fd.Pos()), fmt.Sprintf("weights by start offset from the right %v (standard: last digit 3, next 1, alternating), result form %q (standard: (1000 - sum) %% 10), problems %v", ws.weights, ws.retKind, ws.problems))
		}
		// digit validation: every accumulation is preceded by a `digit < 0 || digit > 9 -> error` exit
		okDigits := 0
		ast.Inspect(fd.Body, func(n ast.Node) bool {
			f, ok := n.(*ast.ForStmt)
			if !ok {
				return true
			}
			for i, st := range f.Body.List {
				if as, ok := st.(*ast.AssignStmt); ok && as.Tok == token.ADD_ASSIGN {
					dv := identObj(p, as.Rhs[0])
					for _, prev := range f.Body.List[:i] {
						if ifs, ok := prev.(*ast.IfStmt); ok && terminates(ifs.Body.List) && dv != nil {
							good := true
							for _, t := range []struct {
								v    int64
								want bool
							}{{-1, true}, {0, false}, {9, false}, {10, true}, {200, true}} {
								v, err := c.rpfExpr(p, ifs.Cond, map[types.Object]*Val{dv: vint(t.v)}, nil)
								if err != nil || v.K != VBool || v.B != t.want {
									good = false
								}
							}
							if good {
								okDigits++
							}
						}
					}
				}
			}
			return true
		})
		r.Check(okDigits == 2, "S-MOD10", key+".digits-only", c.pos(fd.Pos()), "each summing loop must reject characters outside '0'..'9' before adding them")
	} else {
		r.AnchorLost("S-MOD10", "oned.upceanReader_getStandardUPCEANChecksum", "function not found")
	}
	if fd, p := c.funcDeclOf("oned", "upceanReader_checkStandardUPCEANChecksum"); fd != nil {
		key := "oned.upceanReader_checkStandardUPCEANChecksum"
		r.Analysed(key)
		sp := paramObjs(p, fd)[0]
		s := c.symFunc(fd, p, func(o types.Object) bool { return true })
		sA := polyAtom(objAtom(sp))
		lenS := polyAtom("len(" + sA.String() + ")")
		check := polyAtom("idx(" + sA.String() + "," + lenS.sub(polyInt(1)).String() + ")").sub(polyInt(48))
		ok := false
		for _, rt := range s.rets {
			if len(rt.Vals) != 2 {
				continue
			}
			txt := rt.Vals[0].String()
			// (sum == check) where sum = call:get(...s[:len-1]...)
			if len(txt) > 2 && txt[0] == '(' && txt[len(txt)-1] == ')' {
				parts := strings.Split(txt[1:len(txt)-1], " == ")
				if len(parts) == 2 {
					isCall := func(x string) bool {
						return strings.HasPrefix(x, "call:oned.upceanReader_getStandardUPCEANChecksum(") && strings.HasSuffix(x, ")") && !strings.ContainsAny(x, "|&<>!")
					}
					if (isCall(parts[0]) && parts[1] == check.String()) || (isCall(parts[1]) && parts[0] == check.String()) {
						ok = true
					}
				}
			}
		}
		// argument is s[:len-1]
		argOK := false
		for _, call := range findCalls(p, fd.Body, func(o types.Object) bool { return isFuncNamed(o, "oned", "upceanReader_getStandardUPCEANChecksum") }) {
			if se, isS := call.Args[0].(*ast.SliceExpr); isS && se.Low == nil && identObj(p, se.X) == sp && se.High != nil {
				sx := c.newSymExec(p)
				// bind locals
				for _, st := range fd.Body.List {
					if as, ok := st.(*ast.AssignStmt); ok && as.Tok == token.DEFINE {
						sx.stmt(as)
					}
					if !wholeBefore(st, call) {
						break
					}
				}
				if sx.expr(se.High).equal(lenS.sub(polyInt(1))) {
					argOK = true
				}
			}
		}
		// errors from the sum are propagated
		r.Check(ok && argOK, "S-MOD10", key, c.pos(fd.Pos()), "must return getStandardUPCEANChecksum(s[:len-1]) == int(s[len-1]-'0')")
	} else {
		r.AnchorLost("S-MOD10", "oned.upceanReader_checkStandardUPCEANChecksum", "function not found")
	}
	if fd, p := c.funcDeclOf("oned", "UPCEANExtension5Support.extensionChecksum"); fd != nil {
		key := "oned.UPCEANExtension5Support.extensionChecksum"
		r.Analysed(key)
		ws, why := liftWeightedSum(c, fd, p, paramObjs(p, fd)[0])
		if ws == nil {
			// not the two-loop weighted sum the lifting knows: the add-on has only 5 digits, fold all 100000 strings
			bad := ""
			for n := 0; n < 100000 && bad == ""; n++ {
				str := fmt.Sprintf("%05d", n)
				res, err := c.rpfCall(fd, p, []*Val{vstr(str)}, &rpf{unroll: 100})
				if err != nil {
					bad = "?" + why + "; and the body does not fold: " + err.Error()
					break
				}
				d := func(i int) int64 { return int64(str[i] - '0') }
				want := (3*(d(0)+d(2)+d(4)) + 9*(d(1)+d(3))) % 10
				if len(res) != 1 || res[0].K != VInt || res[0].I != want {
					bad = fmt.Sprintf("extensionChecksum(%q) folds to %v, the EAN-5 check value (weights 3,9,3,9,3, modulo 10) is %d", str, res, want)
				}
			}
			reportFold(r, c, "S-MOD10", key, fd.Pos(), bad)
		} else {
			ok := len(ws.problems) == 0 && len(ws.weights) == 2 && ws.weights[1] == 3 && ws.weights[2] == 9 && ws.retKind == "pos"
			r.Check(ok, "S-MOD10", key, c.pos(fd.Pos()), fmt.Sprintf("weights by start offset from the right %v (standard: 3 for the 1st/3rd/5th digit, 9 for the 2nd/4th), result form %q (standard: sum %% 10), problems %v", ws.weights, ws.retKind, ws.problems))
		}
	} else {
		r.AnchorLost("S-MOD10", "oned.UPCEANExtension5Support.extensionChecksum", "method not found")
	}
}

// ---- UPC-E: checksum always on the expanded number ----

func checkUPCEUses(c *Ctx, r *Report) {
	r.Rule("S-UPCE", "in the UPC-E writer and reader every checksum computation or verification receives convertUPCEtoUPCA(number): all sites must agree (a site that passes the compressed number computes a different digit)", 3)
	p := c.pkg("oned")
	if p == nil {
		r.AnchorLost("S-UPCE", "oned", "package not found")
		return
	}
	isChk := func(o types.Object) bool {
		return isFuncNamed(o, "oned", "upceanReader_getStandardUPCEANChecksum") || isFuncNamed(o, "oned", "upceanReader_checkStandardUPCEANChecksum") || isFuncNamed(o, "oned", "upceanReader_checkChecksum")
	}
	for _, f := range p.Syntax {
		for _, d := range f.Decls {
			fd, ok := d.(*ast.FuncDecl)
			if !ok || fd.Recv == nil || fd.Body == nil {
				continue
			}
			rt := ""
			t := fd.Recv.List[0].Type
			if st, ok := t.(*ast.StarExpr); ok {
				t = st.X
			}
			if id, ok := t.(*ast.Ident); ok {
				rt = id.Name
			}
			if rt != "upcEEncoder" && rt != "upcEReader" {
				continue
			}
			ords := 0
			for _, call := range findCalls(p, fd.Body, isChk) {
				key := fmt.Sprintf("%s:%s#%d", fdKey(p, fd), typeutil.Callee(p.TypesInfo, call).Name(), ords)
				ords++
				ok := false
				if len(call.Args) == 1 {
					if inner, isCall := ast.Unparen(call.Args[0]).(*ast.CallExpr); isCall && isFuncNamed(typeutil.Callee(p.TypesInfo, inner), "oned", "convertUPCEtoUPCA") {
						ok = true
					}
				}
				r.Check(ok, "S-UPCE", key, c.pos(call.Pos()), "UPC-E check digit computed/verified on the compressed number; the standard defines it on the expanded UPC-A number (convertUPCEtoUPCA)")
			}
		}
	}
}

func refUPCEExpand(s string) string {
	d := s[1:7]
	var mid string
	switch d[5] {
	case '0', '1', '2':
		mid = d[0:2] + string(d[5]) + "0000" + d[2:5]
	case '3':
		mid = d[0:3] + "00000" + d[3:5]
	case '4':
		mid = d[0:4] + "00000" + d[4:5]
	default:
		mid = d[0:5] + "0000" + string(d[5])
	}
	out := s[0:1] + mid
	if len(s) >= 8 {
		out += s[7:8]
	}
	return out
}

func checkUPCEExpand(c *Ctx, r *Report) {
	r.Rule("T-UPCEEXPAND", "convertUPCEtoUPCA folded on representative numbers for each of the 10 last-digit classes, both number systems, with and without check digit, equals the GS1 zero-suppression expansion", 40)
	fd, p := c.funcDeclOf("oned", "convertUPCEtoUPCA")
	if fd == nil {
		r.AnchorLost("T-UPCEEXPAND", "oned.convertUPCEtoUPCA", "function not found")
		return
	}
	r.Analysed("oned.convertUPCEtoUPCA")
	fills := []string{"12345", "98765", "70819"}
	for ns := 0; ns < 2; ns++ {
		for last := 0; last < 10; last++ {
			for _, withCheck := range []bool{false, true} {
				key := fmt.Sprintf("oned.convertUPCEtoUPCA(ns=%d,last=%d,check=%v)", ns, last, withCheck)
				bad := ""
				for _, fl := range fills {
					in := fmt.Sprintf("%d%s%d", ns, fl, last)
					if withCheck {
						in += "6"
					}
					res, err := c.rpfCall(fd, p, []*Val{vstr(in)}, nil)
					if err != nil {
						r.Undecided("T-UPCEEXPAND", key, c.pos(fd.Pos()), err.Error())
						bad = "-"
						break
					}
					want := refUPCEExpand(in)
					if len(res) != 1 || res[0].K != VStr || res[0].S != want {
						bad = fmt.Sprintf("convertUPCEtoUPCA(%q) folds to %v, GS1 expansion is %q", in, res, want)
						break
					}
				}
				if bad != "-" {
					r.Check(bad == "", "T-UPCEEXPAND", key, c.pos(fd.Pos()), bad)
				}
			}
		}
	}
}

// ---- readers enforce ----

// retIsError: the last statement of the block returns a non-nil last result built by one of the given constructors.
func blockReturnsError(p *packages.Package, list []ast.Stmt, ctor func(types.Object) bool) bool {
	if len(list) == 0 {
		return false
	}
	rs, ok := list[len(list)-1].(*ast.ReturnStmt)
	if !ok || len(rs.Results) == 0 {
		return false
	}
	last := rs.Results[len(rs.Results)-1]
	if tv, ok := p.TypesInfo.Types[last]; ok && tv.IsNil() {
		return false
	}
	if ctor == nil {
		return true
	}
	if call, ok := last.(*ast.CallExpr); ok {
		return ctor(typeutil.Callee(p.TypesInfo, call))
	}
	return false
}

func isChecksumExc(o types.Object) bool {
	return isFuncNamed(o, "", "NewChecksumException") || isFuncNamed(o, "", "WrapChecksumException")
}

func checkUPCEANReaderEnforces(c *Ctx, r *Report) {
	r.Rule("M-CHECK-UPCEAN", "upceanReader.decodeRowWithStartRange: the Result is constructed only after this.checkChecksum(text) was called on the very string that becomes the result text, its error and its false outcome both exit with an error; each symbology's checkChecksum delegates to the mod-10 verification (UPC-E through the expansion)", 5)
	fd, p := c.funcDeclOf("oned", "upceanReader.decodeRowWithStartRange")
	key := "oned.upceanReader.decodeRowWithStartRange"
	if fd == nil {
		r.AnchorLost("M-CHECK-UPCEAN", key, "method not found")
	} else {
		r.Analysed(key)
		news := findCalls(p, fd.Body, func(o types.Object) bool { return isFuncNamed(o, "", "NewResult") })
		if len(news) != 1 {
			r.Undecided("M-CHECK-UPCEAN", key, c.pos(fd.Pos()), "expected exactly one NewResult construction")
		} else {
			nr := news[0]
			textObj := identObj(p, nr.Args[0])
			gi, _ := guardsOf(fd.Body, enclosingStmt(fd.Body, nr))
			// find `ok, e := this.checkChecksum(textObj)` among preceding statements
			var okObj, errObj types.Object
			for _, st := range gi.Preceding {
				if as, isA := st.(*ast.AssignStmt); isA && len(as.Lhs) == 2 && len(as.Rhs) == 1 {
					if call, isC := as.Rhs[0].(*ast.CallExpr); isC {
						if sel, isS := call.Fun.(*ast.SelectorExpr); isS && sel.Sel.Name == "checkChecksum" && len(call.Args) == 1 && identObj(p, call.Args[0]) == textObj && textObj != nil {
							okObj, errObj = identObj(p, as.Lhs[0]), identObj(p, as.Lhs[1])
						}
					}
				}
			}
			exitNotOK, exitErr := false, false
			for _, g := range gi.EarlyExits {
				if u, isU := ast.Unparen(g.Cond).(*ast.UnaryExpr); isU && u.Op == token.NOT && identObj(p, u.X) == okObj && okObj != nil {
					if blockReturnsError(p, g.Body.List, isChecksumExc) {
						exitNotOK = true
					}
				}
				if be, isB := ast.Unparen(g.Cond).(*ast.BinaryExpr); isB && be.Op == token.NEQ && identObj(p, be.X) == errObj && errObj != nil {
					if blockReturnsError(p, g.Body.List, nil) {
						exitErr = true
					}
				}
			}
			// textObj must not be reassigned between the check and the construction
			reassigned := false
			if textObj != nil {
				cnt := 0
				ast.Inspect(fd.Body, func(n ast.Node) bool {
					if as, ok := n.(*ast.AssignStmt); ok {
						for _, l := range as.Lhs {
							if identObj(p, l) == textObj {
								cnt++
							}
						}
					}
					return true
				})
				reassigned = cnt != 1
			}
			r.Check(okObj != nil && exitNotOK && exitErr && !reassigned, "M-CHECK-UPCEAN", key, c.pos(nr.Pos()),
				fmt.Sprintf("Result construction not dominated by checkChecksum(text) with both failure exits (call found: %v, !ok exit: %v, error exit: %v, text reassigned: %v)", okObj != nil, exitNotOK, exitErr, reassigned))
		}
	}
	// per-symbology checkChecksum bodies
	for _, t := range []struct {
		recv   string
		expand bool
	}{{"ean13Reader", false}, {"ean8Reader", false}, {"upcEReader", true}} {
		fd, p := c.funcDeclOf("oned", t.recv+".checkChecksum")
		key := "oned." + t.recv + ".checkChecksum"
		if fd == nil {
			r.AnchorLost("M-CHECK-UPCEAN", key, "method not found")
			continue
		}
		r.Analysed(key)
		ok := false
		if len(fd.Body.List) == 1 {
			if rs, isR := fd.Body.List[0].(*ast.ReturnStmt); isR && len(rs.Results) == 1 {
				if call, isC := rs.Results[0].(*ast.CallExpr); isC && len(call.Args) == 1 {
					callee := typeutil.Callee(p.TypesInfo, call)
					if isFuncNamed(callee, "oned", "upceanReader_checkChecksum") || isFuncNamed(callee, "oned", "upceanReader_checkStandardUPCEANChecksum") {
						arg := ast.Unparen(call.Args[0])
						sp := paramObjs(p, fd)[0]
						if t.expand {
							if inner, isI := arg.(*ast.CallExpr); isI && isFuncNamed(typeutil.Callee(p.TypesInfo, inner), "oned", "convertUPCEtoUPCA") && identObj(p, inner.Args[0]) == sp {
								ok = true
							}
						} else if identObj(p, arg) == sp {
							ok = true
						}
					}
				}
			}
		}
		r.Check(ok, "M-CHECK-UPCEAN", key, c.pos(fd.Pos()), "must return the mod-10 verification of its argument (UPC-E: of convertUPCEtoUPCA(argument))")
	}
	// upceanReader_checkChecksum delegates
	if fd, p := c.funcDeclOf("oned", "upceanReader_checkChecksum"); fd != nil {
		ok := false
		if len(fd.Body.List) == 1 {
			if rs, isR := fd.Body.List[0].(*ast.ReturnStmt); isR && len(rs.Results) == 1 {
				if call, isC := rs.Results[0].(*ast.CallExpr); isC && len(call.Args) == 1 && isFuncNamed(typeutil.Callee(p.TypesInfo, call), "oned", "upceanReader_checkStandardUPCEANChecksum") && identObj(p, call.Args[0]) == paramObjs(p, fd)[0] {
					ok = true
				}
			}
		}
		r.Check(ok, "M-CHECK-UPCEAN", "oned.upceanReader_checkChecksum", c.pos(fd.Pos()), "must delegate to upceanReader_checkStandardUPCEANChecksum(s)")
	} else {
		r.AnchorLost("M-CHECK-UPCEAN", "oned.upceanReader_checkChecksum", "function not found")
	}
}

// ---- writers enforce ----

func checkUPCEANWritersEnforce(c *Ctx, r *Report) {
	r.Rule("M-CHECK-WRITER", "EAN-13/EAN-8/UPC-E encodeWithHints: the full-length arm verifies the supplied check digit and returns an error when it is wrong or not computable; the short arm appends strconv.Itoa(computed digit); other lengths are errors; non-digits are rejected before bars are produced; the UPC-A writer hands \"0\" + the contents as given to the EAN-13 writer, so a supplied 12th digit is verified there", 10)
	checkUPCADelegation(c, r, "M-CHECK-WRITER")
	for _, t := range []struct {
		recv        string
		short, full int64
	}{{"ean13Encoder", 12, 13}, {"ean8Encoder", 7, 8}, {"upcEEncoder", 7, 8}} {
		fd, p := c.funcDeclOf("oned", t.recv+".encodeWithHints")
		key := "oned." + t.recv + ".encodeWithHints"
		if fd == nil {
			r.AnchorLost("M-CHECK-WRITER", key, "method not found")
			continue
		}
		r.Analysed(key)
		contents := paramObjs(p, fd)[0]
		var sw *ast.SwitchStmt
		for _, st := range fd.Body.List {
			if s, ok := st.(*ast.SwitchStmt); ok && sw == nil {
				sw = s
			}
		}
		if sw == nil {
			r.Undecided("M-CHECK-WRITER", key, c.pos(fd.Pos()), "length switch not found")
			continue
		}
		var shortCC, fullCC, defCC *ast.CaseClause
		for _, cl := range sw.Body.List {
			cc := cl.(*ast.CaseClause)
			if cc.List == nil {
				defCC = cc
			}
			for _, e := range cc.List {
				if v, ok := constInt(p, e); ok {
					if v == t.short {
						shortCC = cc
					}
					if v == t.full {
						fullCC = cc
					}
				}
			}
		}
		// full arm
		okFull := false
		if fullCC != nil {
			var okObj, errObj types.Object
			exitNotOK, exitErr := false, false
			for _, st := range fullCC.Body {
				if as, isA := st.(*ast.AssignStmt); isA && len(as.Lhs) == 2 {
					if call, isC := as.Rhs[0].(*ast.CallExpr); isC && isFuncNamed(typeutil.Callee(p.TypesInfo, call), "oned", "upceanReader_checkStandardUPCEANChecksum") {
						okObj, errObj = identObj(p, as.Lhs[0]), identObj(p, as.Lhs[1])
					}
				}
				if ifs, isI := st.(*ast.IfStmt); isI && terminates(ifs.Body.List) {
					if u, isU := ast.Unparen(ifs.Cond).(*ast.UnaryExpr); isU && u.Op == token.NOT && okObj != nil && identObj(p, u.X) == okObj && blockReturnsError(p, ifs.Body.List, nil) {
						exitNotOK = true
					}
					if be, isB := ast.Unparen(ifs.Cond).(*ast.BinaryExpr); isB && be.Op == token.NEQ && errObj != nil && identObj(p, be.X) == errObj && blockReturnsError(p, ifs.Body.List, nil) {
						exitErr = true
					}
				}
			}
			okFull = exitNotOK && exitErr
		}
		r.Check(okFull, "M-CHECK-WRITER", key+".supplied-digit", c.pos(sw.Pos()), fmt.Sprintf("the %d-character arm must verify the supplied check digit and return an error on mismatch or on a verification error", t.full))
		// short arm: contents += strconv.Itoa(check) with check from getStandard
		okShort := false
		if shortCC != nil {
			var chk, errObj types.Object
			exitErr := false
			for _, st := range shortCC.Body {
				if as, isA := st.(*ast.AssignStmt); isA && len(as.Lhs) == 2 {
					if call, isC := as.Rhs[0].(*ast.CallExpr); isC && isFuncNamed(typeutil.Callee(p.TypesInfo, call), "oned", "upceanReader_getStandardUPCEANChecksum") {
						chk, errObj = identObj(p, as.Lhs[0]), identObj(p, as.Lhs[1])
					}
				}
				if ifs, isI := st.(*ast.IfStmt); isI && terminates(ifs.Body.List) {
					if be, isB := ast.Unparen(ifs.Cond).(*ast.BinaryExpr); isB && be.Op == token.NEQ && errObj != nil && identObj(p, be.X) == errObj && blockReturnsError(p, ifs.Body.List, nil) {
						exitErr = true
					}
				}
				if as, isA := st.(*ast.AssignStmt); isA && as.Tok == token.ADD_ASSIGN && identObj(p, as.Lhs[0]) == contents && chk != nil {
					if call, isC := as.Rhs[0].(*ast.CallExpr); isC && len(call.Args) == 1 && identObj(p, call.Args[0]) == chk {
						if f, isF := typeutil.Callee(p.TypesInfo, call).(*types.Func); isF && f.Pkg().Path() == "strconv" && f.Name() == "Itoa" {
							okShort = exitErr
						}
					}
				}
			}
		}
		r.Check(okShort, "M-CHECK-WRITER", key+".computed-digit", c.pos(sw.Pos()), fmt.Sprintf("the %d-character arm must append strconv.Itoa(computed check digit) and return an error if it cannot be computed", t.short))
		okDef := defCC != nil && blockReturnsError(p, defCC.Body, nil)
		// numeric check after the switch, before any bars
		okNum := false
		for _, st := range fd.Body.List {
			if ifs, isI := st.(*ast.IfStmt); isI && ifs.Init != nil && terminates(ifs.Body.List) {
				if as, isA := ifs.Init.(*ast.AssignStmt); isA {
					if call, isC := as.Rhs[0].(*ast.CallExpr); isC && isFuncNamed(typeutil.Callee(p.TypesInfo, call), "oned", "onedWriter_checkNumeric") && identObj(p, call.Args[0]) == contents {
						okNum = st.Pos() > sw.End()
					}
				}
			}
		}
		r.Check(okDef && okNum, "M-CHECK-WRITER", key+".other-lengths-and-alphabet", c.pos(sw.Pos()), fmt.Sprintf("other lengths must be rejected (%v) and onedWriter_checkNumeric(contents) must gate the encoding after the switch (%v)", okDef, okNum))
	}
}

// ---- Code 128 ----

func checkCode128Checksum(c *Ctx, r *Report) {
	r.Rule("S-C128MOD", "Code 128: the reader accumulates start + sum(position * code), removes the check character's own contribution and rejects with a checksum error unless total mod 103 equals the check character, before constructing the Result; the writer appends pattern[(sum of index*weight) mod 103] with weights 1,1,2,3,...", 3)
	fd, p := c.funcDeclOf("oned", "code128Reader.DecodeRow")
	key := "oned.code128Reader.DecodeRow"
	if fd == nil {
		r.AnchorLost("S-C128MOD", key, "method not found")
	} else {
		r.Analysed(key)
		news := findCalls(p, fd.Body, func(o types.Object) bool { return isFuncNamed(o, "", "NewResult") })
		if len(news) != 1 {
			r.Undecided("S-C128MOD", key, c.pos(fd.Pos()), "expected exactly one NewResult construction")
		} else {
			gi, _ := guardsOf(fd.Body, enclosingStmt(fd.Body, news[0]))
			var guard *ast.IfStmt
			var sumObj, lastObj types.Object
			for _, g := range gi.EarlyExits {
				be, ok := ast.Unparen(g.Cond).(*ast.BinaryExpr)
				if !ok || be.Op != token.NEQ {
					continue
				}
				if mod, ok := ast.Unparen(be.X).(*ast.BinaryExpr); ok && mod.Op == token.REM {
					if k, ok := constInt(p, mod.Y); ok && k == 103 && blockReturnsError(p, g.Body.List, isChecksumExc) {
						guard = g
						sumObj, lastObj = identObj(p, mod.X), identObj(p, be.Y)
					}
				}
			}
			ok := guard != nil && sumObj != nil && lastObj != nil
			msg := "no dominating `if total % 103 != checkCharacter { return checksum error }` before the Result is built"
			if ok {
				// accumulation structure (syntactic, objects resolved): inside the decoding loop, guarded by
				// `code != STOP`: counter++ ; total += counter * code. After the loop: total -= counter * lastCode.
				var inLoop, after, initOK bool
				var multObj types.Object
				stop := c.lookupObj("oned", "code128CODE_STOP")
				ast.Inspect(fd.Body, func(n ast.Node) bool {
					as, isA := n.(*ast.AssignStmt)
					if !isA || len(as.Lhs) != 1 || identObj(p, as.Lhs[0]) != sumObj {
						return true
					}
					switch as.Tok {
					case token.DEFINE:
						initOK = true
					case token.ADD_ASSIGN, token.SUB_ASSIGN:
						be, isB := ast.Unparen(as.Rhs[0]).(*ast.BinaryExpr)
						if !isB || be.Op != token.MUL {
							return true
						}
						x, y := identObj(p, be.X), identObj(p, be.Y)
						gi, _ := guardsOf(fd.Body, as)
						inFor := false
						guarded := false
						var prevInc types.Object
						for _, e := range gi.Enclosing {
							if _, isF := e.Node.(*ast.ForStmt); isF {
								inFor = true
							}
							if ifs, isI := e.Node.(*ast.IfStmt); isI && e.Branch {
								if cb, isC := ast.Unparen(ifs.Cond).(*ast.BinaryExpr); isC && cb.Op == token.NEQ && identObj(p, cb.Y) == stop && (identObj(p, cb.X) == x || identObj(p, cb.X) == y) {
									guarded = true
								}
								for i, st := range ifs.Body.List {
									if st == ast.Stmt(as) && i > 0 {
										if inc, isInc := ifs.Body.List[i-1].(*ast.IncDecStmt); isInc && inc.Tok == token.INC {
											prevInc = identObj(p, inc.X)
										}
									}
								}
							}
						}
						if as.Tok == token.ADD_ASSIGN && inFor && guarded && prevInc != nil && (prevInc == x || prevInc == y) && x != y {
							inLoop = true
							multObj = prevInc
						}
						if as.Tok == token.SUB_ASSIGN && !inFor && (x == lastObj || y == lastObj) && x != y {
							after = (multObj == nil) || x == multObj || y == multObj
						}
					}
					return true
				})
				ok = inLoop && after && initOK && multObj != nil
				msg = fmt.Sprintf("checksum accumulation shape not recognised (weighted add in loop under code != STOP: %v, removal of the check character's contribution: %v, position counter incremented before use: %v)", inLoop, after, multObj != nil)
			}
			r.Check(ok, "S-C128MOD", key, c.pos(news[0].Pos()), msg)
		}
	}
	// writer
	fdw, pw := c.funcDeclOf("oned", "code128Encoder.encodeWithHints")
	keyw := "oned.code128Encoder.encodeWithHints"
	if fdw == nil {
		// the encoder may be named differently: find the function that indexes code128CODE_PATTERNS with a %= 103 variable
		for _, f := range c.pkg("oned").Syntax {
			for _, d := range f.Decls {
				if x, ok := d.(*ast.FuncDecl); ok && x.Body != nil {
					found := false
					ast.Inspect(x.Body, func(n ast.Node) bool {
						if as, ok := n.(*ast.AssignStmt); ok && as.Tok == token.REM_ASSIGN {
							if k, ok := constInt(c.pkg("oned"), as.Rhs[0]); ok && k == 103 {
								found = true
							}
						}
						return true
					})
					if found {
						fdw, pw = x, c.pkg("oned")
						keyw = fdKey(pw, x)
					}
				}
			}
		}
	}
	if fdw == nil {
		r.AnchorLost("S-C128MOD", "oned.code128 writer", "function computing `checkSum %= 103` not found")
		return
	}
	r.Analysed(keyw)
	var sumObj, wObj types.Object
	var modStmt *ast.AssignStmt
	ast.Inspect(fdw.Body, func(n ast.Node) bool {
		if as, ok := n.(*ast.AssignStmt); ok && as.Tok == token.REM_ASSIGN {
			if k, ok := constInt(pw, as.Rhs[0]); ok && k == 103 {
				sumObj = identObj(pw, as.Lhs[0])
				modStmt = as
			}
		}
		return true
	})
	okW := false
	msg := "writer checksum shape not recognised"
	if sumObj != nil {
		// checkSum += patternIndex * checkWeight ; if position != 0 { checkWeight++ } ; initial weight 1, sum 0
		var addOK, incOK, initOK, useOK bool
		ast.Inspect(fdw.Body, func(n ast.Node) bool {
			switch x := n.(type) {
			case *ast.AssignStmt:
				if x.Tok == token.ADD_ASSIGN && identObj(pw, x.Lhs[0]) == sumObj {
					if be, ok := ast.Unparen(x.Rhs[0]).(*ast.BinaryExpr); ok && be.Op == token.MUL {
						a, b := identObj(pw, be.X), identObj(pw, be.Y)
						if a != nil && b != nil {
							addOK = true
							wObj = b
							_ = a
						}
					}
				}
				if x.Tok == token.DEFINE && len(x.Lhs) == 1 {
					if o := identObj(pw, x.Lhs[0]); o == sumObj {
						if v, ok := constInt(pw, x.Rhs[0]); ok && v == 0 {
							initOK = true
						}
					}
				}
			}
			return true
		})
		// the weight variable: one of the two factors is initialised to 1 and conditionally incremented
		ast.Inspect(fdw.Body, func(n ast.Node) bool {
			if as, ok := n.(*ast.AssignStmt); ok && as.Tok == token.ADD_ASSIGN && identObj(pw, as.Lhs[0]) == sumObj {
				if be, ok := ast.Unparen(as.Rhs[0]).(*ast.BinaryExpr); ok {
					for _, cand := range []types.Object{identObj(pw, be.X), identObj(pw, be.Y)} {
						init1 := false
						inc := false
						ast.Inspect(fdw.Body, func(m ast.Node) bool {
							if d, ok := m.(*ast.AssignStmt); ok && d.Tok == token.DEFINE && len(d.Lhs) == 1 && identObj(pw, d.Lhs[0]) == cand {
								if v, ok := constInt(pw, d.Rhs[0]); ok && v == 1 {
									init1 = true
								}
							}
							if ifs, ok := m.(*ast.IfStmt); ok && len(ifs.Body.List) == 1 {
								if id, ok := ifs.Body.List[0].(*ast.IncDecStmt); ok && id.Tok == token.INC && identObj(pw, id.X) == cand {
									if cb, ok := ast.Unparen(ifs.Cond).(*ast.BinaryExpr); ok && cb.Op == token.NEQ {
										if z, ok := constInt(pw, cb.Y); ok && z == 0 {
											inc = true
										}
									}
								}
							}
							return true
						})
						if init1 && inc {
							incOK = true
							wObj = cand
						}
					}
				}
			}
			return true
		})
		// after %= 103: patterns = append(patterns, code128CODE_PATTERNS[checkSum])
		ast.Inspect(fdw.Body, func(n ast.Node) bool {
			if ix, ok := n.(*ast.IndexExpr); ok && identObj(pw, ix.Index) == sumObj && ix.Pos() > modStmt.End() {
				if identObj(pw, ix.X) == c.lookupObj("oned", "code128CODE_PATTERNS") {
					useOK = true
				}
			}
			return true
		})
		okW = addOK && incOK && initOK && useOK
		msg = fmt.Sprintf("writer checksum: weighted add %v, weight starts at 1 and stays 1 for the first data character %v, sum starts at 0 %v, pattern[checkSum %% 103] appended %v", addOK, incOK, initOK, useOK)
	}
	_ = wObj
	r.Check(okW, "S-C128MOD", keyw, c.pos(fdw.Pos()), msg)
	// STOP/START constants
	okConst := true
	for name, want := range map[string]int64{"code128CODE_STOP": 106, "code128CODE_START_A": 103, "code128CODE_START_B": 104, "code128CODE_START_C": 105, "code128CODE_CODE_A": 101, "code128CODE_CODE_B": 100, "code128CODE_CODE_C": 99, "code128CODE_SHIFT": 98, "code128CODE_FNC_1": 102, "code128CODE_FNC_2": 97, "code128CODE_FNC_3": 96} {
		if cst, ok := c.lookupObj("oned", name).(*types.Const); !ok {
			okConst = false
		} else if v, ok := constInt64(cst); !ok || v != want {
			okConst = false
		}
	}
	r.Check(okConst, "S-C128MOD", "oned.code128 code values", "", "START A/B/C = 103/104/105, STOP = 106, CODE A/B/C = 101/100/99, SHIFT = 98, FNC1..3 = 102/97/96 (ISO/IEC 15417)")
}

// ---- Code 93 ----

func checkCode93Checksum(c *Ctx, r *Report) {
	defer checkChecksumFunctionsWhole(c, r)
	r.Rule("S-C93W", "Code 93: writer and reader accumulate index*weight from the last character backwards with the weight cycling 1..max (loop body folded as a transition for every weight), reduce mod 47, use max 20 for C and 15 for K; the reader rejects a mismatch with a checksum error before the Result is built", 6)
	type side struct {
		rel, name string
	}
	foldBody := func(fd *ast.FuncDecl, p *packages.Package, key string, maxParam types.Object) {
		var loop *ast.ForStmt
		for _, st := range fd.Body.List {
			if f, ok := st.(*ast.ForStmt); ok {
				loop = f
			}
		}
		if loop == nil {
			r.Undecided("S-C93W", key, c.pos(fd.Pos()), "weight loop not found")
			return
		}
		// identify total and weight: locals initialised to 0 and 1 before the loop
		var total, weight types.Object
		for _, st := range fd.Body.List {
			if as, ok := st.(*ast.AssignStmt); ok && as.Tok == token.DEFINE && len(as.Lhs) == 1 {
				if v, ok := constInt(p, as.Rhs[0]); ok {
					if v == 0 {
						total = identObj(p, as.Lhs[0])
					}
					if v == 1 {
						weight = identObj(p, as.Lhs[0])
					}
				}
			}
		}
		if total == nil || weight == nil {
			r.Undecided("S-C93W", key, c.pos(fd.Pos()), "total := 0 / weight := 1 not found")
			return
		}
		bad := ""
		for _, max := range []int64{15, 20} {
			for w := int64(1); w <= max && bad == ""; w++ {
				for _, idx := range []int64{0, 7, 46} {
					env := map[types.Object]*Val{total: vint(1000), weight: vint(w), maxParam: vint(max)}
					if as, ok := loop.Init.(*ast.AssignStmt); ok {
						env[identObj(p, as.Lhs[0])] = vint(3)
					}
					hooks := &rpf{callHook: func(rr *rpf, call *ast.CallExpr, callee types.Object) (*Val, bool) {
						if f, ok := callee.(*types.Func); ok && f.Pkg() != nil && f.Pkg().Path() == "strings" && f.Name() == "Index" {
							return vint(idx), true
						}
						return nil, false
					}}
					if err := foldLoopBodies(c, p, env, hooks, nil, loop); err != nil {
						bad = "?" + err.Error()
						break
					}
					wantW := w + 1
					if wantW > max {
						wantW = 1
					}
					if env[total] == nil || env[total].I != 1000+idx*w || env[weight].I != wantW {
						bad = fmt.Sprintf("max %d, weight %d, character value %d: total += %d and next weight %d; expected += %d and %d", max, w, idx, env[total].I-1000, env[weight].I, idx*w, wantW)
						break
					}
				}
			}
		}
		// direction: from the last character before the check position down to 0
		dirOK := false
		if inc, ok := loop.Post.(*ast.IncDecStmt); ok && inc.Tok == token.DEC {
			if be, ok := loop.Cond.(*ast.BinaryExpr); ok && be.Op == token.LEQ { // 0 <= i (comparisons are canonicalised at load time)
				if z, ok := constInt(p, be.X); ok && z == 0 {
					dirOK = true
				}
			}
		}
		if bad == "" && !dirOK {
			bad = "the loop must run from the last character down to index 0"
		}
		if bad != "" && bad[0] == '?' {
			if whole := code93WholeFold(c, fd, p); whole != "?" {
				// the loop body is not the shape the transition matcher knows: the whole function is folded instead
				r.Check(whole == "", "S-C93W", key, c.pos(loop.Pos()), whole)
				return
			}
			r.Undecided("S-C93W", key, c.pos(loop.Pos()), bad)
			return
		}
		r.Check(bad == "", "S-C93W", key, c.pos(loop.Pos()), bad)
	}
	// writer
	if fd, p := c.funcDeclOf("oned", "code93ComputeChecksumIndex"); fd != nil {
		r.Analysed("oned.code93ComputeChecksumIndex")
		ps := paramObjs(p, fd)
		foldBody(fd, p, "oned.code93ComputeChecksumIndex.transition", ps[1])
		// returns total % 47
		okRet := false
		if rs, ok := fd.Body.List[len(fd.Body.List)-1].(*ast.ReturnStmt); ok && len(rs.Results) == 1 {
			if be, ok := ast.Unparen(rs.Results[0]).(*ast.BinaryExpr); ok && be.Op == token.REM {
				if k, ok := constInt(p, be.Y); ok && k == 47 {
					okRet = true
				}
			}
		}
		r.Check(okRet, "S-C93W", "oned.code93ComputeChecksumIndex.mod47", c.pos(fd.Pos()), "must return total % 47")
	} else {
		r.AnchorLost("S-C93W", "oned.code93ComputeChecksumIndex", "function not found")
	}
	// writer's use: check1 with 20 on contents; contents += alphabet[check1]; check2 with 15
	if p := c.pkg("oned"); p != nil {
		var maxes []int64
		var where *ast.FuncDecl
		for _, f := range p.Syntax {
			for _, d := range f.Decls {
				fd, ok := d.(*ast.FuncDecl)
				if !ok || fd.Body == nil {
					continue
				}
				calls := findCalls(p, fd.Body, func(o types.Object) bool { return isFuncNamed(o, "oned", "code93ComputeChecksumIndex") })
				if len(calls) > 0 {
					where = fd
					for _, cl := range calls {
						if v, ok := constInt(p, cl.Args[1]); ok {
							maxes = append(maxes, v)
						}
					}
				}
			}
		}
		ok := len(maxes) == 2 && maxes[0] == 20 && maxes[1] == 15
		pos := ""
		if where != nil {
			pos = c.pos(where.Pos())
			// between the two calls the first check character must be appended to the contents
			calls := findCalls(p, where.Body, func(o types.Object) bool { return isFuncNamed(o, "oned", "code93ComputeChecksumIndex") })
			if ok {
				appended := false
				ast.Inspect(where.Body, func(n ast.Node) bool {
					if as, isA := n.(*ast.AssignStmt); isA && as.Tok == token.ADD_ASSIGN && as.Pos() > calls[0].Pos() && !containsNode(as, calls[0]) && wholeBefore(as, calls[1]) {
						if identObj(p, as.Lhs[0]) == identObj(p, calls[1].Args[0]) && identObj(p, calls[0].Args[0]) == identObj(p, calls[1].Args[0]) {
							appended = true
						}
					}
					return true
				})
				ok = appended
			}
		}
		r.Check(ok, "S-C93W", "oned.code93 writer weights", pos, fmt.Sprintf("the writer must compute C with maximum weight 20, append it to the contents, then K with maximum weight 15; found maxima %v", maxes))
	}
	// reader
	if fd, p := c.funcDeclOf("oned", "code93CheckOneChecksum"); fd != nil {
		r.Analysed("oned.code93CheckOneChecksum")
		ps := paramObjs(p, fd)
		foldBody(fd, p, "oned.code93CheckOneChecksum.transition", ps[2])
		// mismatch -> checksum exception, compared against alphabet[total % 47] at result[checkPosition]
		okCmp := false
		ast.Inspect(fd.Body, func(n ast.Node) bool {
			ifs, ok := n.(*ast.IfStmt)
			if !ok || !blockReturnsError(p, ifs.Body.List, isChecksumExc) {
				return true
			}
			txt := ""
			if ifs.Init != nil {
				if as, ok := ifs.Init.(*ast.AssignStmt); ok {
					for _, rhs := range as.Rhs {
						txt += exprString(rhs) + ";"
					}
				}
			}
			has47 := false
			ast.Inspect(ifs, func(m ast.Node) bool {
				if be, ok := m.(*ast.BinaryExpr); ok && be.Op == token.REM {
					if k, ok := constInt(p, be.Y); ok && k == 47 {
						has47 = true
					}
				}
				return true
			})
			if be, ok := ast.Unparen(ifs.Cond).(*ast.BinaryExpr); ok && be.Op == token.NEQ && has47 {
				okCmp = true
			}
			return true
		})
		r.Check(okCmp, "S-C93W", "oned.code93CheckOneChecksum.compare", c.pos(fd.Pos()), "must return a checksum error when result[checkPosition] != alphabet[total % 47]")
	} else {
		r.AnchorLost("S-C93W", "oned.code93CheckOneChecksum", "function not found")
	}
	if fd, p := c.funcDeclOf("oned", "code93CheckChecksums"); fd != nil {
		r.Analysed("oned.code93CheckChecksums")
		calls := findCalls(p, fd.Body, func(o types.Object) bool { return isFuncNamed(o, "oned", "code93CheckOneChecksum") })
		ok := len(calls) == 2
		if ok {
			s := c.newSymExec(p)
			for _, st := range fd.Body.List {
				if as, isA := st.(*ast.AssignStmt); isA && as.Tok == token.DEFINE {
					call, isCall := as.Rhs[0].(*ast.CallExpr)
					if !isCall || (isBuiltin(typeutil.Callee(p.TypesInfo, call), "len") && len(call.Args) == 1 && identObj(p, call.Args[0]) == paramObjs(p, fd)[0]) {
						s.stmt(as)
					}
				}
			}
			lenR := polyAtom("len(" + polyAtom(objAtom(paramObjs(p, fd)[0])).String() + ")")
			m0, ok0 := constInt(p, calls[0].Args[2])
			m1, ok1 := constInt(p, calls[1].Args[2])
			ok = ok0 && ok1 && m0 == 20 && m1 == 15 && s.expr(calls[0].Args[1]).equal(lenR.sub(polyInt(2))) && s.expr(calls[1].Args[1]).equal(lenR.sub(polyInt(1)))
		}
		r.Check(ok, "S-C93W", "oned.code93CheckChecksums", c.pos(fd.Pos()), "must verify C at position len-2 with maximum weight 20 and K at len-1 with maximum weight 15")
	} else {
		r.AnchorLost("S-C93W", "oned.code93CheckChecksums", "function not found")
	}
	// DecodeRow: NewResult dominated by `if e := code93CheckChecksums(result); e != nil { return nil, e }`
	if fd, p := c.funcDeclOf("oned", "code93Reader.DecodeRow"); fd != nil {
		news := findCalls(p, fd.Body, func(o types.Object) bool { return isFuncNamed(o, "", "NewResult") })
		ok := false
		if len(news) == 1 {
			gi, _ := guardsOf(fd.Body, enclosingStmt(fd.Body, news[0]))
			for _, g := range gi.EarlyExits {
				if g.Init == nil {
					continue
				}
				if as, isA := g.Init.(*ast.AssignStmt); isA {
					if call, isC := as.Rhs[0].(*ast.CallExpr); isC && isFuncNamed(typeutil.Callee(p.TypesInfo, call), "oned", "code93CheckChecksums") {
						if be, isB := ast.Unparen(g.Cond).(*ast.BinaryExpr); isB && be.Op == token.NEQ && identObj(p, be.X) == identObj(p, as.Lhs[0]) && blockReturnsError(p, g.Body.List, nil) {
							ok = true
						}
					}
				}
			}
		}
		r.Check(ok, "S-C93W", "oned.code93Reader.DecodeRow", c.pos(fd.Pos()), "the Result must be built only after code93CheckChecksums succeeded")
	} else {
		r.AnchorLost("S-C93W", "oned.code93Reader.DecodeRow", "method not found")
	}
}

// ---- add-ons ----

func checkExtensions(c *Ctx, r *Report) {
	r.Rule("M-CHECK-EXT", "EAN-5: decodeMiddle returns success only after extensionChecksum(text) equals the digit determined from the parity pattern (mismatch -> checksum error, unknown pattern -> error); EAN-2: success only when value mod 4 equals the parity pattern; the main reader attaches an add-on only on the error-free arm", 3)
	// EAN-5
	if fd, p := c.funcDeclOf("oned", "UPCEANExtension5Support.decodeMiddle"); fd != nil {
		key := "oned.UPCEANExtension5Support.decodeMiddle"
		r.Analysed(key)
		last, _ := fd.Body.List[len(fd.Body.List)-1].(*ast.ReturnStmt)
		ok := false
		if last != nil {
			gi, _ := guardsOf(fd.Body, last)
			var detObj, detErr types.Object
			for _, st := range gi.Preceding {
				if as, isA := st.(*ast.AssignStmt); isA && len(as.Lhs) == 2 {
					if call, isC := as.Rhs[0].(*ast.CallExpr); isC {
						if sel, isS := call.Fun.(*ast.SelectorExpr); isS && sel.Sel.Name == "determineCheckDigit" {
							detObj, detErr = identObj(p, as.Lhs[0]), identObj(p, as.Lhs[1])
						}
					}
				}
			}
			cmp, errExit := false, false
			for _, g := range gi.EarlyExits {
				if be, isB := ast.Unparen(g.Cond).(*ast.BinaryExpr); isB && be.Op == token.NEQ {
					if detErr != nil && identObj(p, be.X) == detErr && blockReturnsError(p, g.Body.List, nil) {
						errExit = true
					}
					if g.Init != nil && detObj != nil {
						if as, isA := g.Init.(*ast.AssignStmt); isA {
							if call, isC := as.Rhs[0].(*ast.CallExpr); isC {
								if sel, isS := call.Fun.(*ast.SelectorExpr); isS && sel.Sel.Name == "extensionChecksum" {
									l, rr := identObj(p, be.X), identObj(p, be.Y)
									cs := identObj(p, as.Lhs[0])
									if ((l == cs && rr == detObj) || (l == detObj && rr == cs)) && blockReturnsError(p, g.Body.List, isChecksumExc) {
										cmp = true
									}
								}
							}
						}
					}
				}
			}
			ok = cmp && errExit
		}
		r.Check(ok, "M-CHECK-EXT", key, c.pos(fd.Pos()), "success return not dominated by determineCheckDigit (error exit) and extensionChecksum(text) != digit -> checksum error")
	} else {
		r.AnchorLost("M-CHECK-EXT", "oned.UPCEANExtension5Support.decodeMiddle", "method not found")
	}
	// EAN-2
	if fd, p := c.funcDeclOf("oned", "UPCEANExtension2Support.decodeMiddle"); fd != nil {
		key := "oned.UPCEANExtension2Support.decodeMiddle"
		r.Analysed(key)
		last, _ := fd.Body.List[len(fd.Body.List)-1].(*ast.ReturnStmt)
		ok := false
		if last != nil {
			gi, _ := guardsOf(fd.Body, last)
			for _, g := range gi.EarlyExits {
				if g.Init == nil {
					continue
				}
				as, isA := g.Init.(*ast.AssignStmt)
				be, isB := ast.Unparen(g.Cond).(*ast.BinaryExpr)
				if !isA || !isB || be.Op != token.NEQ {
					continue
				}
				if mod, isM := ast.Unparen(as.Rhs[0]).(*ast.BinaryExpr); isM && mod.Op == token.REM {
					if k, isK := constInt(p, mod.Y); isK && k == 4 && blockReturnsError(p, g.Body.List, isChecksumExc) {
						ok = true
					}
				}
			}
		}
		// parity bit assembly: checkParity |= 1 << (1-x) when bestMatch >= 10
		r.Check(ok, "M-CHECK-EXT", key, c.pos(fd.Pos()), "success return not dominated by `value % 4 != parity -> checksum error`")
	} else {
		r.AnchorLost("M-CHECK-EXT", "oned.UPCEANExtension2Support.decodeMiddle", "method not found")
	}
	// attach only on e == nil
	if fd, p := c.funcDeclOf("oned", "upceanReader.decodeRowWithStartRange"); fd != nil {
		key := "oned.upceanReader.decodeRowWithStartRange.extension"
		ok := false
		ast.Inspect(fd.Body, func(n ast.Node) bool {
			ifs, isI := n.(*ast.IfStmt)
			if !isI {
				return true
			}
			be, isB := ast.Unparen(ifs.Cond).(*ast.BinaryExpr)
			if !isB || be.Op != token.EQL {
				return true
			}
			if tv, has := p.TypesInfo.Types[be.Y]; !has || !tv.IsNil() {
				return true
			}
			puts := findCalls(p, ifs.Body, func(o types.Object) bool { return isMethodNamed(o, "", "Result", "PutMetadata") })
			all := findCalls(p, fd.Body, func(o types.Object) bool { return isMethodNamed(o, "", "Result", "PutAllMetadata") })
			inThen := findCalls(p, ifs.Body, func(o types.Object) bool { return isMethodNamed(o, "", "Result", "PutAllMetadata") })
			if len(puts) >= 1 && len(all) == len(inThen) && len(all) >= 1 {
				ok = true
			}
			return true
		})
		r.Check(ok, "M-CHECK-EXT", key, c.pos(fd.Pos()), "add-on metadata must be attached only on the arm where the extension reader returned no error")
	}
}

// code93WholeFold folds code93CheckOneChecksum(result, checkPosition, weightMax) as a whole for both weight limits, check
// positions 1..24 and every alphabet character at every position (the others being the zero-valued character): the right
// check character is accepted, any other rejected. Returns "" (holds), a violation text, or "?" when fd is another function
// or does not fold.
func code93WholeFold(c *Ctx, fd *ast.FuncDecl, p *packages.Package) string {
	if fd.Name.Name != "code93CheckOneChecksum" || len(paramObjs(p, fd)) != 3 {
		return "?"
	}
	ainit, ap := c.varInit("oned", "code93AlphabetString")
	if ainit == nil {
		return "?"
	}
	av := c.eval(ap, ainit)
	if av.K != VStr || len(av.S) < 47 {
		return "?"
	}
	alpha := av.S
	for _, wmax := range []int64{20, 15} {
		for cp := int64(1); cp <= 24; cp++ {
			for i := int64(0); i < cp; i++ {
				for a := int64(0); a < 47; a++ {
					w := (cp-1-i)%wmax + 1
					want := alpha[(w*a)%47]
					for _, wrong := range []bool{false, true} {
						res := &Val{K: VList}
						for k := int64(0); k <= cp; k++ {
							ch := alpha[0]
							if k == i {
								ch = alpha[a]
							}
							if k == cp {
								ch = want
								if wrong {
									ch = alpha[((w*a)%47+1)%47]
								}
							}
							res.L = append(res.L, &Val{K: VInt, I: int64(ch), T: types.Typ[types.Byte]})
						}
						out, err := c.rpfCall(fd, p, []*Val{res, vint(cp), vint(wmax)}, &rpf{unroll: 200, callHook: errCtorHook})
						if err != nil {
							return "?"
						}
						rejected := len(out) != 1 || out[0].K != VNil
						if rejected != wrong {
							return fmt.Sprintf("weights up to %d, check position %d, character %q at position %d: check character %q is %s; the weighted sum modulo 47 selects %q", wmax, cp, alpha[a], i, res.L[cp].I, map[bool]string{true: "rejected", false: "accepted"}[rejected], want)
						}
					}
				}
			}
		}
	}
	return ""
}

// T-UPCEPARITY-USE: the UPC-E reader's parity lookup covers both number systems and all ten check digits
func checkUPCEParityLookup(c *Ctx, r *Report) {
	r.Rule("T-UPCEPARITY-USE", "determineNumSysAndCheckDigit, folded on the reference parity table (GS1 General Specifications, UPC-E), answers for each of the twenty parity patterns the number system (0 or 1) in the first character and the check digit appended, and not-found for a pattern outside the table: the reader recognises number-system-1 symbols as well", 1)
	fd, p := c.funcDeclOf("oned", "determineNumSysAndCheckDigit")
	key := "oned.determineNumSysAndCheckDigit"
	if fd == nil {
		r.AnchorLost("T-UPCEPARITY-USE", key, "function not found")
		return
	}
	r.Analysed(key)
	tbl := c.lookupObj("oned", "upce_NUMSYS_AND_CHECK_DIGIT_PATTERNS")
	if tbl == nil {
		r.AnchorLost("T-UPCEPARITY-USE", key, "parity table not found")
		return
	}
	tv := &Val{K: VList}
	for ns := 0; ns < 2; ns++ {
		row := &Val{K: VList}
		for d := 0; d < 10; d++ {
			x := refUPCEParity0[d]
			if ns == 1 {
				x ^= 0x3F
			}
			row.L = append(row.L, vint(x))
		}
		tv.L = append(tv.L, row)
	}
	bad := ""
	try := func(pattern int64, wantNS, wantD int64) {
		if bad != "" {
			return
		}
		in := &Val{K: VList, Local: true}
		for i := 0; i < 7; i++ {
			in.L = append(in.L, &Val{K: VInt, I: int64('5'), T: types.Typ[types.Byte]})
		}
		h := &rpf{unroll: 64, callHook: errCtorHook}
		res, err := c.rpfCallWithGlobals(fd, p, []*Val{in, vint(pattern)}, h, map[types.Object]*Val{tbl: tv})
		if err != nil {
			bad = fmt.Sprintf("?pattern %#x: %v", pattern, err)
			return
		}
		if len(res) != 2 {
			bad = "?unexpected result shape"
			return
		}
		if wantNS < 0 {
			if res[1].K == VNil {
				bad = fmt.Sprintf("parity pattern %#x is in no row of the table but is accepted", pattern)
			}
			return
		}
		if res[1].K != VNil {
			bad = fmt.Sprintf("parity pattern %#x (number system %d, check digit %d) is not recognised", pattern, wantNS, wantD)
			return
		}
		out, ok := listInts(res[0])
		if !ok || len(out) != 8 || out[0] != int64('0')+wantNS || out[7] != int64('0')+wantD {
			bad = fmt.Sprintf("parity pattern %#x: result %q; expected number system %d first and check digit %d last", pattern, bytesOf(out), wantNS, wantD)
		}
	}
	for ns := int64(0); ns < 2; ns++ {
		for d := int64(0); d < 10; d++ {
			x := refUPCEParity0[d]
			if ns == 1 {
				x ^= 0x3F
			}
			try(x, ns, d)
		}
	}
	try(0x00, -1, -1)
	try(0x3F, -1, -1)
	reportFold(r, c, "T-UPCEPARITY-USE", key, fd.Pos(), bad)
}

func bytesOf(xs []int64) string {
	b := make([]byte, 0, len(xs))
	for _, x := range xs {
		b = append(b, byte(x))
	}
	return string(b)
}

// M-C39CTOR: the Code 39 constructors configure what their names and parameters say
func checkCode39Constructors(c *Ctx, r *Report) {
	r.Rule("M-C39CTOR", "the Code 39 reader constructors, folded from source down to the struct they build: NewCode39Reader() verifies no check character and reads no extended sequences; NewCode39ReaderWithCheckDigitFlag(b) verifies the check character exactly when b is set and reads no extended sequences; NewCode39ReaderWithFlags(a, b) sets the two in that order - a reader asked to verify the mod-43 check character does verify it", 3)
	type tc struct {
		fn        string
		args      []bool
		chk, extd bool
	}
	var cases []tc
	cases = append(cases, tc{"NewCode39Reader", nil, false, false})
	for _, a := range []bool{false, true} {
		cases = append(cases, tc{"NewCode39ReaderWithCheckDigitFlag", []bool{a}, a, false})
		for _, b := range []bool{false, true} {
			cases = append(cases, tc{"NewCode39ReaderWithFlags", []bool{a, b}, a, b})
		}
	}
	badBy := map[string]string{}
	for _, cs := range cases {
		key := "oned." + cs.fn
		fd, p := c.funcDeclOf("oned", cs.fn)
		if fd == nil {
			r.AnchorLost("M-C39CTOR", key, "constructor not found")
			badBy[key] = "-"
			continue
		}
		if badBy[key] != "" {
			continue
		}
		r.Analysed(key)
		var args []*Val
		for _, a := range cs.args {
			args = append(args, vbool(a))
		}
		h := &rpf{unroll: 64, effectCalls: true}
		res, err := c.rpfCall(fd, p, args, h)
		switch {
		case err != nil:
			badBy[key] = "?" + err.Error()
		case len(res) != 1 || res[0].K != VStruct || res[0].Fields["usingCheckDigit"] == nil || res[0].Fields["extendedMode"] == nil:
			badBy[key] = "?the constructor does not fold to a code39Reader value"
		default:
			gc, ge := res[0].Fields["usingCheckDigit"], res[0].Fields["extendedMode"]
			if gc.K != VBool || ge.K != VBool || gc.B != cs.chk || ge.B != cs.extd {
				badBy[key] = fmt.Sprintf("%s%v builds a reader with check-character verification %v and extended mode %v; expected %v and %v", cs.fn, cs.args, valString(gc), valString(ge), cs.chk, cs.extd)
			}
		}
	}
	for _, fn := range []string{"NewCode39Reader", "NewCode39ReaderWithCheckDigitFlag", "NewCode39ReaderWithFlags"} {
		key := "oned." + fn
		if badBy[key] == "-" {
			continue
		}
		fd, _ := c.funcDeclOf("oned", fn)
		reportFold(r, c, "M-C39CTOR", key, fd.Pos(), badBy[key])
	}
}

// S-UPCDIGITS: what each UPC/EAN middle decoder does with a matched digit
func checkUPCDigitLoops(c *Ctx, r *Report) {
	r.Rule("S-UPCDIGITS", "the digit loops of the UPC/EAN middle decoders, folded with upceanReader_decodeDigit replaced by a recorder, for every loop position and every index the pattern table can answer: EAN-8 (both halves) and the right half of EAN-13 match against the ten L patterns only; the left half of EAN-13, UPC-E and the 2- and 5-digit add-ons match against the twenty L-and-G patterns, append the digit index mod 10 and set the parity bit of the position (5-x, 5-x, 1-x, 4-x) exactly when the index is 10 or more (a G pattern): a reversed or even-parity pattern is never taken for a digit where the symbology has none, and the parity word the check values are read from is the one that was printed", 7)
	lObj := c.lookupObj("oned", "UPCEANReader_L_PATTERNS")
	lgObj := c.lookupObj("oned", "UPCEANReader_L_AND_G_PATTERNS")
	type spec struct {
		fn     string
		tables []string // per loop: "L" or "LG"
		top    []int64  // per loop: parity bit of position x is top-x (LG loops)
		n      []int64  // per loop: number of digits
	}
	specs := []spec{
		{"ean8Reader.decodeMiddle", []string{"L", "L"}, []int64{0, 0}, []int64{4, 4}},
		{"ean13Reader.decodeMiddle", []string{"LG", "L"}, []int64{5, 0}, []int64{6, 6}},
		{"upcEReader.decodeMiddle", []string{"LG"}, []int64{5}, []int64{6}},
		{"UPCEANExtension2Support.decodeMiddle", []string{"LG"}, []int64{1}, []int64{2}},
		{"UPCEANExtension5Support.decodeMiddle", []string{"LG"}, []int64{4}, []int64{5}},
	}
	isDD := func(o types.Object) bool { return isFuncNamed(o, "oned", "upceanReader_decodeDigit") }
	for _, sp := range specs {
		fd, p := c.funcDeclOf("oned", sp.fn)
		if fd == nil {
			r.AnchorLost("S-UPCDIGITS", "oned."+sp.fn, "method not found")
			continue
		}
		var loops []*ast.ForStmt
		for _, st := range fd.Body.List {
			if fs, ok := st.(*ast.ForStmt); ok && len(findCalls(p, fs.Body, isDD)) == 1 {
				loops = append(loops, fs)
			}
		}
		if len(loops) != len(sp.tables) {
			r.Undecided("S-UPCDIGITS", "oned."+sp.fn, c.pos(fd.Pos()), fmt.Sprintf("%d digit loops found, expected %d", len(loops), len(sp.tables)))
			continue
		}
		for li, loop := range loops {
			key := fmt.Sprintf("oned.%s/loop%d", sp.fn, li+1)
			r.Analysed(key)
			lr, ok := loopVarRange(p, &ast.ForStmt{Init: loop.Init, Cond: firstConjunct(loop.Cond), Post: loop.Post, Body: loop.Body})
			call := findCalls(p, loop.Body, isDD)[0]
			bad := ""
			if !ok || lr.lo != 0 || lr.hi != sp.n[li] {
				bad = fmt.Sprintf("?the loop does not run over the %d digit positions", sp.n[li])
			}
			if bad == "" && len(call.Args) == 4 {
				tObj := identObj(p, call.Args[3])
				want := lObj
				if sp.tables[li] == "LG" {
					want = lgObj
				}
				if tObj == nil || tObj != want {
					bad = fmt.Sprintf("the digits are matched against %s; this part of the symbol is printed with the %s patterns", types.ExprString(call.Args[3]), map[string]string{"L": "ten L (odd parity)", "LG": "twenty L and G"}[sp.tables[li]])
				}
			}
			// variables of the body: the result buffer (appended to), the parity word (|=), the offset
			var parityObj types.Object
			ast.Inspect(loop.Body, func(n ast.Node) bool {
				if as, ok := n.(*ast.AssignStmt); ok && as.Tok == token.OR_ASSIGN && len(as.Lhs) == 1 {
					parityObj = identObj(p, as.Lhs[0])
				}
				return true
			})
			var bufObj types.Object
			ast.Inspect(loop.Body, func(n ast.Node) bool {
				if as, ok := n.(*ast.AssignStmt); ok && len(as.Lhs) == 1 && len(as.Rhs) == 1 {
					if cl, isC := as.Rhs[0].(*ast.CallExpr); isC && isBuiltin(typeutil.Callee(p.TypesInfo, cl), "append") {
						bufObj = identObj(p, as.Lhs[0])
					}
				}
				return true
			})
			if bad == "" && bufObj == nil {
				bad = "?the buffer the digits are appended to was not found"
			}
			max := int64(10)
			if sp.tables[li] == "LG" {
				max = 20
			}
			for x := int64(0); x < sp.n[li] && bad == ""; x++ {
				for bm := int64(0); bm < max && bad == ""; bm++ {
					env := map[types.Object]*Val{lr.v: vint(x)}
					// every other local the body touches: integers start at 0, the buffer empty, the counters four ones
					ast.Inspect(fd.Body, func(n ast.Node) bool {
						id, ok := n.(*ast.Ident)
						if !ok {
							return true
						}
						v, isVar := p.TypesInfo.Uses[id].(*types.Var)
						if !isVar || v.IsField() || v.Pkg() == nil || v.Parent() == v.Pkg().Scope() || env[v] != nil {
							return true
						}
						switch t := v.Type().Underlying().(type) {
						case *types.Basic:
							if t.Info()&types.IsInteger != 0 {
								env[v] = vint(0)
							}
						case *types.Slice:
							if b, isB := t.Elem().Underlying().(*types.Basic); isB && b.Kind() == types.Uint8 {
								env[v] = &Val{K: VList, Local: true}
							} else if isB && b.Info()&types.IsInteger != 0 {
								env[v] = &Val{K: VList, Local: true, L: []*Val{vint(1), vint(1), vint(1), vint(1)}}
							}
						case *types.Pointer:
							env[v] = &Val{K: VStruct, Ptr: true, Fields: map[string]*Val{}}
						}
						return true
					})
					h := &rpf{unroll: 16}
					h.multiHook = func(cl *ast.CallExpr, callee types.Object) ([]*Val, bool) {
						if isDD(callee) {
							return []*Val{vint(bm), {K: VNil}}, true
						}
						return nil, false
					}
					h.callHook = func(rr *rpf, cl *ast.CallExpr, callee types.Object) (*Val, bool) {
						if fn, ok := callee.(*types.Func); ok && (fn.Name() == "GetNextSet" || fn.Name() == "GetNextUnset" || fn.Name() == "GetSize") {
							return vint(1000), true
						}
						return errCtorHook(rr, cl, callee)
					}
					rr := &rpf{c: c, p: p, env: env, callHook: h.callHook, multiHook: h.multiHook, unroll: 16, curFn: fd}
					var err error
					func() {
						defer func() {
							if y := recover(); y != nil {
								switch e := y.(type) {
								case *rpfErr:
									err = e
								case rpfContinue:
								default:
									panic(y)
								}
							}
						}()
						for _, st := range loop.Body.List {
							if ret := rr.stmtC(st); ret != nil {
								err = fmt.Errorf("the loop body returns although the digit was matched")
								return
							}
						}
					}()
					if err != nil {
						bad = fmt.Sprintf("?position %d, pattern index %d: %v", x, bm, err)
						break
					}
					// the appended digit
					var digit int64 = -1
					if v := env[bufObj]; v != nil && v.K == VList && len(v.L) == 1 && v.L[0].K == VInt {
						digit = v.L[0].I
					}
					if digit != int64('0')+bm%10 {
						bad = fmt.Sprintf("position %d, pattern index %d: the character appended is %q, expected %q", x, bm, rune(digit), rune(int64('0')+bm%10))
						break
					}
					if sp.tables[li] == "LG" {
						if parityObj == nil {
							bad = "?the parity word is not accumulated with |="
							break
						}
						want := int64(0)
						if bm >= 10 {
							want = 1 << uint(sp.top[li]-x)
						}
						if got := env[parityObj]; got == nil || got.K != VInt || got.I != want {
							bad = fmt.Sprintf("position %d, pattern index %d (%s pattern): the parity word becomes %#x, expected %#x", x, bm, map[bool]string{false: "an L", true: "a G"}[bm >= 10], got.I, want)
						}
					}
				}
			}
			reportFold(r, c, "S-UPCDIGITS", key, loop.Pos(), bad)
		}
	}
}

// firstConjunct returns the first operand of a && chain (the counting part of `x < n && offset < end`).
func firstConjunct(e ast.Expr) ast.Expr {
	for {
		be, ok := ast.Unparen(e).(*ast.BinaryExpr)
		if !ok || be.Op != token.LAND {
			return ast.Unparen(e)
		}
		e = be.X
	}
}

// S-C39CHECK: the Code 39 row decoder configured for a check character
type c39Stop struct{ text string }

func checkCode39CheckChar(c *Ctx, r *Report) {
	r.Rule("S-C39CHECK", "code39Reader.DecodeRow with check-character verification switched on, folded from source with the pattern matcher replaced by a script of characters (start pattern found, then the scripted characters, then the stop asterisk; the quiet-zone test passes): for no character, for every single character, for every pair and for a grid of triples over the 43-character alphabet the reader returns the text without its last character exactly when that last character is the mod-43 check character of the rest and at least one text character remains; otherwise it returns an error - never the check character as text, never an unverified symbol; with verification off the characters are returned as they are", 2)
	fd, p := c.funcDeclOf("oned", "code39Reader.DecodeRow")
	key := "oned.code39Reader.DecodeRow scripted characters"
	xs, _ := intTable(c, "oned", "code39CharacterEncodings")
	alpha, okA := strConst(c, "oned", "code39AlphabetString")
	ast39, okS := constValIn(c, "oned", "code39AsteriskEncoding")
	if fd == nil || xs == nil || !okA || !okS || len(alpha) != 43 || len(xs) < 43 {
		r.AnchorLost("S-C39CHECK", key, "code39Reader.DecodeRow / Code 39 tables not found")
		return
	}
	run := func(chars []int, check bool) (string, string) {
		k := 0
		rh := &rpf{unroll: 100000, maxSteps: 200000, env: map[types.Object]*Val{}}
		counters := &Val{K: VList, Local: true}
		for i := 0; i < 9; i++ {
			counters.L = append(counters.L, vint(0))
		}
		rh.env[recvObj(p, fd)] = &Val{K: VStruct, Ptr: true, Local: true, Fields: map[string]*Val{
			"usingCheckDigit": vbool(check), "extendedMode": vbool(false), "decodeRowResult": {K: VList, Local: true}, "counters": counters}}
		rh.callHook = func(rr *rpf, call *ast.CallExpr, callee types.Object) (*Val, bool) {
			fn, ok := callee.(*types.Func)
			if !ok {
				return nil, false
			}
			switch fn.Name() {
			case "GetNextSet":
				if v := rr.expr(call.Args[0]); v.K == VInt {
					return vint(v.I + 20), true // white space after every character, and after the stop pattern
				}
			case "GetSize":
				return vint(100000), true
			case "RecordPattern":
				if cnt := rr.expr(call.Args[2]); cnt.K == VList {
					for i := range cnt.L {
						cnt.L[i] = vint(1)
					}
				}
				return &Val{K: VNil}, true
			case "code39ToNarrowWidePattern":
				if k > len(chars) {
					rpfFail("the reader asks for more characters than the script holds")
				}
				k++
				if k-1 == len(chars) {
					return vint(ast39), true
				}
				return vint(xs[chars[k-1]]), true
			case "NewResultPoint":
				return &Val{K: VNil}, true
			case "NewResult":
				v := rr.expr(call.Args[0])
				if v.K != VStr {
					rpfFail("the result text is not a constant string")
				}
				panic(c39Stop{v.S})
			}
			return errCtorHook(rr, call, callee)
		}
		rh.multiHook = func(call *ast.CallExpr, callee types.Object) ([]*Val, bool) {
			if isFuncNamed(callee, "oned", "code39FindAsteriskPattern") {
				return []*Val{vint(0), vint(13), {K: VNil}}, true
			}
			return nil, false
		}
		got, status := "", ""
		func() {
			defer func() {
				if x := recover(); x != nil {
					if s, ok := x.(c39Stop); ok {
						got, status = s.text, "result"
						return
					}
					panic(x)
				}
			}()
			_, err := c.rpfCall(fd, p, []*Val{vint(0), {K: VNil}, {K: VNil}}, rh)
			if err != nil {
				status = err.Error()
				return
			}
			status = "error"
		}()
		return got, status
	}
	text := func(chars []int) string {
		b := make([]byte, len(chars))
		for i, x := range chars {
			b[i] = alpha[x]
		}
		return string(b)
	}
	for _, check := range []bool{true, false} {
		okey := key + fmt.Sprintf(", verification %v", check)
		r.Analysed(okey)
		bad := ""
		folds, results := 0, 0
		try := func(chars []int) {
			if bad != "" {
				return
			}
			got, status := run(chars, check)
			folds++
			want, wantOK := text(chars), len(chars) > 0
			if check {
				wantOK = false
				if len(chars) >= 2 {
					sum := 0
					for _, x := range chars[:len(chars)-1] {
						sum += x
					}
					if sum%43 == chars[len(chars)-1] {
						wantOK, want = true, text(chars[:len(chars)-1])
					}
				}
			}
			switch {
			case status == "result":
				results++
				if !wantOK {
					bad = fmt.Sprintf("the characters %q between the asterisks are returned as %q: the last one is not the check character of the rest (or nothing remains), an error is due", text(chars), got)
				} else if got != want {
					bad = fmt.Sprintf("the characters %q between the asterisks are returned as %q, expected %q", text(chars), got, want)
				}
			case status == "error":
				if wantOK {
					bad = fmt.Sprintf("the characters %q between the asterisks are refused; expected the text %q", text(chars), want)
				}
			case strings.Contains(status, "out of range"):
				bad = fmt.Sprintf("the characters %q between the asterisks: %s - a panic instead of a result or an error", text(chars), status)
			default:
				bad = fmt.Sprintf("?the characters %q: %s", text(chars), status)
			}
		}
		try(nil)
		for a := 0; a < 43; a++ {
			try([]int{a})
		}
		for a := 0; a < 43; a++ {
			for b := 0; b < 43; b++ {
				if check || (a+b)%5 == 0 {
					try([]int{a, b})
				}
			}
		}
		if check {
			for _, a := range []int{0, 9, 10, 35, 42} {
				for _, b := range []int{0, 1, 33, 36, 42} {
					for x := 0; x < 43; x++ {
						try([]int{a, b, x})
					}
				}
			}
		}
		r.Extra(fmt.Sprintf("S-C39CHECK scripts folded / giving a result (verification %v)", check), fmt.Sprintf("%d/%d", folds, results))
		if bad == "" && results < 40 {
			bad = fmt.Sprintf("?only %d of %d scripts reach a result: the script no longer drives the decoder", results, folds)
		}
		reportFold(r, c, "S-C39CHECK", okey, fd.Pos(), bad)
	}
}

// S-EXTHIST: the add-on decoders on one object, after a rejected add-on
func checkExtensionHistory(c *Ctx, r *Report) {
	r.Rule("S-EXTHIST", "UPCEANExtension5Support.decodeRow and UPCEANExtension2Support.decodeRow, folded with the digit matcher scripted, on one object built by folding its constructor: an add-on whose parity does not carry its check value is refused, and the well-formed add-on presented next is read with exactly its own digits - nothing of the rejected one stays in the reused buffer; a fresh object reads the same add-on the same way", 2)
	for _, t := range []struct {
		typ    string
		n      int
		digits [2][]int64
	}{{"UPCEANExtension5Support", 5, [2][]int64{{5, 4, 3, 2, 1}, {1, 2, 3, 4, 5}}}, {"UPCEANExtension2Support", 2, [2][]int64{{5, 4}, {1, 2}}}} {
		key := "oned." + t.typ + ".decodeRow/history"
		fd, p := c.funcDeclOf("oned", t.typ+".decodeRow")
		cfd, cp := c.funcDeclOf("oned", "New"+t.typ)
		if fd == nil || cfd == nil {
			r.AnchorLost("S-EXTHIST", key, "decodeRow / constructor not found")
			continue
		}
		r.Analysed(key)
		type outcome struct {
			text string
			ok   bool
			err  string
		}
		type stop struct{ text string }
		run := func(obj *Val, digits []int64, parity int) outcome {
			k := 0
			h := &rpf{unroll: 1000, maxSteps: 100000, effectCalls: true, env: map[types.Object]*Val{recvObj(p, fd): obj}}
			h.callHook = func(rr *rpf, call *ast.CallExpr, callee types.Object) (*Val, bool) {
				if fn, ok := callee.(*types.Func); ok {
					switch fn.Name() {
					case "GetSize":
						return vint(1000), true
					case "GetNextSet", "GetNextUnset":
						if v := rr.expr(call.Args[0]); v.K == VInt {
							return vint(v.I + 1), true
						}
					case "NewResultPoint", "parseExtensionString":
						return &Val{K: VNil}, true
					case "NewResult":
						if v := rr.expr(call.Args[0]); v.K == VStr {
							panic(stop{v.S})
						}
						rpfFail("the add-on text is not a constant string")
					}
				}
				return errCtorHook(rr, call, callee)
			}
			h.multiHook = func(call *ast.CallExpr, callee types.Object) ([]*Val, bool) {
				if fn, ok := callee.(*types.Func); ok && fn.Name() == "Atoi" && fn.Pkg() != nil && fn.Pkg().Path() == "strconv" {
					if s := rpfCurrent.expr(call.Args[0]); s.K == VStr {
						if n, err := strconv.Atoi(s.S); err == nil {
							return []*Val{vint(int64(n)), {K: VNil}}, true
						}
						return []*Val{vint(0), vstr("error")}, true
					}
				}
				if isFuncNamed(callee, "oned", "upceanReader_decodeDigit") {
					if k >= len(digits) {
						rpfFail("more digits are asked for than the add-on has")
					}
					d := digits[k]
					if parity>>(uint(len(digits)-1-k))&1 == 1 {
						d += 10
					}
					k++
					if cnt := rpfCurrent.expr(call.Args[1]); cnt.K == VList {
						for i := range cnt.L {
							cnt.L[i] = vint(2)
						}
					}
					return []*Val{vint(d), {K: VNil}}, true
				}
				return nil, false
			}
			var out outcome
			func() {
				defer func() {
					if x := recover(); x != nil {
						if s, ok := x.(stop); ok {
							out = outcome{text: s.text, ok: true}
							return
						}
						panic(x)
					}
				}()
				res, err := c.rpfCall(fd, p, []*Val{vint(0), {K: VStruct, Ptr: true, Fields: map[string]*Val{}}, {K: VList, L: []*Val{vint(10), vint(13)}}}, h)
				if err != nil {
					out = outcome{err: err.Error()}
					return
				}
				_ = res
			}()
			return out
		}
		build := func() (*Val, string) {
			res, err := c.rpfCall(cfd, cp, nil, &rpf{unroll: 100})
			if err != nil || len(res) != 1 || res[0].K != VStruct {
				return nil, fmt.Sprintf("?the constructor does not fold to an object (%v)", err)
			}
			return res[0], ""
		}
		bad := ""
		// the parity pattern under which the second add-on is well formed, found on fresh objects
		want := func(d []int64) string {
			s := ""
			for _, x := range d {
				s += fmt.Sprint(x)
			}
			return s
		}
		good, rejected := -1, -1
		for par := 0; par < 1<<uint(t.n) && bad == ""; par++ {
			obj, b := build()
			if b != "" {
				bad = b
				break
			}
			o := run(obj, t.digits[1], par)
			if o.err != "" {
				bad = "?" + o.err
				break
			}
			if o.ok && good < 0 {
				if o.text != want(t.digits[1]) {
					bad = fmt.Sprintf("a fresh object reads the add-on %s as %q", want(t.digits[1]), o.text)
				}
				good = par
			}
		}
		for par := 0; par < 1<<uint(t.n) && bad == "" && rejected < 0; par++ {
			obj, _ := build()
			if o := run(obj, t.digits[0], par); !o.ok && o.err == "" {
				rejected = par
			}
		}
		if bad == "" && (good < 0 || rejected < 0) {
			bad = fmt.Sprintf("?no parity pattern under which %s is read (%d) / %s is refused (%d)", want(t.digits[1]), good, want(t.digits[0]), rejected)
		}
		if bad == "" {
			obj, _ := build()
			if o := run(obj, t.digits[0], rejected); o.ok || o.err != "" {
				bad = "?the rejected add-on is not rejected on the history object: " + o.err
			} else if o2 := run(obj, t.digits[1], good); o2.err != "" {
				bad = "?" + o2.err
			} else if !o2.ok {
				bad = fmt.Sprintf("one object: after the add-on %s was refused for its parity, the well-formed add-on %s is refused too - digits of the rejected one are still in the buffer", want(t.digits[0]), want(t.digits[1]))
			} else if o2.text != want(t.digits[1]) {
				bad = fmt.Sprintf("one object: after the add-on %s was refused, the add-on %s is read as %q", want(t.digits[0]), want(t.digits[1]), o2.text)
			}
		}
		reportFold(r, c, "S-EXTHIST", key, fd.Pos(), bad)
	}
}

// S-MOD10W / S-C93CHK: the check computations as whole functions
func checkChecksumFunctionsWhole(c *Ctx, r *Report) {
	r.Rule("S-MOD10W", "upceanReader_getStandardUPCEANChecksum and upceanReader_checkStandardUPCEANChecksum, folded from source: for every digit string of length 0..4, for digit strings of length 7, 11, 12 and 13, and for strings with a non-digit in an odd or an even place, the first returns (10 - (3*digits in the odd places from the right + digits in the even places) mod 10) mod 10 or an error for the non-digit, and the second accepts a string exactly when its last digit is that value of the rest", 2)
	gfd, gp := c.funcDeclOf("oned", "upceanReader_getStandardUPCEANChecksum")
	cfd, cp := c.funcDeclOf("oned", "upceanReader_checkStandardUPCEANChecksum")
	if gfd == nil || cfd == nil {
		r.AnchorLost("S-MOD10W", "oned.upceanReader_getStandardUPCEANChecksum", "function not found")
	} else {
		ref := func(s string) (int, bool) {
			sum := 0
			for i := 0; i < len(s); i++ {
				ch := s[len(s)-1-i]
				if ch < '0' || ch > '9' {
					return 0, false
				}
				if i%2 == 0 {
					sum += 3 * int(ch-'0')
				} else {
					sum += int(ch - '0')
				}
			}
			return (10 - sum%10) % 10, true
		}
		var inputs []string
		var rec func(s string)
		rec = func(s string) {
			inputs = append(inputs, s)
			if len(s) == 4 {
				return
			}
			for d := 0; d < 10; d++ {
				rec(s + fmt.Sprint(d))
			}
		}
		rec("")
		inputs = append(inputs, "0123456", "9999999", "59012341234", "036000291452", "5901234123457", "4006381333931", "0000000000000", "12a4", "1a34", "a", "12 4", "123/", ":123")
		bad, cbad := "", ""
		for _, s := range inputs {
			h := &rpf{unroll: 1000}
			h.callHook = errCtorHook
			res, err := c.rpfCall(gfd, gp, []*Val{vstr(s)}, h)
			want, ok := ref(s)
			switch {
			case err != nil:
				bad = "?" + err.Error()
			case len(res) != 2:
				bad = "?unexpected result shape"
			case !ok && res[1].K == VNil:
				bad = fmt.Sprintf("getStandardUPCEANChecksum(%q) accepts a non-digit", s)
			case ok && (res[1].K != VNil || !res[0].isInt() || int(res[0].I) != want):
				bad = fmt.Sprintf("getStandardUPCEANChecksum(%q) = %s, the mod-10 check digit is %d", s, valString(res[0]), want)
			}
			if bad != "" {
				break
			}
			if len(s) > 0 && ok {
				for _, last := range []byte{byte('0' + want), byte('0' + (want+1)%10)} {
					full := s + string(last)
					h2 := &rpf{unroll: 1000}
					h2.callHook = errCtorHook
					res, err := c.rpfCall(cfd, cp, []*Val{vstr(full)}, h2)
					if err != nil || len(res) != 2 || res[0].K != VBool {
						cbad = fmt.Sprintf("?checkStandardUPCEANChecksum(%q): %v", full, err)
					} else if res[0].B != (int(last-'0') == want) {
						cbad = fmt.Sprintf("checkStandardUPCEANChecksum(%q) = %v; the check digit of %q is %d", full, res[0].B, s, want)
					}
				}
			}
			if cbad != "" {
				break
			}
		}
		r.Analysed("oned.upceanReader_getStandardUPCEANChecksum/whole")
		reportFold(r, c, "S-MOD10W", "oned.upceanReader_getStandardUPCEANChecksum/whole", gfd.Pos(), bad)
		reportFold(r, c, "S-MOD10W", "oned.upceanReader_checkStandardUPCEANChecksum/whole", cfd.Pos(), cbad)
		r.DecidedByKeys("S-MOD10", "S-MOD10W", "the two functions folded on digit strings of every length in use and on strings with non-digits",
			"upceanReader_getStandardUPCEANChecksum", "upceanReader_getStandardUPCEANChecksum.digits-only", "upceanReader_checkStandardUPCEANChecksum")
	}
	// ---- Code 93
	r.Rule("S-C93CHK", "code93CheckChecksums, folded from source on symbol bodies of 1, 2, 5, 16, 21 and 40 data characters followed by the C and K characters the standard computes (weights cycling 1..20 and 1..15 from the right, modulo 47): it accepts them, and refuses every body in which one data character, C or K is replaced by its successor in the alphabet, also when K is computed again over the changed body (only the C check can refuse that one)", 1)
	fd, p := c.funcDeclOf("oned", "code93CheckChecksums")
	alpha, okA := strConst(c, "oned", "code93AlphabetString")
	key := "oned.code93CheckChecksums/whole"
	if fd == nil || !okA || len(alpha) < 47 {
		r.AnchorLost("S-C93CHK", key, "function / alphabet not found")
		return
	}
	r.Analysed(key)
	check := func(body []int, maxW int) int {
		total, w := 0, 1
		for i := len(body) - 1; i >= 0; i-- {
			total += w * body[i]
			w++
			if w > maxW {
				w = 1
			}
		}
		return total % 47
	}
	bad := ""
	for _, n := range []int{1, 2, 5, 16, 21, 40} {
		body := make([]int, n)
		for i := range body {
			body[i] = (7*i + 3 + n) % 43
		}
		cc := check(body, 20)
		withC := append(append([]int{}, body...), cc)
		kk := check(withC, 15)
		full := append(withC, kk)
		try := func(sym []int) (bool, string) {
			lst := &Val{K: VList}
			for _, x := range sym {
				lst.L = append(lst.L, &Val{K: VInt, I: int64(alpha[x]), T: types.Typ[types.Byte]})
			}
			h := &rpf{unroll: 1000}
			h.callHook = errCtorHook
			res, err := c.rpfCall(fd, p, []*Val{lst}, h)
			if err != nil || len(res) != 1 {
				return false, fmt.Sprintf("?%v", err)
			}
			return res[0].K == VNil, ""
		}
		okv, e := try(full)
		if e != "" {
			bad = e
			break
		}
		if !okv {
			bad = fmt.Sprintf("a body of %d characters with the check characters C = %d and K = %d of the standard is refused", n, cc, kk)
			break
		}
		for pos := 0; pos < len(full) && bad == ""; pos++ {
			mut := append([]int{}, full...)
			mut[pos] = (mut[pos] + 1) % 47
			okv, e := try(mut)
			if e != "" {
				bad = e
			} else if okv {
				bad = fmt.Sprintf("a body of %d characters with character %d replaced is accepted: the C / K check does not cover it", n, pos)
			}
		}
		// a body whose K fits but whose C does not (a character or C replaced, K computed again over the result):
		// only the C check refuses it
		for pos := 0; pos < len(withC) && bad == ""; pos++ {
			mut := append([]int{}, withC...)
			mut[pos] = (mut[pos] + 1) % 47
			mut = append(mut, check(mut, 15))
			okv, e := try(mut)
			if e != "" {
				bad = e
			} else if okv {
				bad = fmt.Sprintf("a body of %d characters with character %d replaced and K computed again over the result is accepted: the C check is not made", n, pos)
			}
		}
		if bad != "" {
			break
		}
	}
	reportFold(r, c, "S-C93CHK", key, fd.Pos(), bad)
	r.DecidedByKeys("S-C93W", "S-C93CHK", "the reader's check function folded on bodies up to 40 characters: both weights cycle and both positions are covered",
		"code93CheckOneChecksum.transition", "code93CheckOneChecksum.compare", "oned.code93CheckChecksums", "oned.code93CheckOneChecksum")
}

// S-EXT5PARITY: the parity pattern of a 5-digit add-on names its check value, and only the ten patterns of the standard do.
func checkExt5Parity(c *Ctx, r *Report) {
	r.Rule("S-EXT5PARITY", "UPCEANExtension5Support.determineCheckDigit folded for every parity pattern 0..63 (bit 4 = first digit, a set bit = number set G): the ten patterns of the GS1 table (two G and three L: 0x18 0x14 0x12 0x11 0x0C 0x06 0x03 0x0A 0x09 0x05 for the check values 0..9) give their check value, every other pattern - fewer or more than two G among them - is refused", 1)
	fd, p := c.funcDeclOf("oned", "UPCEANExtension5Support.determineCheckDigit")
	key := "oned.UPCEANExtension5Support.determineCheckDigit/whole"
	if fd == nil {
		r.AnchorLost("S-EXT5PARITY", key, "method not found")
		return
	}
	r.Analysed(key)
	ref := map[int64]int64{0x18: 0, 0x14: 1, 0x12: 2, 0x11: 3, 0x0C: 4, 0x06: 5, 0x03: 6, 0x0A: 7, 0x09: 8, 0x05: 9}
	bad := ""
	for pat := int64(0); pat < 64 && bad == ""; pat++ {
		h := &rpf{unroll: 64}
		h.callHook = errCtorHook
		h.env = map[types.Object]*Val{}
		if ro := recvObj(p, fd); ro != nil {
			h.env[ro] = &Val{K: VStruct, Ptr: true, Fields: map[string]*Val{}}
		}
		res, err := c.rpfCall(fd, p, []*Val{vint(pat)}, h)
		want, legal := ref[pat]
		switch {
		case err != nil:
			bad = "?" + err.Error()
		case len(res) != 2:
			bad = "determineCheckDigit does not return (digit, error)"
		case legal && (res[1].K != VNil || !res[0].isInt() || res[0].I != want):
			bad = fmt.Sprintf("pattern %#02x is the standard's pattern of check value %d; got (%s, %s)", pat, want, res[0], res[1])
		case !legal && res[1].K == VNil:
			bad = fmt.Sprintf("pattern %#02x is no pattern of the standard and is accepted as check value %s", pat, res[0])
		}
	}
	reportFold(r, c, "S-EXT5PARITY", key, fd.Pos(), bad)
}
