package main

import (
	"fmt"
	"go/ast"
	"go/constant"
	"go/token"
	"go/types"
	"strings"

	"golang.org/x/tools/go/packages"
	"golang.org/x/tools/go/types/typeutil"
)

// Constant extraction: literals, named constants, constant expressions, composite literals and
// constructor calls are read structurally from the type-checked syntax. Nothing is executed.

type VKind int

const (
	VUnknown VKind = iota
	VInt
	VStr
	VBool
	VFloat
	VList   // array / slice / map literal (map: L = values, MapKeys = keys)
	VStruct // struct literal; Fields maps field name -> value (positional literals are resolved through the type)
	VCall   // call of a function: Fn + L (args)
	VNil
	VFuncLit
	VFunc // a declared function used as a value: Fn
)

type Val struct {
	K       VKind
	I       int64
	S       string
	B       bool
	F       float64
	L       []*Val
	MapKeys []*Val
	Fields  map[string]*Val
	Fn      types.Object
	Obj     types.Object // the package-level object this value was reached through, if any
	T       types.Type
	Pos     token.Pos
	Expr    ast.Expr
	Pkg     *packages.Package
	Ptr     bool
	Local   bool  // struct value created inside a fold (fields may be assigned there)
	Cap     int64 // lists made by make(T, len, cap) inside a fold: the capacity (0: the length)
}

func (v *Val) String() string {
	if v == nil {
		return "<nil>"
	}
	switch v.K {
	case VInt:
		return fmt.Sprint(v.I)
	case VStr:
		return fmt.Sprintf("%q", v.S)
	case VBool:
		return fmt.Sprint(v.B)
	case VFloat:
		return fmt.Sprint(v.F)
	case VList:
		var s []string
		for _, e := range v.L {
			s = append(s, e.String())
		}
		return "[" + strings.Join(s, ",") + "]"
	case VStruct:
		var s []string
		for k, e := range v.Fields {
			s = append(s, k+":"+e.String())
		}
		return "{" + strings.Join(s, ",") + "}"
	case VCall:
		var s []string
		for _, e := range v.L {
			s = append(s, e.String())
		}
		n := "?"
		if v.Fn != nil {
			n = v.Fn.Name()
		}
		return n + "(" + strings.Join(s, ",") + ")"
	case VNil:
		return "nil"
	case VFuncLit:
		return "func{...}"
	}
	return "?"
}

func (v *Val) isInt() bool { return v != nil && v.K == VInt }

// ints converts a VList of VInt to []int64.
func (v *Val) ints() ([]int64, bool) {
	// a row written as a struct of integers counts as the list of its fields in declaration order (a table of
	// {pattern, value} structs is the same table as one of two-element lists)
	if v != nil && v.K == VStruct && v.T != nil {
		t := v.T
		if pt, ok := t.Underlying().(*types.Pointer); ok {
			t = pt.Elem()
		}
		if st, ok := t.Underlying().(*types.Struct); ok && st.NumFields() > 0 {
			out := make([]int64, st.NumFields())
			for i := 0; i < st.NumFields(); i++ {
				f := v.Fields[st.Field(i).Name()]
				if f == nil || f.K != VInt {
					return nil, false
				}
				out[i] = f.I
			}
			return out, true
		}
	}
	if v == nil || v.K != VList {
		return nil, false
	}
	out := make([]int64, len(v.L))
	for i, e := range v.L {
		if e == nil || e.K != VInt {
			return nil, false
		}
		out[i] = e.I
	}
	return out, true
}

func (v *Val) field(name string) *Val {
	if v == nil || v.K != VStruct {
		return nil
	}
	return v.Fields[name]
}

type evaluator struct {
	c     *Ctx
	depth int
}

func (c *Ctx) eval(p *packages.Package, e ast.Expr) *Val {
	ev := &evaluator{c: c}
	return ev.eval(p, e)
}

func (ev *evaluator) eval(p *packages.Package, e ast.Expr) *Val {
	if e == nil {
		return &Val{K: VUnknown}
	}
	ev.depth++
	defer func() { ev.depth-- }()
	if ev.depth > 64 {
		return &Val{K: VUnknown, Expr: e, Pos: e.Pos(), Pkg: p}
	}
	info := p.TypesInfo
	tv, hasTV := info.Types[e]
	mk := func(k VKind) *Val {
		v := &Val{K: k, Expr: e, Pos: e.Pos(), Pkg: p}
		if hasTV {
			v.T = tv.Type
		}
		return v
	}
	if hasTV && tv.Value != nil {
		switch tv.Value.Kind() {
		case constant.Int:
			if i, ok := constant.Int64Val(tv.Value); ok {
				v := mk(VInt)
				v.I = i
				return v
			}
			if u, ok := constant.Uint64Val(tv.Value); ok {
				v := mk(VInt)
				v.I = int64(u)
				return v
			}
		case constant.String:
			v := mk(VStr)
			v.S = constant.StringVal(tv.Value)
			return v
		case constant.Bool:
			v := mk(VBool)
			v.B = constant.BoolVal(tv.Value)
			return v
		case constant.Float:
			// constant floats that are integral (e.g. untyped 1e3 assigned to int) stay floats unless typed int
			f, _ := constant.Float64Val(tv.Value)
			if b, ok := tv.Type.Underlying().(*types.Basic); ok && b.Info()&types.IsInteger != 0 {
				v := mk(VInt)
				v.I = int64(f)
				return v
			}
			v := mk(VFloat)
			v.F = f
			return v
		}
	}
	if hasTV && tv.IsNil() {
		return mk(VNil)
	}
	switch x := e.(type) {
	case *ast.ParenExpr:
		return ev.eval(p, x.X)
	case *ast.UnaryExpr:
		if x.Op == token.AND {
			v := ev.eval(p, x.X)
			if v != nil {
				v.Ptr = true
			}
			return v
		}
	case *ast.FuncLit:
		return mk(VFuncLit)
	case *ast.CompositeLit:
		return ev.evalComposite(p, x, tv.Type)
	case *ast.CallExpr:
		// conversion?
		if ftv, ok := info.Types[x.Fun]; ok && ftv.IsType() && len(x.Args) == 1 {
			inner := ev.eval(p, x.Args[0])
			if inner != nil && inner.K != VUnknown {
				// string([]byte) etc. not handled; numeric conversions keep the value
				inner2 := *inner
				inner2.T = ftv.Type
				return &inner2
			}
			return mk(VUnknown)
		}
		callee := typeutil.Callee(info, x)
		v := mk(VCall)
		v.Fn = callee
		for _, a := range x.Args {
			v.L = append(v.L, ev.eval(p, a))
		}
		return v
	case *ast.Ident:
		obj := info.Uses[x]
		if obj == nil {
			obj = info.Defs[x]
		}
		return ev.evalObj(obj, mk)
	case *ast.SelectorExpr:
		if obj, ok := info.Uses[x.Sel]; ok {
			if _, isVar := obj.(*types.Var); isVar && obj.Parent() == obj.Pkg().Scope() {
				return ev.evalObj(obj, mk)
			}
		}
	}
	return mk(VUnknown)
}

func (ev *evaluator) evalObj(obj types.Object, mk func(VKind) *Val) *Val {
	if obj == nil {
		return mk(VUnknown)
	}
	if fn, ok := obj.(*types.Func); ok && ev.c.funcDecl[fn] != nil {
		v := mk(VFunc) // a declared function of the module used as a value (an entry of a table of functions)
		v.Fn = fn
		return v
	}
	if vr, ok := obj.(*types.Var); ok && vr.Pkg() != nil && vr.Parent() == vr.Pkg().Scope() {
		init, ip := ev.c.varInitOfObj(obj)
		if init != nil {
			v := ev.eval(ip, init)
			if v != nil {
				v2 := *v
				v2.Obj = obj
				return &v2
			}
		}
		v := mk(VUnknown)
		v.Obj = obj
		return v
	}
	v := mk(VUnknown)
	v.Obj = obj
	return v
}

func (ev *evaluator) evalComposite(p *packages.Package, cl *ast.CompositeLit, t types.Type) *Val {
	info := p.TypesInfo
	if t == nil {
		if tv, ok := info.Types[cl]; ok {
			t = tv.Type
		}
	}
	v := &Val{Expr: cl, Pos: cl.Pos(), Pkg: p, T: t}
	if t == nil {
		v.K = VUnknown
		return v
	}
	ut := t.Underlying()
	if pt, ok := ut.(*types.Pointer); ok {
		ut = pt.Elem().Underlying()
		v.Ptr = true
	}
	switch st := ut.(type) {
	case *types.Struct:
		v.K = VStruct
		v.Fields = map[string]*Val{}
		for i, el := range cl.Elts {
			if kv, ok := el.(*ast.KeyValueExpr); ok {
				if id, ok := kv.Key.(*ast.Ident); ok {
					v.Fields[id.Name] = ev.evalElt(p, kv.Value)
				}
				continue
			}
			if i < st.NumFields() {
				v.Fields[st.Field(i).Name()] = ev.evalElt(p, el)
			}
		}
		return v
	case *types.Slice, *types.Array:
		v.K = VList
		idx := int64(0)
		sparse := map[int64]*Val{}
		max := int64(-1)
		for _, el := range cl.Elts {
			if kv, ok := el.(*ast.KeyValueExpr); ok {
				k := ev.eval(p, kv.Key)
				if k.K != VInt {
					v.K = VUnknown
					return v
				}
				idx = k.I
				sparse[idx] = ev.evalElt(p, kv.Value)
			} else {
				sparse[idx] = ev.evalElt(p, el)
			}
			if idx > max {
				max = idx
			}
			idx++
		}
		n := max + 1
		if at, ok := st.(*types.Array); ok && at.Len() > n {
			n = at.Len()
		}
		v.L = make([]*Val, n)
		for i := int64(0); i < n; i++ {
			if e, ok := sparse[i]; ok {
				v.L[i] = e
			} else {
				v.L[i] = &Val{K: VInt, I: 0, Pos: cl.Pos(), Pkg: p} // zero value (numeric element types only are compared)
			}
		}
		return v
	case *types.Map:
		v.K = VList
		for _, el := range cl.Elts {
			if kv, ok := el.(*ast.KeyValueExpr); ok {
				v.MapKeys = append(v.MapKeys, ev.eval(p, kv.Key))
				v.L = append(v.L, ev.evalElt(p, kv.Value))
			}
		}
		return v
	}
	v.K = VUnknown
	return v
}

func (ev *evaluator) evalElt(p *packages.Package, e ast.Expr) *Val {
	if cl, ok := e.(*ast.CompositeLit); ok {
		return ev.evalComposite(p, cl, nil)
	}
	return ev.eval(p, e)
}

// constInt evaluates a constant integer expression.
func constInt(p *packages.Package, e ast.Expr) (int64, bool) {
	tv, ok := p.TypesInfo.Types[e]
	if !ok || tv.Value == nil {
		return 0, false
	}
	if tv.Value.Kind() == constant.Int {
		if i, ok := constant.Int64Val(tv.Value); ok {
			return i, true
		}
	}
	if tv.Value.Kind() == constant.Float {
		f, _ := constant.Float64Val(tv.Value)
		if f == float64(int64(f)) {
			return int64(f), true
		}
	}
	return 0, false
}

func constantInt64(v constant.Value) (int64, bool) {
	if v == nil {
		return 0, false
	}
	if v.Kind() == constant.Int {
		return constant.Int64Val(v)
	}
	if v.Kind() == constant.Float {
		f, _ := constant.Float64Val(v)
		if f == float64(int64(f)) {
			return int64(f), true
		}
	}
	return 0, false
}
