package main

import (
	"fmt"
	"go/ast"
	"go/constant"
	"go/token"
	"go/types"
	"sort"
	"strings"

	"golang.org/x/tools/go/packages"
	"golang.org/x/tools/go/ssa"
	"golang.org/x/tools/go/types/typeutil"
)

func init() {
	registerProp("C09", "Located symbols are never misread; orientation and mirroring are handled", checkC09)
}

func checkC09(c *Ctx, r *Report) {
	checkMirroredCorrection(c, r)
	checkLuma(c, r)                             // grey levels survive the colour conversion (also C17)
	checkImageRead(c, r)                        // the pixels the readers work on are the image's: every image type is read at its own coordinates (also C17)
	checkUPCDigitLoops(c, r)                    // an upside-down EAN-8 row is not taken for digits: only the L patterns are matched there (also C10)
	checkSharedStores(c, r, "oned,gozxing", 10) // results and their metadata are not shared between reads (also C18)

	checkResultSites(c, r)
	// the integrity mechanisms the classification refers to (same obligations as under C05 / C10 / C11)
	checkRSFullParity(c, r)
	checkRSWord(c, r)
	checkRowScan(c, r)
	checkHintForwarding(c, r)
	checkCode128RoundTrip(c, r) // the Code 128 reader's state machine returns what the writer wrote (no silent trimming)
	checkQRAlnumPair(c, r)      // the reader's alphanumeric table is the writer's and the standard's: a symbol that passes every check is not read as other characters (also C01)
	r.Rule("S-RSACCEPT", "ReedSolomonDecoder.Decode, folded from source with everything it calls over every one of the 16^3 words of length 3 with 2 check symbols - in GF(16) with generator base 1 (the Data Matrix / Aztec convention) and base 0 (the QR convention) - either reports an error or leaves a codeword at most one symbol away from the word it was given: a sampled grid that is not within the correction radius of a codeword is rejected, never delivered", 2)
	accDoms := []rsAcceptDom{{newRefGF(0x13, 16, 1), "GF(16)/0x13 base 1", 3, 2}, {newRefGF(0x13, 16, 0), "GF(16)/0x13 base 0", 3, 2}}
	if c.Tier == "thorough" {
		accDoms = append(accDoms, rsAcceptDom{newRefGF(0x13, 16, 1), "GF(16)/0x13 base 1", 4, 3}, rsAcceptDom{newRefGF(0x13, 16, 0), "GF(16)/0x13 base 0", 4, 4}, rsAcceptDom{newRefGF(0x13, 16, 1), "GF(16)/0x13 base 1", 4, 4})
	}
	checkRSAccept(c, r, "S-RSACCEPT", accDoms)
	checkUPCEANReaderEnforces(c, r)
	checkCode128Checksum(c, r)
	checkCode93Checksum(c, r)
	checkAztecRSBeforeUnstuff(c, r)
	checkMirrorRetry(c, r)
	checkOrientation(c, r)
	nf := c.newNilFlow()
	readers := nf.entryMethods("", "Reader", "Decode")
	runEKIND(c, r, nf, readers, 5)
	r.Note("decided: the mechanism the negative guarantee rests on (every Result construction is behind an integrity check or derives from a checked result), the mirrored retry protocol and flag, the 180/270 degree orientation bookkeeping, and the error kinds of the readers. Not decided: anything about finder-pattern detection, sampling and binarisation on concrete images, nor the residual probability that a mis-sampled grid passes Reed-Solomon / the check digit; Code 39, ITF and Codabar have no mandatory check character - their sites are listed, not claimed")
}

// ---------------------------------------------------------------------------------------------------------------
// M-RESULT: every construction of a Result is classified and its class is checked
// ---------------------------------------------------------------------------------------------------------------

type resultSiteClass struct {
	class string // decoder | check | derived | unchecked | merge
	arg   string // class-specific: name of the check function
	why   string
}

// Frozen by reading the pinned tree: function that constructs a Result -> where its integrity comes from.
var resultSites = map[string]resultSiteClass{
	"qrcode.QRCodeReader.Decode":                    {"decoder", "", "text of the DecoderResult of qrcode/decoder.Decoder.Decode (format BCH + per-block Reed-Solomon)"},
	"multi/qrcode.QRCodeMultiReader.DecodeMultiple": {"decoder", "", "text of the DecoderResult of qrcode/decoder.Decoder.Decode"},
	"multi/qrcode.processStructuredAppend":          {"merge", "", "concatenation of the texts of already constructed QR results (structured append)"},
	"datamatrix.DataMatrixReader.Decode":            {"decoder", "", "text of the DecoderResult of datamatrix/decoder.Decoder.Decode (per-block Reed-Solomon)"},
	"aztec.AztecReader.Decode":                      {"decoder", "", "text of the DecoderResult of aztec/decoder.Decoder.Decode (Reed-Solomon before unstuffing)"},
	"oned.code93Reader.DecodeRow":                   {"check", "code93CheckChecksums", "two mod-47 check characters"},
	"oned.code128Reader.DecodeRow":                  {"check", "", "mod-103 check symbol (rule S-C128MOD decides the comparison and its error exit)"},
	"oned.upceanReader.decodeRowWithStartRange":     {"check", "checkChecksum", "mod-10 check digit"},
	"oned.multiFormatUPCEANReader.DecodeRow":        {"derived", "", "EAN-13 result with leading 0 re-labelled UPC-A: the text minus its first character"},
	"oned.maybeReturnResult":                        {"derived", "", "EAN-13 result with leading 0 re-labelled UPC-A"},
	"oned.UPCEANExtension5Support.decodeRow":        {"check", "", "extension check digit (rule M-CHECK-EXT under C10)"},
	"oned.UPCEANExtension2Support.decodeRow":        {"check", "", "extension parity (rule M-CHECK-EXT under C10)"},
	"oned/rss.constructResult":                      {"check", "checkChecksum", "mod-79 checksum over both pairs, tested at the only call site"},
	"oned.code39Reader.DecodeRow":                   {"unchecked", "", "Code 39 has no mandatory check character (optional mod-43 when the reader is configured for it)"},
	"oned.codabarReader.DecodeRow":                  {"unchecked", "", "Codabar has no check character; validatePattern re-measures every character against the averaged widths"},
	"oned.itfReader.DecodeRow":                      {"unchecked", "", "ITF has no mandatory check character; only the allowed-length filter"},
}

func isNewResult(o types.Object) bool {
	return isFuncNamed(o, "", "NewResult") || isFuncNamed(o, "", "NewResultWithNumBits") || isFuncNamed(o, "", "NewResultWithTimestamp")
}

func checkResultSites(c *Ctx, r *Report) {
	r.Rule("M-RESULT", "every construction of a gozxing.Result outside result.go is one of the classified sites, and the class holds: decoder (the text is X.GetText() where X is only ever assigned from a decoder's Decode), check (the construction is dominated by the named integrity check with an error exit on failure), derived (the text is a checked result's text minus a leading '0', under exactly that test), unchecked (symbologies without a mandatory check character: listed, not claimed)", 16)
	var keys []string
	type site struct {
		fd   *ast.FuncDecl
		p    *packages.Package
		call *ast.CallExpr
	}
	sites := map[string][]site{}
	for _, p := range c.PkgList {
		if strings.HasSuffix(p.PkgPath, "/testutil") {
			continue
		}
		for _, f := range p.Syntax {
			if strings.HasSuffix(c.Fset.Position(f.Pos()).Filename, "/result.go") && p.PkgPath == modPath {
				continue
			}
			for _, d := range f.Decls {
				fd, ok := d.(*ast.FuncDecl)
				if !ok || fd.Body == nil {
					continue
				}
				for _, call := range findCalls(p, fd.Body, isNewResult) {
					k := fdKey(p, fd)
					if len(sites[k]) == 0 {
						keys = append(keys, k)
					}
					sites[k] = append(sites[k], site{fd, p, call})
				}
			}
		}
	}
	sort.Strings(keys)
	for _, k := range keys {
		for i, st := range sites[k] {
			key := fmt.Sprintf("%s#%d", k, i)
			r.Analysed("result site " + key)
			cls, ok := resultSites[k]
			if !ok {
				r.Fail("M-RESULT", key, c.pos(st.call.Pos()), "violation", "a Result is constructed at a site that is not classified: where does the integrity of its text come from?")
				continue
			}
			bad := ""
			switch cls.class {
			case "decoder":
				bad = checkDecoderSite(st.p, st.fd, st.call)
			case "check":
				if cls.arg != "" {
					bad = checkCheckedSite(c, st.p, st.fd, st.call, cls.arg)
				}
			case "derived":
				bad = checkDerivedSite(st.p, st.fd, st.call)
			}
			if bad == "" {
				r.Pass("M-RESULT", key, c.pos(st.call.Pos()), cls.class+": "+cls.why)
			} else {
				r.Fail("M-RESULT", key, c.pos(st.call.Pos()), "violation", bad)
			}
		}
	}
	for k := range resultSites {
		if len(sites[k]) == 0 {
			r.AnchorLost("M-RESULT", k, "classified Result construction site no longer exists")
		}
	}
}

// decoder class: arg0 is X.GetText(); every assignment to X in the function is `X, e = <decoder>.Decode(...)`.
func checkDecoderSite(p *packages.Package, fd *ast.FuncDecl, call *ast.CallExpr) string {
	tc, ok := ast.Unparen(call.Args[0]).(*ast.CallExpr)
	if !ok {
		return "the result text is not decoderResult.GetText()"
	}
	sel, ok := tc.Fun.(*ast.SelectorExpr)
	if !ok || sel.Sel.Name != "GetText" {
		return "the result text is not decoderResult.GetText()"
	}
	x := identObj(p, sel.X)
	if x == nil || !strings.HasSuffix(x.Type().String(), "common.DecoderResult") {
		return "the result text does not come from a *common.DecoderResult variable"
	}
	bad := ""
	n := 0
	ast.Inspect(fd.Body, func(nd ast.Node) bool {
		switch as := nd.(type) {
		case *ast.AssignStmt:
			for i, l := range as.Lhs {
				if identObj(p, l) != x {
					continue
				}
				n++
				var rhs ast.Expr
				if len(as.Rhs) == 1 {
					rhs = as.Rhs[0]
				} else {
					rhs = as.Rhs[i]
				}
				rc, isC := ast.Unparen(rhs).(*ast.CallExpr)
				if !isC {
					bad = "the decoder result is assigned from something other than a decoder call"
					continue
				}
				fn, isF := typeutil.Callee(p.TypesInfo, rc).(*types.Func)
				if !isF || fn.Name() != "Decode" || fn.Pkg() == nil || !strings.HasSuffix(fn.Pkg().Path(), "/decoder") {
					bad = "the decoder result is assigned from " + exprString(rc.Fun) + ", not from a decoder package's Decode"
				}
			}
		case *ast.UnaryExpr:
			if as.Op == token.AND && identObj(p, as.X) == x {
				bad = "the decoder result variable has its address taken"
			}
		}
		return true
	})
	if bad == "" && n == 0 {
		bad = "the decoder result is never assigned from a decoder"
	}
	return bad
}

// check class: a call to the named function precedes the construction and its failure leaves with an error; for a
// helper that only constructs (rss.constructResult) the test is made at its call sites.
func checkCheckedSite(c *Ctx, p *packages.Package, fd *ast.FuncDecl, call *ast.CallExpr, check string) string {
	named := func(o types.Object) bool {
		fn, ok := o.(*types.Func)
		return ok && fn.Name() == check
	}
	if calls := findCalls(p, fd.Body, named); len(calls) > 0 {
		// some call of the check precedes, followed by an error exit that depends on it
		gi, _ := guardsOf(fd.Body, enclosingStmt(fd.Body, call))
		for _, st := range gi.Preceding {
			if len(findCalls(p, st, named)) == 0 {
				continue
			}
			// either the statement itself is `if e := check(); e != nil { return err }` or an early exit follows that tests its results
			var outs []types.Object
			if as, isA := st.(*ast.AssignStmt); isA {
				for _, l := range as.Lhs {
					if o := identObj(p, l); o != nil {
						outs = append(outs, o)
					}
				}
			}
			if ifs, isI := st.(*ast.IfStmt); isI && blockReturnsError(p, ifs.Body.List, nil) {
				return ""
			}
			for _, g := range gi.EarlyExits {
				if g.Pos() < st.End() || !blockReturnsError(p, g.Body.List, nil) {
					continue
				}
				for _, o := range outs {
					if usesIdent(p, g.Cond, o) {
						return ""
					}
				}
			}
		}
		return "the call of " + check + " is not followed by an error exit on failure before the Result is constructed"
	}
	// helper: every call site of fd is under a condition that calls the check
	fnObj, _ := p.TypesInfo.Defs[fd.Name].(*types.Func)
	nsites := 0
	bad := ""
	for _, f := range p.Syntax {
		for _, d := range f.Decls {
			ofd, ok := d.(*ast.FuncDecl)
			if !ok || ofd.Body == nil {
				continue
			}
			for _, cs := range findCalls(p, ofd.Body, func(o types.Object) bool { return o == fnObj && o != nil }) {
				nsites++
				gi, _ := guardsOf(ofd.Body, enclosingStmt(ofd.Body, cs))
				guarded := false
				for _, e := range gi.Enclosing {
					if ifs, isI := e.Node.(*ast.IfStmt); isI && e.Branch && len(findCalls(p, ifs.Cond, named)) > 0 {
						// the check must be a conjunct of the condition (cond true => check true)
						if conjunctCalls(p, ifs.Cond, named) {
							guarded = true
						}
					}
				}
				if !guarded {
					bad = c.pos(cs.Pos()) + ": " + fd.Name.Name + " is called without " + check + "(...) holding"
				}
			}
		}
	}
	if nsites == 0 {
		return "no call site of " + fd.Name.Name + " found and no " + check + " inside it"
	}
	return bad
}

// conjunctCalls: cond is a conjunction one of whose conjuncts is a call satisfying pred.
func conjunctCalls(p *packages.Package, cond ast.Expr, pred func(types.Object) bool) bool {
	cond = ast.Unparen(cond)
	if be, ok := cond.(*ast.BinaryExpr); ok && be.Op == token.LAND {
		return conjunctCalls(p, be.X, pred) || conjunctCalls(p, be.Y, pred)
	}
	if call, ok := cond.(*ast.CallExpr); ok {
		return pred(typeutil.Callee(p.TypesInfo, call))
	}
	return false
}

// derived class: arg0 is T[1:] where T is (a variable holding) R.GetText() of an existing Result, and the site is
// under a condition implying T[0] == '0'.
func checkDerivedSite(p *packages.Package, fd *ast.FuncDecl, call *ast.CallExpr) string {
	sl, ok := ast.Unparen(call.Args[0]).(*ast.SliceExpr)
	if !ok || sl.High != nil || sl.Low == nil {
		return "the derived text is not <text>[1:]"
	}
	if v, isK := constInt(p, sl.Low); !isK || v != 1 {
		return "the derived text is not <text>[1:]"
	}
	textOf := func(e ast.Expr) string {
		e = ast.Unparen(e)
		if id := identObj(p, e); id != nil {
			// a local assigned once from R.GetText()
			var src string
			ast.Inspect(fd.Body, func(n ast.Node) bool {
				if as, isA := n.(*ast.AssignStmt); isA && len(as.Lhs) == 1 && identObj(p, as.Lhs[0]) == id && len(as.Rhs) == 1 {
					src = exprString(as.Rhs[0])
				}
				return true
			})
			return src
		}
		return exprString(e)
	}
	base := textOf(sl.X)
	if !strings.HasSuffix(base, ".GetText()") {
		return "the derived text does not come from an existing Result's GetText()"
	}
	// the guard
	gi, _ := guardsOf(fd.Body, enclosingStmt(fd.Body, call))
	zeroCmp := func(e ast.Expr, op token.Token) bool {
		be, ok := ast.Unparen(e).(*ast.BinaryExpr)
		if !ok || be.Op != op {
			return false
		}
		ix, ok := ast.Unparen(be.X).(*ast.IndexExpr)
		if !ok || textOf(ix.X) != base {
			return false
		}
		if i, isK := constInt(p, ix.Index); !isK || i != 0 {
			return false
		}
		tv, has := p.TypesInfo.Types[be.Y]
		if !has || tv.Value == nil {
			return false
		}
		v, exact := constant.Int64Val(constant.ToInt(tv.Value))
		return exact && v == '0'
	}
	isZeroTest := func(e ast.Expr) bool { return zeroCmp(e, token.EQL) }
	var holds func(e ast.Expr) bool
	// fails(e): e being false implies the first character is '0' (the guard-clause spelling of the test)
	var fails func(e ast.Expr) bool
	fails = func(e ast.Expr) bool {
		e = ast.Unparen(e)
		if be, ok := e.(*ast.BinaryExpr); ok && be.Op == token.LOR {
			return fails(be.X) || fails(be.Y)
		}
		if u, ok := e.(*ast.UnaryExpr); ok && u.Op == token.NOT {
			return holds(u.X)
		}
		return zeroCmp(e, token.NEQ)
	}
	holds = func(e ast.Expr) bool {
		e = ast.Unparen(e)
		if be, ok := e.(*ast.BinaryExpr); ok && be.Op == token.LAND {
			return holds(be.X) || holds(be.Y)
		}
		if isZeroTest(e) {
			return true
		}
		// a boolean variable defined as a conjunction containing the test
		if id := identObj(p, e); id != nil {
			found := false
			ast.Inspect(fd.Body, func(n ast.Node) bool {
				if as, isA := n.(*ast.AssignStmt); isA && len(as.Lhs) == 1 && identObj(p, as.Lhs[0]) == id && len(as.Rhs) == 1 && as.Tok == token.DEFINE {
					found = holds(as.Rhs[0])
				}
				return true
			})
			return found
		}
		return false
	}
	guarded := false
	for _, e := range gi.Enclosing {
		if ifs, isI := e.Node.(*ast.IfStmt); isI && e.Branch && holds(ifs.Cond) {
			guarded = true
		}
	}
	for _, g := range gi.EarlyExits {
		if fails(g.Cond) {
			guarded = true
		}
	}
	if !guarded {
		return "the UPC-A re-labelling drops the first character without testing that it is '0'"
	}
	// the metadata of the checked result (orientation, symbology identifier, extension) moves to the new one
	srcName := strings.TrimSuffix(base, ".GetText()")
	var newObj types.Object
	if as, isA := enclosingStmt(fd.Body, call).(*ast.AssignStmt); isA && len(as.Lhs) == 1 {
		newObj = identObj(p, as.Lhs[0])
	}
	if newObj == nil {
		return "the re-labelled result is not kept in a variable, so the source's metadata cannot have been copied"
	}
	copied := ""
	for _, pc := range findCalls(p, fd.Body, func(o types.Object) bool { return isMethodNamed(o, "", "Result", "PutAllMetadata") }) {
		sel, isS := pc.Fun.(*ast.SelectorExpr)
		if !isS || identObj(p, sel.X) != newObj || len(pc.Args) != 1 {
			continue
		}
		if exprString(pc.Args[0]) != srcName+".GetResultMetadata()" {
			copied = "PutAllMetadata does not copy the metadata of the source result " + srcName
			continue
		}
		copied = "ok"
		// a guard around the copy may only test the source's metadata
		g, _ := guardsOf(fd.Body, enclosingStmt(fd.Body, pc))
		for _, e := range g.Enclosing {
			ifs, isI := e.Node.(*ast.IfStmt)
			if !isI || ifs.Pos() < call.Pos() {
				continue
			}
			if usesIdent(p, ifs.Cond, newObj) || exprString(ifs.Cond) != srcName+".GetResultMetadata() != nil" {
				copied = "the metadata copy is guarded by `" + exprString(ifs.Cond) + "`; only a nil test of the source's metadata may guard it (the new result's metadata is always empty here)"
			}
		}
	}
	switch copied {
	case "ok":
		return ""
	case "":
		return "the re-labelled result does not receive the source result's metadata (ORIENTATION, symbology identifier): PutAllMetadata(" + srcName + ".GetResultMetadata()) missing"
	}
	return copied
}

// ---------------------------------------------------------------------------------------------------------------
// M-MIRROR
// ---------------------------------------------------------------------------------------------------------------

func checkMirrorRetry(c *Ctx, r *Report) {
	defer checkMirrorWhole(c, r)
	defer func() {
		checkQRInfoReadWhole(c, r)
		r.DecidedByKeys("M-MIRROR", "S-INFOREADW", "the format and version words of a mirrored symbol are read from the transposed modules, bit by bit", "BitMatrixParser.copyBit")
	}()
	r.Rule("M-MIRROR", "qrcode/decoder.Decoder.Decode: the first success is returned unflagged; the retry re-masks the matrix, switches the parser to mirrored reading (which forgets the parsed version/format), re-reads version and format, transposes the matrix and decodes again - in that order, each step under `no error so far` - and its success is returned only after SetOther(NewQRCodeDecoderMetaData(true)); copyBit reads (j,i) when mirrored; Mirror swaps (x,y) with (y,x) over the upper triangle; both QR readers apply the mirrored correction to the points", 8)
	fd, p := c.funcDeclOf("qrcode/decoder", "Decoder.Decode")
	key := "qrcode/decoder.Decoder.Decode"
	if fd == nil {
		r.AnchorLost("M-MIRROR", key, "method not found")
	} else {
		r.Analysed(key)
		// statement order of the protocol on the top level of the body
		type step struct {
			name string
			pred func(o types.Object, call *ast.CallExpr) bool
		}
		method := func(name string) func(o types.Object, call *ast.CallExpr) bool {
			return func(o types.Object, call *ast.CallExpr) bool {
				fn, ok := o.(*types.Func)
				return ok && fn.Name() == name
			}
		}
		steps := []step{
			{"decode", method("decode")},
			{"Remask", method("Remask")},
			{"SetMirror(true)", func(o types.Object, call *ast.CallExpr) bool {
				if !method("SetMirror")(o, call) || len(call.Args) != 1 {
					return false
				}
				tv := p.TypesInfo.Types[call.Args[0]]
				return tv.Value != nil && constant.BoolVal(tv.Value)
			}},
			{"ReadVersion", method("ReadVersion")},
			{"ReadFormatInformation", method("ReadFormatInformation")},
			{"Mirror", method("Mirror")},
			{"decode", method("decode")},
			{"SetOther", method("SetOther")},
		}
		var seq []*ast.CallExpr
		si := 0
		for _, st := range fd.Body.List {
			for si < len(steps) {
				found := findCalls(p, st, func(o types.Object) bool { return true })
				var hit *ast.CallExpr
				for _, cl := range found {
					if steps[si].pred(typeutil.Callee(p.TypesInfo, cl), cl) {
						hit = cl
						break
					}
				}
				if hit == nil {
					break
				}
				seq = append(seq, hit)
				si++
				// several steps may not share one statement except nested ones like SetOther(New...(true))
				break
			}
		}
		if si < len(steps) {
			r.Fail("M-MIRROR", key+"/protocol", c.pos(fd.Pos()), "violation", "the mirrored retry must run decode, Remask, SetMirror(true), ReadVersion, ReadFormatInformation, Mirror, decode, SetOther in this order; step `"+steps[si].name+"` is missing or out of order")
		} else {
			r.Pass("M-MIRROR", key+"/protocol", c.pos(fd.Pos()), "")
			// steps from ReadVersion on run only under `e == nil`
			bad := ""
			for i := 3; i < len(seq); i++ {
				gi, _ := guardsOf(fd.Body, enclosingStmt(fd.Body, seq[i]))
				ok := false
				for _, e := range gi.Enclosing {
					if ifs, isI := e.Node.(*ast.IfStmt); isI && e.Branch {
						if be, isB := ast.Unparen(ifs.Cond).(*ast.BinaryExpr); isB && be.Op == token.EQL && isErrorType(p.TypesInfo.TypeOf(be.X)) {
							ok = true
						}
					}
				}
				if !ok {
					bad = "step `" + steps[i].name + "` of the mirrored retry is not conditional on the previous steps having succeeded"
					break
				}
			}
			r.Check(bad == "", "M-MIRROR", key+"/conditional", c.pos(fd.Pos()), bad)
			// the flag: SetOther(NewQRCodeDecoderMetaData(true)) and the return right after it in the same block
			so := seq[len(seq)-1]
			okFlag := false
			if len(so.Args) == 1 {
				if inner, isC := ast.Unparen(so.Args[0]).(*ast.CallExpr); isC && len(inner.Args) == 1 && isFuncNamed(typeutil.Callee(p.TypesInfo, inner), "qrcode/decoder", "NewQRCodeDecoderMetaData") {
					tv := p.TypesInfo.Types[inner.Args[0]]
					okFlag = tv.Value != nil && constant.BoolVal(tv.Value)
				}
			}
			okRet := false
			gi, _ := guardsOf(fd.Body, enclosingStmt(fd.Body, so))
			if len(gi.Enclosing) > 0 {
				if ifs, isI := gi.Enclosing[len(gi.Enclosing)-1].Node.(*ast.IfStmt); isI {
					list := ifs.Body.List
					for i, st := range list {
						if st == enclosingStmt(fd.Body, so) && i+1 < len(list) {
							if rs, isR := list[i+1].(*ast.ReturnStmt); isR && len(rs.Results) == 2 {
								// returns the object SetOther was called on
								if sel, isS := so.Fun.(*ast.SelectorExpr); isS && identObj(p, sel.X) != nil && identObj(p, sel.X) == identObj(p, rs.Results[0]) {
									okRet = true
								}
							}
						}
					}
				}
			}
			r.Check(okFlag && okRet, "M-MIRROR", key+"/flag", c.pos(so.Pos()), fmt.Sprintf("the mirrored success must be flagged with NewQRCodeDecoderMetaData(true) (%v) on the very result that is returned next (%v)", okFlag, okRet))
			// the first success is returned before any SetOther
			first := seq[0]
			okFirst := false
			for i, st := range fd.Body.List {
				if st == enclosingStmt(fd.Body, first) && i+1 < len(fd.Body.List) {
					if ifs, isI := fd.Body.List[i+1].(*ast.IfStmt); isI && terminates(ifs.Body.List) && len(findCalls(p, ifs, method2("SetOther"))) == 0 {
						if be, isB := ast.Unparen(ifs.Cond).(*ast.BinaryExpr); isB && be.Op == token.EQL && isErrorType(p.TypesInfo.TypeOf(be.X)) {
							okFirst = true
						}
					}
				}
			}
			r.Check(okFirst, "M-MIRROR", key+"/unmirrored", c.pos(first.Pos()), "a successful first reading must be returned at once, without the mirrored flag")
		}
	}
	// SetMirror forgets the parsed version and format
	if fd, p := c.funcDeclOf("qrcode/decoder", "BitMatrixParser.SetMirror"); fd != nil {
		k := "qrcode/decoder.BitMatrixParser.SetMirror"
		r.Analysed(k)
		cleared := map[string]bool{}
		setsMirror := false
		for _, st := range fd.Body.List {
			if as, ok := st.(*ast.AssignStmt); ok && len(as.Lhs) == 1 && len(as.Rhs) == 1 {
				if sel, isS := as.Lhs[0].(*ast.SelectorExpr); isS {
					if id, isI := ast.Unparen(as.Rhs[0]).(*ast.Ident); isI && id.Name == "nil" {
						cleared[sel.Sel.Name] = true
					}
					if sel.Sel.Name == "mirror" && identObj(p, as.Rhs[0]) == paramObjs(p, fd)[0] {
						setsMirror = true
					}
				}
			}
		}
		r.Check(cleared["parsedVersion"] && cleared["parsedFormatInfo"] && setsMirror, "M-MIRROR", k, c.pos(fd.Pos()), "SetMirror must store the flag and clear parsedVersion and parsedFormatInfo: otherwise the mirrored attempt reuses the version/format read from the unmirrored positions")
	} else {
		r.AnchorLost("M-MIRROR", "qrcode/decoder.BitMatrixParser.SetMirror", "method not found")
	}
	// copyBit
	if fd, p := c.funcDeclOf("qrcode/decoder", "BitMatrixParser.copyBit"); fd != nil {
		k := "qrcode/decoder.BitMatrixParser.copyBit"
		r.Analysed(k)
		ps := paramObjs(p, fd)
		ok := 0
		for _, call := range findCalls(p, fd.Body, func(o types.Object) bool { return isMethodNamed(o, "", "BitMatrix", "Get") }) {
			gi, _ := guardsOf(fd.Body, enclosingStmt(fd.Body, call))
			if len(gi.Enclosing) == 0 {
				continue
			}
			e := gi.Enclosing[len(gi.Enclosing)-1]
			ifs, isI := e.Node.(*ast.IfStmt)
			if !isI {
				continue
			}
			sel, isS := ast.Unparen(ifs.Cond).(*ast.SelectorExpr)
			if !isS || sel.Sel.Name != "mirror" {
				continue
			}
			a0, a1 := identObj(p, call.Args[0]), identObj(p, call.Args[1])
			if e.Branch && a0 == ps[1] && a1 == ps[0] {
				ok++
			}
			if !e.Branch && a0 == ps[0] && a1 == ps[1] {
				ok++
			}
		}
		r.Check(ok == 2, "M-MIRROR", k, c.pos(fd.Pos()), "copyBit(i, j) must read Get(j, i) when mirrored and Get(i, j) otherwise")
	} else {
		r.AnchorLost("M-MIRROR", "qrcode/decoder.BitMatrixParser.copyBit", "method not found")
	}
	// Mirror: transposition
	if fd, p := c.funcDeclOf("qrcode/decoder", "BitMatrixParser.Mirror"); fd != nil {
		k := "qrcode/decoder.BitMatrixParser.Mirror"
		r.Analysed(k)
		s := c.newSymExec(p)
		s.pure = func(o types.Object) bool { return true }
		s.block(fd.Body.List)
		var flips [][2]*Poly
		var conds []symCond
		for _, cl := range s.calls {
			if isMethodNamed(cl.Callee, "", "BitMatrix", "Flip") && len(cl.Args) == 2 {
				flips = append(flips, [2]*Poly{cl.Args[0], cl.Args[1]})
				conds = cl.Conds
			}
		}
		bad := ""
		if len(flips) != 2 {
			bad = "expected the two Flip calls of a transposition"
		} else {
			ks := kAtomsOf(flips[0][0], flips[0][1])
			if len(ks) != 2 || !(flips[0][0].equal(flips[1][1]) && flips[0][1].equal(flips[1][0])) || flips[0][0].equal(flips[0][1]) {
				bad = "the two flipped cells must be (a,b) and (b,a)"
			} else {
				// the guard compares Get(a,b) with Get(b,a)
				okG := false
				a, b := flips[0][0].String(), flips[0][1].String()
				for _, cd := range conds {
					if cd.op == token.NEQ && !cd.neg {
						l, rr := cd.l.String(), cd.r.String()
						if strings.Contains(l, "Get(") && strings.Contains(rr, "Get(") && l != rr &&
							((strings.HasSuffix(l, ";"+a+";"+b+")") && strings.HasSuffix(rr, ";"+b+";"+a+")")) || (strings.HasSuffix(l, ";"+b+";"+a+")") && strings.HasSuffix(rr, ";"+a+";"+b+")"))) {
							okG = true
						}
					}
				}
				if !okG {
					bad = "the cells are flipped only when Get(a,b) != Get(b,a)"
				}
				// upper triangle: the inner counter starts at the outer one or above it (never from 0)
				tri := false
				var outer types.Object
				ast.Inspect(fd.Body, func(n ast.Node) bool {
					if l, ok := n.(*ast.ForStmt); ok {
						if as, isA := l.Init.(*ast.AssignStmt); isA && len(as.Rhs) == 1 && len(as.Lhs) == 1 {
							if outer == nil {
								outer = identObj(p, as.Lhs[0])
								return true
							}
							rhs := ast.Unparen(as.Rhs[0])
							if identObj(p, rhs) == outer {
								tri = true
							}
							if be, isB := rhs.(*ast.BinaryExpr); isB && be.Op == token.ADD {
								// outer + k or k + outer
								x, y := be.X, be.Y
								if identObj(p, y) == outer {
									x, y = y, x
								}
								if identObj(p, x) == outer {
									if v, isK := constInt(p, y); isK && v >= 0 {
										tri = v <= 1
									}
								}
							}
						}
					}
					return true
				})
				if bad == "" && !tri {
					bad = "the inner loop must start at the outer counter (or one above): visiting both (a,b) and (b,a) would swap every pair twice, and starting higher leaves cells unswapped"
				}
			}
		}
		r.Check(bad == "", "M-MIRROR", k, c.pos(fd.Pos()), bad)
	} else {
		r.AnchorLost("M-MIRROR", "qrcode/decoder.BitMatrixParser.Mirror", "method not found")
	}
	// readers apply the correction
	for _, t := range [][2]string{{"qrcode", "QRCodeReader.Decode"}, {"multi/qrcode", "QRCodeMultiReader.DecodeMultiple"}} {
		fd, p := c.funcDeclOf(t[0], t[1])
		k := t[0] + "." + t[1] + "/points"
		if fd == nil {
			r.AnchorLost("M-MIRROR", k, "method not found")
			continue
		}
		r.Analysed(k)
		calls := findCalls(p, fd.Body, method2("ApplyMirroredCorrection"))
		news := findCalls(p, fd.Body, isNewResult)
		ok := len(calls) == 1 && len(news) >= 1 && calls[0].Pos() < news[0].Pos() && len(calls[0].Args) == 1 && len(news[0].Args) >= 3 && identObj(p, calls[0].Args[0]) != nil && identObj(p, calls[0].Args[0]) == identObj(p, news[0].Args[2])
		r.Check(ok, "M-MIRROR", k, c.pos(fd.Pos()), "the mirrored correction must be applied to the very points handed to the Result, before it is constructed")
	}
	if fd, p := c.funcDeclOf("qrcode/decoder", "QRCodeDecoderMetaData.ApplyMirroredCorrection"); fd != nil {
		k := "qrcode/decoder.QRCodeDecoderMetaData.ApplyMirroredCorrection"
		r.Analysed(k)
		ok := false
		ast.Inspect(fd.Body, func(n ast.Node) bool {
			if as, isA := n.(*ast.AssignStmt); isA && len(as.Lhs) == 2 && len(as.Rhs) == 2 {
				idx := func(e ast.Expr) int64 {
					if ix, isIx := e.(*ast.IndexExpr); isIx {
						if v, isK := constInt(p, ix.Index); isK {
							return v
						}
					}
					return -1
				}
				if idx(as.Lhs[0]) == 0 && idx(as.Lhs[1]) == 2 && idx(as.Rhs[0]) == 2 && idx(as.Rhs[1]) == 0 {
					ok = true
				}
			}
			return true
		})
		r.Check(ok, "M-MIRROR", k, c.pos(fd.Pos()), "a mirrored symbol has its bottom-left and top-right finder points (0 and 2) swapped")
	} else {
		r.AnchorLost("M-MIRROR", "qrcode/decoder.QRCodeDecoderMetaData.ApplyMirroredCorrection", "method not found")
	}
}

func method2(name string) func(o types.Object) bool {
	return func(o types.Object) bool {
		fn, ok := o.(*types.Func)
		return ok && fn.Name() == name
	}
}

// ---------------------------------------------------------------------------------------------------------------
// M-ORIENT
// ---------------------------------------------------------------------------------------------------------------

func isOrientationKey(p *packages.Package, e ast.Expr) bool {
	if sel, ok := ast.Unparen(e).(*ast.SelectorExpr); ok {
		return sel.Sel.Name == "ResultMetadataType_ORIENTATION"
	}
	return false
}

func checkOrientation(c *Ctx, r *Report) {
	defer checkOrientWhole(c, r)
	r.Rule("M-ORIENT", "oned.OneDReader.doDecode: the row is reversed exactly on the second attempt, and a success of that attempt - and only that - is marked ORIENTATION 180 with both end points mirrored to width-1-x before it is returned; OneDReader.Decode retries on the counter-clockwise rotated image only after NotFound, under TRY_HARDER and rotation support, decodes the rotated image, marks ORIENTATION (270 + previous) mod 360 and maps each point (x, y) to (height-1-y, x) of the rotated image", 6)
	fd, p := c.funcDeclOf("oned", "OneDReader.doDecode")
	key := "oned.OneDReader.doDecode"
	if fd == nil {
		r.AnchorLost("M-ORIENT", key, "method not found")
	} else {
		r.Analysed(key)
		// the attempt loop
		var loop *ast.ForStmt
		var lr loopRange
		ast.Inspect(fd.Body, func(n ast.Node) bool {
			if l, ok := n.(*ast.ForStmt); ok {
				if x, isR := loopVarRange(p, l); isR && x.lo == 0 && x.hi == 2 {
					loop, lr = l, x
				}
			}
			return true
		})
		if loop == nil {
			r.Fail("M-ORIENT", key+"/attempts", c.pos(fd.Pos()), "violation", "the two-attempt loop (forward, reversed) was not found")
		} else {
			r.Pass("M-ORIENT", key+"/attempts", c.pos(loop.Pos()), "")
			isSecond := func(e ast.Expr) bool {
				// a conjunction containing attempt == 1
				var walk func(e ast.Expr) bool
				walk = func(e ast.Expr) bool {
					e = ast.Unparen(e)
					if be, ok := e.(*ast.BinaryExpr); ok {
						if be.Op == token.LAND {
							return walk(be.X) || walk(be.Y)
						}
						if be.Op == token.EQL && identObj(p, be.X) == lr.v {
							if v, isK := constInt(p, be.Y); isK && v == 1 {
								return true
							}
						}
					}
					return false
				}
				return walk(e)
			}
			underSecond := func(n ast.Node) (second bool, conds []ast.Expr) {
				gi, _ := guardsOf(loop.Body, enclosingStmt(loop.Body, n))
				for _, e := range gi.Enclosing {
					if ifs, isI := e.Node.(*ast.IfStmt); isI && e.Branch {
						conds = append(conds, ifs.Cond)
						if isSecond(ifs.Cond) {
							second = true
						}
					}
				}
				return
			}
			revs := findCalls(p, loop.Body, func(o types.Object) bool { return isMethodNamed(o, "", "BitArray", "Reverse") })
			okRev := len(revs) == 1
			if okRev {
				okRev, _ = underSecond(revs[0])
			}
			r.Check(okRev, "M-ORIENT", key+"/reverse", c.pos(loop.Pos()), "row.Reverse() must run exactly under attempt == 1")
			// DecodeRow result and error
			var resObj, errObj types.Object
			var decStmt ast.Stmt
			for _, st := range loop.Body.List {
				if as, isA := st.(*ast.AssignStmt); isA && len(as.Lhs) == 2 && len(as.Rhs) == 1 {
					if call, isC := as.Rhs[0].(*ast.CallExpr); isC {
						if fn, isF := typeutil.Callee(p.TypesInfo, call).(*types.Func); isF && fn.Name() == "DecodeRow" {
							resObj, errObj = identObj(p, as.Lhs[0]), identObj(p, as.Lhs[1])
							decStmt = st
						}
					}
				}
			}
			puts := findCalls(p, loop.Body, func(o types.Object) bool { return isMethodNamed(o, "", "Result", "PutMetadata") })
			bad := ""
			var put *ast.CallExpr
			for _, pc := range puts {
				if len(pc.Args) == 2 && isOrientationKey(p, pc.Args[0]) {
					put = pc
				}
			}
			switch {
			case resObj == nil:
				bad = "the DecodeRow call of the attempt loop was not found"
			case put == nil:
				bad = "no ORIENTATION metadata is written in the attempt loop"
			default:
				if v, isK := constInt(p, put.Args[1]); !isK || v != 180 {
					bad = "the reversed attempt must be marked ORIENTATION 180"
				}
				second, conds := underSecond(put)
				if bad == "" && !second {
					bad = "ORIENTATION 180 is written although the row was not reversed (not under attempt == 1)"
				}
				okErr := false
				for _, cd := range conds {
					var walk func(e ast.Expr)
					walk = func(e ast.Expr) {
						e = ast.Unparen(e)
						if be, ok := e.(*ast.BinaryExpr); ok {
							if be.Op == token.LAND {
								walk(be.X)
								walk(be.Y)
							}
							if be.Op == token.EQL && identObj(p, be.X) == errObj {
								okErr = true
							}
						}
					}
					walk(cd)
				}
				if bad == "" && !okErr {
					bad = "ORIENTATION 180 must be written only when DecodeRow succeeded"
				}
				if sel, isS := put.Fun.(*ast.SelectorExpr); bad == "" && (!isS || identObj(p, sel.X) != resObj) {
					bad = "ORIENTATION 180 must be written on the result of this attempt's DecodeRow"
				}
				if bad == "" && !(put.Pos() > decStmt.End()) {
					bad = "ORIENTATION must be written after DecodeRow"
				}
				// the success return comes after the metadata block and returns the same result
				if bad == "" {
					okRet := false
					for _, st := range loop.Body.List {
						if st.Pos() < put.End() {
							continue
						}
						if ifs, isI := st.(*ast.IfStmt); isI && len(ifs.Body.List) == 1 {
							if rs, isR := ifs.Body.List[0].(*ast.ReturnStmt); isR && len(rs.Results) == 2 && identObj(p, rs.Results[0]) == resObj {
								okRet = true
							}
						}
					}
					if !okRet {
						bad = "the successful result must be returned after the orientation bookkeeping"
					}
				}
			}
			if put != nil {
				r.Check(bad == "", "M-ORIENT", key+"/180", c.pos(put.Pos()), bad)
			} else {
				r.Check(bad == "", "M-ORIENT", key+"/180", c.pos(loop.Pos()), bad)
			}
			// points mirrored: points[k] = NewResultPoint(w - points[k].GetX() - 1, points[k].GetY())
			s := c.newSymExec(p)
			s.pure = func(o types.Object) bool {
				fn, ok := o.(*types.Func)
				return ok && (fn.Name() == "NewResultPoint" || fn.Name() == "GetX" || fn.Name() == "GetY" || fn.Name() == "GetWidth" || fn.Name() == "GetHeight" || fn.Name() == "GetResultPoints")
			}
			s.block(fd.Body.List)
			nm := 0
			badP := ""
			for _, st := range s.stores {
				v := st.Val.String()
				if !strings.HasPrefix(v, "call:gozxing.NewResultPoint(") {
					continue
				}
				nm++
				elem := "idx(" + st.Base.String() + "," + st.Index.String() + ")"
				getX := polyAtom("call:(gozxing.ResultPoint).GetX(" + elem + ")")
				getY := polyAtom("call:(gozxing.ResultPoint).GetY(" + elem + ")")
				okX := false
				for _, cl := range s.calls {
					if fn, isF := cl.Callee.(*types.Func); isF && fn.Name() == "GetWidth" && cl.Recv != nil {
						w := polyAtom("call:" + shortObj(cl.Callee) + "(" + cl.Recv.String() + ")")
						want := "call:gozxing.NewResultPoint(" + w.sub(getX).sub(polyInt(1)).String() + ";" + getY.String() + ")"
						if v == want {
							okX = true
						}
					}
				}
				if !okX {
					badP = "an end point of the reversed row must become (width - x - 1, y); got " + prettyPoly(st.Val)
				}
			}
			if nm != 2 && badP == "" {
				badP = fmt.Sprintf("%d end points are mirrored, expected both", nm)
			}
			r.Check(badP == "", "M-ORIENT", key+"/points", c.pos(loop.Pos()), badP)
		}
	}
	// ---- the 90 degree retry
	fd, p = c.funcDeclOf("oned", "OneDReader.Decode")
	key = "oned.OneDReader.Decode"
	if fd == nil {
		r.AnchorLost("M-ORIENT", key, "method not found")
		return
	}
	r.Analysed(key)
	s := c.newSymExec(p)
	s.pure = func(o types.Object) bool {
		fn, ok := o.(*types.Func)
		return ok && (fn.Name() == "NewResultPoint" || fn.Name() == "GetX" || fn.Name() == "GetY" || fn.Name() == "GetWidth" || fn.Name() == "GetHeight" || fn.Name() == "GetResultPoints" || fn.Name() == "IsRotateSupported")
	}
	s.block(fd.Body.List)
	// rotation call and its guards
	var rot *symCall
	var dec []*symCall
	for i := range s.calls {
		cl := &s.calls[i]
		if fn, ok := cl.Callee.(*types.Func); ok {
			if fn.Name() == "RotateCounterClockwise" {
				rot = cl
			}
			if fn.Name() == "doDecode" {
				dec = append(dec, cl)
			}
		}
	}
	bad := ""
	switch {
	case rot == nil || len(dec) != 2:
		bad = "expected doDecode, RotateCounterClockwise, doDecode"
	default:
		// guards of the rotation: first doDecode failed; error is NotFound; tryHarder && IsRotateSupported
		var conds []string
		for _, cd := range rot.Conds {
			conds = append(conds, cd.String())
		}
		joined := strings.Join(conds, " ; ")
		if !strings.Contains(joined, "IsRotateSupported") {
			bad = "the rotation retry must be conditional on image.IsRotateSupported()"
		}
		// syntactic: an early exit testing the TRY_HARDER hint precedes
		gi, _ := guardsOf(fd.Body, enclosingStmt(fd.Body, rot.Call))
		th, nfound := false, false
		// the try-harder flag: the presence result of the hints[TRY_HARDER] lookup
		var thObj types.Object
		ast.Inspect(fd.Body, func(n ast.Node) bool {
			if as, isA := n.(*ast.AssignStmt); isA && len(as.Lhs) == 2 && len(as.Rhs) == 1 {
				if ix, isIx := as.Rhs[0].(*ast.IndexExpr); isIx && strings.HasSuffix(exprString(ix.Index), "DecodeHintType_TRY_HARDER") {
					thObj = identObj(p, as.Lhs[1])
				}
			}
			return true
		})
		for _, g := range gi.EarlyExits {
			txt := exprString(g.Cond)
			if thObj != nil && usesIdent(p, g.Cond, thObj) && strings.Contains(txt, "IsRotateSupported") {
				if u, isU := ast.Unparen(g.Cond).(*ast.UnaryExpr); isU && u.Op == token.NOT {
					if be, isB := ast.Unparen(u.X).(*ast.BinaryExpr); isB && be.Op == token.LAND {
						th = true
					}
				}
			}
			if u, isU := ast.Unparen(g.Cond).(*ast.UnaryExpr); g.Init != nil && isU && u.Op == token.NOT {
				if as, isA := g.Init.(*ast.AssignStmt); isA && len(as.Rhs) == 1 && len(as.Lhs) == 2 && identObj(p, u.X) != nil && identObj(p, u.X) == identObj(p, as.Lhs[1]) {
					if ta, isT := as.Rhs[0].(*ast.TypeAssertExpr); isT && strings.HasSuffix(exprString(ta.Type), "NotFoundException") {
						nfound = true
					}
				}
			}
		}
		if bad == "" && !th {
			bad = "the rotation retry must be skipped unless TRY_HARDER is set and rotation is supported"
		}
		if bad == "" && !nfound {
			bad = "only a NotFound outcome of the upright attempt may lead to the rotated retry (a checksum/format error must be returned)"
		}
		// tryHarder comes from the TRY_HARDER hint
		if bad == "" {
			okHint := false
			ast.Inspect(fd.Body, func(n ast.Node) bool {
				if as, isA := n.(*ast.AssignStmt); isA && len(as.Lhs) == 2 && len(as.Rhs) == 1 {
					if ix, isIx := as.Rhs[0].(*ast.IndexExpr); isIx && strings.HasSuffix(exprString(ix.Index), "DecodeHintType_TRY_HARDER") {
						if o := identObj(p, as.Lhs[1]); o != nil && o == thObj && countAssignsAST(p, fd.Body, o) == 1 {
							okHint = true
						}
					}
				}
				return true
			})
			if !okHint {
				bad = "tryHarder must be the presence of DecodeHintType_TRY_HARDER"
			}
		}
		// the second doDecode receives the rotated image
		if bad == "" {
			rotObj := types.Object(nil)
			if as, isA := enclosingStmt(fd.Body, rot.Call).(*ast.AssignStmt); isA {
				rotObj = identObj(p, as.Lhs[0])
			}
			if rotObj == nil || identObj(p, dec[1].Call.Args[0]) != rotObj {
				bad = "the retry must decode the rotated image"
			}
		}
	}
	r.Check(bad == "", "M-ORIENT", key+"/retry", c.pos(fd.Pos()), bad)
	// orientation value
	badO := ""
	var orient types.Object
	for _, cl := range s.calls {
		if isMethodNamed(cl.Callee, "", "Result", "PutMetadata") && len(cl.Call.Args) == 2 && isOrientationKey(p, cl.Call.Args[0]) {
			orient = identObj(p, cl.Call.Args[1])
		}
	}
	if orient == nil {
		badO = "the rotated result is not marked with an ORIENTATION variable"
	} else {
		has270, hasSum := false, false
		for _, a := range s.assigns {
			if a.Obj != orient {
				continue
			}
			if cst, isC := a.Val.isConst(); isC && cst.Num().Int64() == 270 && cst.IsInt() {
				has270 = true
				continue
			}
			v := a.Val.String()
			if strings.HasPrefix(v, "mod(") && strings.HasSuffix(v, ",360)") && strings.Contains(v, "270") {
				hasSum = true
				continue
			}
			badO = "orientation is assigned " + prettyPoly(a.Val) + "; expected 270 or (270 + previous) % 360"
		}
		if badO == "" && !(has270 && hasSum) {
			badO = "orientation must start at 270 and add an ORIENTATION already present modulo 360"
		}
	}
	r.Check(badO == "", "M-ORIENT", key+"/270", c.pos(fd.Pos()), badO)
	// point map
	badP := ""
	nm := 0
	for _, st := range s.stores {
		v := st.Val.String()
		if !strings.HasPrefix(v, "call:gozxing.NewResultPoint(") {
			continue
		}
		nm++
		elem := "idx(" + st.Base.String() + "," + st.Index.String() + ")"
		getX := polyAtom("call:(gozxing.ResultPoint).GetX(" + elem + ")")
		getY := polyAtom("call:(gozxing.ResultPoint).GetY(" + elem + ")")
		ok := false
		for _, cl := range s.calls {
			if fn, isF := cl.Callee.(*types.Func); isF && fn.Name() == "GetHeight" && cl.Recv != nil && rot != nil {
				h := polyAtom("call:" + shortObj(cl.Callee) + "(" + cl.Recv.String() + ")")
				want := "call:gozxing.NewResultPoint(" + h.sub(getY).sub(polyInt(1)).String() + ";" + getX.String() + ")"
				if v == want && strings.Contains(cl.Recv.String(), "RotateCounterClockwise") {
					ok = true
				}
			}
		}
		if !ok {
			badP = "a point (x, y) of the rotated image must become (rotatedHeight - y - 1, x); got " + prettyPoly(st.Val)
		}
		if len(kAtomsOf(st.Index)) != 1 {
			badP = "every point must be remapped"
		}
	}
	if nm != 1 && badP == "" {
		badP = "the result points are not remapped to the upright image"
	}
	r.Check(badP == "", "M-ORIENT", key+"/points", c.pos(fd.Pos()), badP)
}

// M-HINTFWD: the caller's hints reach every callee that takes hints
func checkHintForwarding(c *Ctx, r *Report) {
	defer checkOrientWhole(c, r) // decides the obligations on OneDReader.doDecode / Decode wherever this rule runs
	r.Rule("M-HINTFWD", "in every reader and decoder function that has a decode-hints parameter, each call that passes decode hints on hands over that very parameter, a map built in the function (a filtered copy), or a choice between such values - never nil or some other map: a retry (mirrored QR reading, rotated or reversed attempts, per-reader dispatch) must decode under the hints the caller gave", 20)
	isHints := func(t types.Type) bool {
		m, ok := t.Underlying().(*types.Map)
		if !ok {
			return false
		}
		n, ok := m.Key().(*types.Named)
		return ok && n.Obj().Name() == "DecodeHintType"
	}
	var fs []*ssa.Function
	for f := range c.allFuncs {
		if f.Blocks == nil || !isRepoPkgFn(f) || f.Synthetic != "" {
			continue
		}
		if f.Pkg != nil && strings.HasSuffix(f.Pkg.Pkg.Path(), "/testutil") {
			continue
		}
		has := false
		for _, p := range f.Params {
			if isHints(p.Type()) {
				has = true
			}
		}
		if has {
			fs = append(fs, f)
		}
	}
	sort.Slice(fs, func(i, j int) bool { return fs[i].String() < fs[j].String() })
	sites := 0
	for _, f := range fs {
		busy := map[*ssa.Phi]bool{}
		var ok func(v ssa.Value, depth int) bool
		ok = func(v ssa.Value, depth int) bool {
			if depth > 12 {
				return false
			}
			switch x := v.(type) {
			case *ssa.Parameter:
				return isHints(x.Type())
			case *ssa.MakeMap:
				return true
			case *ssa.Phi:
				if busy[x] {
					return true // a loop-carried value: decided by its other edges
				}
				busy[x] = true
				defer delete(busy, x)
				for _, e := range x.Edges {
					if !ok(e, depth+1) {
						return false
					}
				}
				return true
			case *ssa.UnOp:
				// a local variable spilled to an alloc (closures, defers): every store to it must qualify
				if al, isAl := x.X.(*ssa.Alloc); isAl && x.Op == token.MUL {
					for _, ref := range *al.Referrers() {
						if st, isSt := ref.(*ssa.Store); isSt && st.Addr == ssa.Value(al) && !ok(st.Val, depth+1) {
							return false
						}
					}
					return true
				}
			case *ssa.ChangeType:
				return ok(x.X, depth+1)
			}
			return false
		}
		ord := 0
		for _, b := range f.Blocks {
			for _, in := range b.Instrs {
				call, isCall := in.(ssa.CallInstruction)
				if !isCall {
					continue
				}
				for _, a := range call.Common().Args {
					if !isHints(a.Type()) {
						continue
					}
					sites++
					key := fmt.Sprintf("%s#%d", shortFn(f), ord)
					ord++
					if ok(a, 0) {
						r.Pass("M-HINTFWD", key, c.pos(call.Pos()), "")
					} else {
						what := fmt.Sprintf("%T", a)
						if cst, isC := a.(*ssa.Const); isC && cst.IsNil() {
							what = "nil"
						}
						r.Fail("M-HINTFWD", key, c.pos(call.Pos()), "violation", "decode hints are passed on as "+what+" instead of the hints this function was given")
					}
				}
			}
		}
	}
	r.Extra("M-HINTFWD sites", sites)
}

// M-MIRRORPTS: a mirrored QR symbol's result points are put back in reading order, whatever their number
func checkMirroredCorrection(c *Ctx, r *Report) {
	r.Rule("M-MIRRORPTS", "QRCodeDecoderMetaData.ApplyMirroredCorrection, folded on point lists of 0..5 points with the flag set and clear: when the symbol was read mirrored and there are at least three points (three finder patterns, with or without the alignment pattern of versions 2 and up) the bottom-left and top-right points change places and every other point stays; otherwise nothing moves", 1)
	fd, p := c.funcDeclOf("qrcode/decoder", "QRCodeDecoderMetaData.ApplyMirroredCorrection")
	key := "qrcode/decoder.QRCodeDecoderMetaData.ApplyMirroredCorrection"
	if fd == nil {
		r.AnchorLost("M-MIRRORPTS", key, "method not found")
		return
	}
	r.Analysed(key)
	recv := recvObj(p, fd)
	bad := ""
	for _, mirrored := range []bool{true, false} {
		for n := 0; n <= 5 && bad == ""; n++ {
			pts := &Val{K: VList, Local: true}
			for i := 0; i < n; i++ {
				pts.L = append(pts.L, vstr(fmt.Sprintf("point %d", i)))
			}
			h := &rpf{unroll: 16, env: map[types.Object]*Val{}}
			if recv != nil {
				h.env[recv] = &Val{K: VStruct, Ptr: true, Fields: map[string]*Val{"mirrored": vbool(mirrored)}}
			}
			if _, err := c.rpfCall(fd, p, []*Val{pts}, h); err != nil {
				bad = fmt.Sprintf("?%d points, mirrored=%v: %v", n, mirrored, err)
				break
			}
			for i := 0; i < n; i++ {
				want := i
				if mirrored && n >= 3 && (i == 0 || i == 2) {
					want = 2 - i
				}
				if len(pts.L) != n || pts.L[i].K != VStr || pts.L[i].S != fmt.Sprintf("point %d", want) {
					bad = fmt.Sprintf("%d points, mirrored=%v: position %d holds %s afterwards, expected point %d", n, mirrored, i, valString(pts.L[i]), want)
					break
				}
			}
		}
	}
	reportFold(r, c, "M-MIRRORPTS", key, fd.Pos(), bad)
}

// S-MIRRORW: the QR decoder's two attempts folded whole with the parser and the inner decode scripted.
func checkMirrorWhole(c *Ctx, r *Report) {
	if _, done := r.rules["S-MIRRORW"]; done {
		return
	}
	r.Rule("S-MIRRORW", "qrcode/decoder.Decoder.Decode folded whole with the parser's methods as recorders and the inner decode, ReadVersion and ReadFormatInformation scripted: a first success is returned as it is and nothing else is called; after a first failure the calls are Remask and SetMirror(true) (both before the version is read), ReadVersion, ReadFormatInformation, Mirror (after both, before the second decode), decode, and a second success is flagged with NewQRCodeDecoderMetaData(true) and returned; when the mirrored version or format cannot be read, or the second decode fails with a format or checksum error, no result is returned and the error is the first attempt's; another error of the second decode is returned itself", 6)
	fd, p := c.funcDeclOf("qrcode/decoder", "Decoder.Decode")
	if fd == nil {
		r.AnchorLost("S-MIRRORW", "qrcode/decoder.Decoder.Decode", "method not found")
		return
	}
	type script struct {
		name           string
		d1, rv, rf, d2 string // "" = success
		wantCalls      string
		wantResult     string // "", "result1", "result2"
		wantErr        string
		flagged        bool
	}
	full := "decode Remask SetMirror(true) ReadVersion ReadFormatInformation Mirror decode"
	for _, sc := range []script{
		{"the first reading succeeds", "", "", "", "", "decode", "result1", "", false},
		{"the first reading fails (format), the mirrored one succeeds", "error:Format#1", "", "", "", full, "result2", "", true},
		{"the first reading fails (checksum), the mirrored one succeeds", "error:Checksum#1", "", "", "", full, "result2", "", true},
		{"the mirrored version cannot be read", "error:Checksum#1", "error:Format#2", "", "", "decode Remask SetMirror(true) ReadVersion", "", "error:Checksum#1", false},
		{"the mirrored format information cannot be read", "error:Format#1", "", "error:Format#3", "", "decode Remask SetMirror(true) ReadVersion ReadFormatInformation", "", "error:Format#1", false},
		{"both readings fail with checksum errors", "error:Checksum#1", "", "", "error:Checksum#4", full, "", "error:Checksum#1", false},
		{"the mirrored reading fails with another error", "error:Format#1", "", "", "error:Other#4", full, "", "error:Other#4", false},
	} {
		key := "qrcode/decoder.Decoder.Decode/" + sc.name
		r.Analysed(key)
		var calls []string
		decodes := 0
		flaggedOn := ""
		h := &rpf{unroll: 16}
		h.callHook = func(rr *rpf, call *ast.CallExpr, callee types.Object) (*Val, bool) {
			fnc, ok := callee.(*types.Func)
			if !ok {
				return nil, false
			}
			recv := ""
			if sig, ok := fnc.Type().(*types.Signature); ok && sig.Recv() != nil {
				recv = namedOf(sig.Recv().Type())
			}
			switch {
			case recv == "BitMatrixParser" && (fnc.Name() == "Remask" || fnc.Name() == "Mirror"):
				calls = append(calls, fnc.Name())
				return &Val{K: VNil}, true
			case recv == "BitMatrixParser" && fnc.Name() == "SetMirror":
				a := rr.expr(call.Args[0])
				calls = append(calls, fmt.Sprintf("SetMirror(%v)", a.K == VBool && a.B))
				return &Val{K: VNil}, true
			case recv == "DecoderResult" && fnc.Name() == "SetOther":
				if sel, ok := call.Fun.(*ast.SelectorExpr); ok {
					on := rr.expr(sel.X)
					a := rr.expr(call.Args[0])
					if on.K == VStruct && on.Fields["\x00id"] != nil && a.K == VStruct && a.Fields["\x00mirrored"] != nil && a.Fields["\x00mirrored"].B {
						flaggedOn = on.Fields["\x00id"].S
					}
				}
				return &Val{K: VNil}, true
			case fnc.Name() == "NewQRCodeDecoderMetaData":
				a := rr.expr(call.Args[0])
				return &Val{K: VStruct, Ptr: true, Fields: map[string]*Val{"\x00mirrored": vbool(a.K == VBool && a.B)}}, true
			case fnc.Pkg() != nil && strings.HasSuffix(fnc.Pkg().Path(), "gozxing") && strings.HasPrefix(fnc.Name(), "Wrap") && len(call.Args) == 1:
				return rr.expr(call.Args[0]), true // a wrapped error keeps its kind here
			}
			return errCtorHook(rr, call, callee)
		}
		h.multiHook = func(call *ast.CallExpr, callee types.Object) ([]*Val, bool) {
			fnc, ok := callee.(*types.Func)
			if !ok {
				return nil, false
			}
			switch fnc.Name() {
			case "NewBitMatrixParser":
				return []*Val{{K: VStruct, Ptr: true, Fields: map[string]*Val{}}, {K: VNil}}, true
			case "decode":
				decodes++
				calls = append(calls, "decode")
				e := sc.d1
				if decodes > 1 {
					e = sc.d2
				}
				if e != "" {
					return []*Val{{K: VNil}, vstr(e)}, true
				}
				return []*Val{{K: VStruct, Ptr: true, Fields: map[string]*Val{"\x00id": vstr(fmt.Sprintf("result%d", decodes))}}, {K: VNil}}, true
			case "ReadVersion":
				calls = append(calls, "ReadVersion")
				if sc.rv != "" {
					return []*Val{{K: VNil}, vstr(sc.rv)}, true
				}
				return []*Val{{K: VStruct, Ptr: true, Fields: map[string]*Val{}}, {K: VNil}}, true
			case "ReadFormatInformation":
				calls = append(calls, "ReadFormatInformation")
				if sc.rf != "" {
					return []*Val{{K: VNil}, vstr(sc.rf)}, true
				}
				return []*Val{{K: VStruct, Ptr: true, Fields: map[string]*Val{}}, {K: VNil}}, true
			}
			return nil, false
		}
		h.assertHook = func(rr *rpf, ta *ast.TypeAssertExpr, v *Val) (bool, bool) {
			if v.K == VNil {
				return false, true
			}
			if v.K != VStr || !strings.HasPrefix(v.S, "error:") {
				return false, false
			}
			t := rr.p.TypesInfo.TypeOf(ta.Type)
			switch namedOf(t) {
			case "FormatException":
				return strings.HasPrefix(v.S, "error:Format"), true
			case "ChecksumException":
				return strings.HasPrefix(v.S, "error:Checksum"), true
			case "NotFoundException":
				return strings.HasPrefix(v.S, "error:NotFound"), true
			case "ReaderException":
				return !strings.HasPrefix(v.S, "error:Other"), true
			}
			return false, false
		}
		h.env = map[types.Object]*Val{}
		if ro := recvObj(p, fd); ro != nil {
			h.env[ro] = &Val{K: VStruct, Ptr: true, Fields: map[string]*Val{}}
		}
		res, err := c.rpfCall(fd, p, []*Val{{K: VStruct, Ptr: true, Fields: map[string]*Val{}}, {K: VNil}}, h)
		got := strings.Join(calls, " ")
		bad := ""
		switch {
		case err != nil:
			bad = "?" + err.Error()
		case len(res) != 2:
			bad = "Decode does not return (result, error)"
		case got != sc.wantCalls:
			bad = fmt.Sprintf("the calls are [%s], expected [%s]", got, sc.wantCalls)
		case sc.wantResult == "" && res[0].K != VNil:
			bad = "a result is returned although the reading failed"
		case sc.wantResult != "" && (res[0].K != VStruct || res[0].Fields["\x00id"] == nil || res[0].Fields["\x00id"].S != sc.wantResult || res[1].K != VNil):
			bad = fmt.Sprintf("expected (%s, nil), got (%s, %s)", sc.wantResult, res[0], res[1])
		case sc.wantErr != "" && (res[1].K != VStr || res[1].S != sc.wantErr):
			bad = fmt.Sprintf("the error returned is %s, expected %s (the first attempt's, unless the second fails otherwise)", res[1], sc.wantErr)
		case sc.flagged && flaggedOn != sc.wantResult:
			bad = "the mirrored success is not flagged with NewQRCodeDecoderMetaData(true) on the result that is returned"
		case !sc.flagged && flaggedOn != "":
			bad = "a result is flagged as mirrored although it was not read mirrored"
		}
		reportFold(r, c, "S-MIRRORW", key, fd.Pos(), bad)
	}
	r.RelaxCountWhen("M-MIRROR", "S-MIRRORW") // (the parser's and the meta data's obligations report a lost anchor themselves)
	r.DecidedByKeys("M-MIRROR", "S-MIRRORW", "Decode folded whole over seven scripts of successes and failures: calls, their order, the flag and the error returned", "Decoder.Decode/protocol", "Decoder.Decode/conditional", "Decoder.Decode/flag", "Decoder.Decode/unmirrored")
}

// S-ORIENTW: the 1-D reader's row scan and its rotated retry folded whole, with the image, the row decoder and the
// result as recorders.
func checkOrientWhole(c *Ctx, r *Report) {
	if _, done := r.rules["S-ORIENTW"]; done {
		return
	}
	r.Rule("S-ORIENTW", "oned.OneDReader.doDecode and Decode folded whole with the image, the row decoder and the result scripted. doDecode: the rows asked for are the middle one and then alternately rowStep below and above it (height>>5, or height>>8 with TRY_HARDER, at least 1; 15 rows, or all with TRY_HARDER), a row the binarizer cannot give is skipped, each row is tried forward and then once reversed; a forward success is returned untouched, a reversed one carries ORIENTATION 180 and its two end points mirrored to width-1-x; every attempt is given the caller's hints except that no reversed attempt is given the result-point callback; a failure that is not a reader exception ends the scan at once and nothing decodable gives NotFound. Decode: a first success is returned; only after NotFound, with TRY_HARDER and a rotatable image, the counter-clockwise rotated image is scanned with the same hints, and its success carries ORIENTATION (270 + the scan's own) mod 360 and every point (x, y) mapped to (rotated height - 1 - y, x)", 14)
	fdD, pD := c.funcDeclOf("oned", "OneDReader.doDecode")
	fdE, pE := c.funcDeclOf("oned", "OneDReader.Decode")
	if fdD == nil || fdE == nil {
		r.AnchorLost("S-ORIENTW", "oned.OneDReader", "doDecode or Decode not found")
		return
	}
	root := c.pkg("")
	cint := func(name string) int64 {
		if root != nil {
			if cst, ok := root.Types.Scope().Lookup(name).(*types.Const); ok {
				if v, ok := constInt64(cst); ok {
					return v
				}
			}
		}
		return -1
	}
	TH, CB, PF, OR := cint("DecodeHintType_TRY_HARDER"), cint("DecodeHintType_NEED_RESULT_POINT_CALLBACK"), cint("DecodeHintType_POSSIBLE_FORMATS"), cint("ResultMetadataType_ORIENTATION")
	if TH < 0 || CB < 0 || PF < 0 || OR < 0 {
		r.AnchorLost("S-ORIENTW", "gozxing hint / metadata constants", "constant not found")
		return
	}
	recvName := func(fnc *types.Func) string {
		if sig, ok := fnc.Type().(*types.Signature); ok && sig.Recv() != nil {
			return namedOf(sig.Recv().Type())
		}
		return ""
	}
	assertHook := func(rr *rpf, ta *ast.TypeAssertExpr, v *Val) (bool, bool) {
		if v.K == VNil {
			return false, true
		}
		t := rr.p.TypesInfo.TypeOf(ta.Type)
		if b, ok := t.Underlying().(*types.Basic); ok && b.Info()&types.IsInteger != 0 {
			return v.K == VInt, true
		}
		if v.K != VStr || !strings.HasPrefix(v.S, "error:") {
			return false, false
		}
		switch namedOf(t) {
		case "NotFoundException":
			return strings.HasPrefix(v.S, "error:NotFound"), true
		case "FormatException":
			return strings.HasPrefix(v.S, "error:Format"), true
		case "ChecksumException":
			return strings.HasPrefix(v.S, "error:Checksum"), true
		case "ReaderException":
			return !strings.HasPrefix(v.S, "error:Other"), true
		}
		return false, false
	}
	hintsVal := func(keys ...int64) *Val {
		if keys == nil {
			return &Val{K: VNil}
		}
		m := &Val{K: VStruct, Fields: map[string]*Val{}}
		for _, k := range keys {
			m.Fields[fmt.Sprint(k)] = vbool(true)
		}
		return m
	}
	keysOf := func(v *Val) string {
		if v == nil || v.K != VStruct {
			return ""
		}
		var ks []string
		for k := range v.Fields {
			ks = append(ks, k)
		}
		sort.Strings(ks)
		return strings.Join(ks, ",")
	}
	pt := func(x, y float64) *Val {
		return &Val{K: VStruct, Ptr: true, Fields: map[string]*Val{"x": {K: VFloat, F: x}, "y": {K: VFloat, F: y}}}
	}
	ptStr := func(v *Val) string {
		if v == nil || v.K != VStruct || v.Fields["x"] == nil || v.Fields["y"] == nil {
			return "?"
		}
		f := func(a *Val) float64 {
			if a.K == VInt {
				return float64(a.I)
			}
			return a.F
		}
		return fmt.Sprintf("(%g, %g)", f(v.Fields["x"]), f(v.Fields["y"]))
	}
	// hooks shared by both folds: the result and its points
	resultHooks := func(rr *rpf, call *ast.CallExpr, fnc *types.Func) (*Val, bool) {
		switch {
		case recvName(fnc) == "Result" && fnc.Name() == "PutMetadata":
			if sel, ok := call.Fun.(*ast.SelectorExpr); ok {
				if on := rr.expr(sel.X); on.K == VStruct && on.Fields["\x00meta"] != nil {
					k, v := rr.expr(call.Args[0]), rr.expr(call.Args[1])
					if !k.isInt() {
						rpfFail("PutMetadata with a non-constant key")
					}
					on.Fields["\x00meta"].Fields[fmt.Sprint(k.I)] = v
					return &Val{K: VNil}, true
				}
			}
			rpfFail("PutMetadata on an unknown result")
		case recvName(fnc) == "Result" && fnc.Name() == "GetResultMetadata":
			if sel, ok := call.Fun.(*ast.SelectorExpr); ok {
				if on := rr.expr(sel.X); on.K == VStruct && on.Fields["\x00meta"] != nil {
					return on.Fields["\x00meta"], true
				}
			}
			rpfFail("GetResultMetadata on an unknown result")
		case recvName(fnc) == "Result" && fnc.Name() == "GetResultPoints":
			if sel, ok := call.Fun.(*ast.SelectorExpr); ok {
				if on := rr.expr(sel.X); on.K == VStruct && on.Fields["\x00points"] != nil {
					return on.Fields["\x00points"], true
				}
			}
			rpfFail("GetResultPoints on an unknown result")
		case fnc.Name() == "NewResultPoint" && len(call.Args) == 2:
			x, y := rr.expr(call.Args[0]), rr.expr(call.Args[1])
			return &Val{K: VStruct, Ptr: true, Fields: map[string]*Val{"x": x, "y": y}}, true
		case recvName(fnc) == "ResultPoint" && (fnc.Name() == "GetX" || fnc.Name() == "GetY"):
			if sel, ok := call.Fun.(*ast.SelectorExpr); ok {
				if on := rr.expr(sel.X); on.K == VStruct && on.Fields["x"] != nil {
					if fnc.Name() == "GetX" {
						return on.Fields["x"], true
					}
					return on.Fields["y"], true
				}
			}
			rpfFail("GetX / GetY on an unknown point")
		case fnc.Name() == "NewNotFoundException":
			return vstr("error:NotFound#end"), true
		case fnc.Pkg() != nil && strings.HasSuffix(fnc.Pkg().Path(), "gozxing") && strings.HasPrefix(fnc.Name(), "Wrap") && len(call.Args) == 1:
			return rr.expr(call.Args[0]), true
		}
		return nil, false
	}
	newResult := func(id string, meta map[string]*Val, pts ...*Val) *Val {
		if meta == nil {
			meta = map[string]*Val{}
		}
		return &Val{K: VStruct, Ptr: true, Fields: map[string]*Val{"\x00id": vstr(id), "\x00meta": {K: VStruct, Local: true, Fields: meta}, "\x00points": {K: VList, Local: true, L: pts}}}
	}

	// ---- doDecode
	type attempt struct {
		row   int64
		rev   bool
		hints string
	}
	type dscript struct {
		name       string
		W, H       int64
		hints      []int64
		noRow      map[int64]string // rows for which GetBlackRow fails, with the error
		okRow      int64            // the row that decodes (-1: none)
		okRev      bool
		rowErr     map[int64]string // DecodeRow errors other than NotFound, by row (forward attempt)
		wantRows   []int64
		wantErr    string
		wantResult bool
	}
	seq := func(middle, step, n, h int64) []int64 {
		var out []int64
		for x := int64(0); x < n; x++ {
			k := step * ((x + 1) / 2)
			row := middle + k
			if x%2 == 1 {
				row = middle - k
			}
			if row < 0 || row >= h {
				break
			}
			out = append(out, row)
		}
		return out
	}
	// every decode hint the library declares except TRY_HARDER (which changes the rows asked for): a filtered copy made for
	// the reversed attempt must keep each of them, whichever the row decoders happen to read today
	var allButTH []int64
	if root != nil {
		sc := root.Types.Scope()
		for _, n := range sc.Names() {
			if cst, ok := sc.Lookup(n).(*types.Const); ok && namedOf(cst.Type()) == "DecodeHintType" {
				if v, ok := constInt64(cst); ok && v != TH {
					allButTH = append(allButTH, v)
				}
			}
		}
	}
	if len(allButTH) < 8 {
		r.AnchorLost("S-ORIENTW", "gozxing.DecodeHintType constants", fmt.Sprintf("%d found", len(allButTH)))
		return
	}
	scripts := []dscript{
		{name: "no hints, nothing decodes", W: 30, H: 64, okRow: -1, wantRows: seq(32, 2, 15, 64), wantErr: "error:NotFound#end"},
		{name: "TRY_HARDER, nothing decodes", W: 30, H: 20, hints: []int64{TH}, okRow: -1, wantRows: seq(10, 1, 20, 20), wantErr: "error:NotFound#end"},
		{name: "TRY_HARDER on a tall image", W: 30, H: 600, hints: []int64{TH, PF}, okRow: 296, okRev: false, wantRows: seq(300, 2, 600, 600)[:4], wantResult: true},
		{name: "a row decodes forward", W: 30, H: 64, hints: []int64{PF}, okRow: 30, okRev: false, wantRows: []int64{32, 30}, wantResult: true},
		{name: "a row decodes reversed", W: 30, H: 64, hints: []int64{PF}, okRow: 30, okRev: true, wantRows: []int64{32, 30}, wantResult: true},
		{name: "the callback hint", W: 30, H: 64, hints: []int64{CB, PF}, okRow: 34, okRev: true, wantRows: []int64{32, 30, 34}, wantResult: true},
		{name: "the callback hint among every other hint", W: 30, H: 64, hints: allButTH, okRow: 34, okRev: true, wantRows: []int64{32, 30, 34}, wantResult: true},
		{name: "a row the binarizer cannot give", W: 30, H: 64, noRow: map[int64]string{32: "error:NotFound#row"}, okRow: 30, okRev: false, wantRows: []int64{32, 30}, wantResult: true},
		{name: "the binarizer fails otherwise", W: 30, H: 64, noRow: map[int64]string{30: "error:Other#row"}, okRow: -1, wantRows: []int64{32, 30}, wantErr: "error:Other#row"},
		{name: "the row decoder fails with an error that is no reader exception", W: 30, H: 64, rowErr: map[int64]string{30: "error:Other#dec"}, okRow: -1, wantRows: []int64{32, 30}, wantErr: "error:Other#dec"},
	}
	for _, sc := range scripts {
		key := "oned.OneDReader.doDecode/" + sc.name
		r.Analysed(key)
		var rows []int64
		var attempts []attempt
		var returned *Val
		callerHints := hintsVal(sc.hints...)
		h := &rpf{unroll: 4096, maxSteps: 2000000, assertHook: assertHook}
		h.callHook = func(rr *rpf, call *ast.CallExpr, callee types.Object) (*Val, bool) {
			fnc, ok := callee.(*types.Func)
			if !ok {
				return nil, false
			}
			switch {
			case recvName(fnc) == "BinaryBitmap" && fnc.Name() == "GetWidth":
				return vint(sc.W), true
			case recvName(fnc) == "BinaryBitmap" && fnc.Name() == "GetHeight":
				return vint(sc.H), true
			case fnc.Name() == "NewBitArray" && recvName(fnc) == "":
				return &Val{K: VStruct, Ptr: true, Fields: map[string]*Val{"\x00rev": vint(0), "\x00row": vint(-1)}}, true
			case recvName(fnc) == "BitArray" && fnc.Name() == "Reverse":
				if sel, ok := call.Fun.(*ast.SelectorExpr); ok {
					if on := rr.expr(sel.X); on.K == VStruct && on.Fields["\x00rev"] != nil {
						on.Fields["\x00rev"] = vint(on.Fields["\x00rev"].I + 1)
						return &Val{K: VNil}, true
					}
				}
				rpfFail("Reverse of an unknown row")
			}
			if v, ok := resultHooks(rr, call, fnc); ok {
				return v, true
			}
			return errCtorHook(rr, call, callee)
		}
		h.multiHook = func(call *ast.CallExpr, callee types.Object) ([]*Val, bool) {
			fnc, ok := callee.(*types.Func)
			if !ok {
				return nil, false
			}
			rr := rpfCurrent
			switch {
			case recvName(fnc) == "BinaryBitmap" && fnc.Name() == "GetBlackRow":
				y := rr.expr(call.Args[0])
				if !y.isInt() {
					rpfFail("GetBlackRow of a non-constant row")
				}
				rows = append(rows, y.I)
				if e, bad := sc.noRow[y.I]; bad {
					return []*Val{{K: VNil}, vstr(e)}, true
				}
				return []*Val{{K: VStruct, Ptr: true, Fields: map[string]*Val{"\x00rev": vint(0), "\x00row": vint(y.I)}}, {K: VNil}}, true
			case fnc.Name() == "DecodeRow" && len(call.Args) == 3:
				y, row, hv := rr.expr(call.Args[0]), rr.expr(call.Args[1]), rr.expr(call.Args[2])
				if !y.isInt() || row.K != VStruct || row.Fields["\x00rev"] == nil || row.Fields["\x00row"].I != y.I {
					rpfFail("DecodeRow is not given the row it names")
				}
				rev := row.Fields["\x00rev"].I%2 == 1
				attempts = append(attempts, attempt{y.I, rev, keysOf(hv)})
				if e, bad := sc.rowErr[y.I]; bad && !rev {
					return []*Val{{K: VNil}, vstr(e)}, true
				}
				if y.I == sc.okRow && rev == sc.okRev {
					returned = newResult("result", nil, pt(3, float64(y.I)), pt(20, float64(y.I)), pt(7, 7))
					return []*Val{returned, {K: VNil}}, true
				}
				return []*Val{{K: VNil}, vstr("error:NotFound#dec")}, true
			}
			return nil, false
		}
		h.env = map[types.Object]*Val{}
		if ro := recvObj(pD, fdD); ro != nil {
			h.env[ro] = &Val{K: VStruct, Ptr: true, Fields: map[string]*Val{"RowDecoder": {K: VStruct, Ptr: true, Fields: map[string]*Val{}}}}
		}
		res, err := c.rpfCall(fdD, pD, []*Val{{K: VStruct, Ptr: true, Fields: map[string]*Val{}}, callerHints}, h)
		bad := ""
		all := keysOf(callerHints)
		noCB := keysOf(func() *Val {
			var ks []int64
			for _, k := range sc.hints {
				if k != CB {
					ks = append(ks, k)
				}
			}
			if ks == nil && sc.hints != nil {
				return &Val{K: VStruct, Fields: map[string]*Val{}}
			}
			return hintsVal(ks...)
		}())
		switch {
		case err != nil:
			bad = "?" + err.Error()
		case len(res) != 2:
			bad = "doDecode does not return (result, error)"
		case fmt.Sprint(rows) != fmt.Sprint(sc.wantRows):
			bad = fmt.Sprintf("the rows asked for are %v, expected %v", rows, sc.wantRows)
		case sc.wantResult && (res[0] != returned || res[1].K != VNil):
			bad = fmt.Sprintf("expected the row decoder's result and no error, got (%s, %s)", res[0], res[1])
		case !sc.wantResult && (res[0].K != VNil || res[1].K != VStr || res[1].S != sc.wantErr):
			bad = fmt.Sprintf("expected (nil, %s), got (%s, %s)", sc.wantErr, res[0], res[1])
		}
		if bad == "" {
			// the attempts: per row that was delivered, forward then reversed, up to the success / the fatal error
			var want []attempt
			for _, y := range sc.wantRows {
				if _, skip := sc.noRow[y]; skip {
					continue
				}
				want = append(want, attempt{y, false, ""})
				if _, fatal := sc.rowErr[y]; fatal {
					break
				}
				if y == sc.okRow && !sc.okRev {
					break
				}
				want = append(want, attempt{y, true, ""})
			}
			if len(attempts) != len(want) {
				bad = fmt.Sprintf("%d attempts are made, expected %d (each row forward, then reversed once)", len(attempts), len(want))
			}
			for i := 0; i < len(attempts) && bad == ""; i++ {
				a := attempts[i]
				switch {
				case a.row != want[i].row || a.rev != want[i].rev:
					bad = fmt.Sprintf("attempt %d is row %d reversed=%v, expected row %d reversed=%v", i, a.row, a.rev, want[i].row, want[i].rev)
				case i == 0 && a.hints != all:
					bad = fmt.Sprintf("the first attempt is given the hints {%s}, the caller's are {%s}", a.hints, all)
				case a.rev && a.hints != noCB:
					bad = fmt.Sprintf("the reversed attempt on row %d is given the hints {%s}, expected the caller's without the result-point callback {%s}", a.row, a.hints, noCB)
				case !a.rev && a.hints != all && a.hints != noCB:
					bad = fmt.Sprintf("the attempt on row %d is given the hints {%s}, expected the caller's {%s}", a.row, a.hints, all)
				}
			}
		}
		if bad == "" && sc.wantResult {
			meta := returned.Fields["\x00meta"].Fields
			pts := returned.Fields["\x00points"].L
			y := float64(sc.okRow)
			if sc.okRev {
				if o := meta[fmt.Sprint(OR)]; o == nil || !o.isInt() || o.I != 180 || len(meta) != 1 {
					bad = "a row read reversed must carry ORIENTATION 180 (and no other metadata is the scan's to add)"
				} else if len(pts) != 3 || ptStr(pts[0]) != ptStr(pt(float64(sc.W)-1-3, y)) || ptStr(pts[1]) != ptStr(pt(float64(sc.W)-1-20, y)) || ptStr(pts[2]) != ptStr(pt(7, 7)) {
					bad = fmt.Sprintf("the end points of a row read reversed must be mirrored to width-1-x: got %s, %s from (3, %g), (20, %g) in a row of %d", ptStr(pts[0]), ptStr(pts[1]), y, y, sc.W)
				}
			} else if len(meta) != 0 || len(pts) != 3 || ptStr(pts[0]) != ptStr(pt(3, y)) || ptStr(pts[1]) != ptStr(pt(20, y)) {
				bad = "a row read forward must be returned as the row decoder gave it (no ORIENTATION, points untouched)"
			}
		}
		reportFold(r, c, "S-ORIENTW", key, fdD.Pos(), bad)
	}

	// ---- Decode
	type escript struct {
		name        string
		hints       []int64
		first       string // error of the first scan ("" = success)
		rotatable   bool
		rotateErr   string
		second      string
		secondMeta  int64 // ORIENTATION the second scan put (0: none)
		wantScans   int
		wantRotates int
		wantErr     string
		wantOrient  int64 // 0: none
		wantPoints  []string
	}
	const RH = 50 // height of the rotated image
	for _, sc := range []escript{
		{name: "the first scan succeeds", hints: []int64{TH}, rotatable: true, wantScans: 1},
		{name: "not found, no TRY_HARDER", hints: []int64{PF}, first: "error:NotFound#1", rotatable: true, wantScans: 1, wantErr: "error:NotFound#1"},
		{name: "not found, no hints", first: "error:NotFound#1", rotatable: true, wantScans: 1, wantErr: "error:NotFound#1"},
		{name: "not found, TRY_HARDER, image cannot be rotated", hints: []int64{TH}, first: "error:NotFound#1", wantScans: 1, wantErr: "error:NotFound#1"},
		{name: "a checksum error is final", hints: []int64{TH}, first: "error:Checksum#1", rotatable: true, wantScans: 1, wantErr: "error:Checksum#1"},
		{name: "rotated scan succeeds", hints: []int64{TH, PF}, first: "error:NotFound#1", rotatable: true, wantScans: 2, wantRotates: 1, wantOrient: 270, wantPoints: []string{ptStr(pt(RH-1-9, 4)), ptStr(pt(RH-1-9, 30))}},
		{name: "rotated scan succeeds reversed", hints: []int64{TH}, first: "error:NotFound#1", rotatable: true, secondMeta: 180, wantScans: 2, wantRotates: 1, wantOrient: 90, wantPoints: []string{ptStr(pt(RH-1-9, 4)), ptStr(pt(RH-1-9, 30))}},
		{name: "rotated scan fails", hints: []int64{TH}, first: "error:NotFound#1", rotatable: true, second: "error:NotFound#2", wantScans: 2, wantRotates: 1, wantErr: "error:NotFound#2"},
		{name: "rotation fails", hints: []int64{TH}, first: "error:NotFound#1", rotatable: true, rotateErr: "error:Other#rot", wantScans: 1, wantRotates: 1, wantErr: "error:Other#rot"},
	} {
		key := "oned.OneDReader.Decode/" + sc.name
		r.Analysed(key)
		scans, rotates := 0, 0
		var scanImages []string
		var scanHints []*Val
		var returned *Val
		callerHints := hintsVal(sc.hints...)
		h := &rpf{unroll: 64, assertHook: assertHook}
		h.callHook = func(rr *rpf, call *ast.CallExpr, callee types.Object) (*Val, bool) {
			fnc, ok := callee.(*types.Func)
			if !ok {
				return nil, false
			}
			switch {
			case recvName(fnc) == "BinaryBitmap" && fnc.Name() == "IsRotateSupported":
				return vbool(sc.rotatable), true
			case recvName(fnc) == "BinaryBitmap" && (fnc.Name() == "GetHeight" || fnc.Name() == "GetWidth"):
				if sel, ok := call.Fun.(*ast.SelectorExpr); ok {
					if on := rr.expr(sel.X); on.K == VStruct && on.Fields["\x00img"] != nil && on.Fields["\x00img"].S == "rotated" {
						if fnc.Name() == "GetHeight" {
							return vint(RH), true
						}
						return vint(80), true
					}
				}
				if fnc.Name() == "GetHeight" {
					return vint(80), true
				}
				return vint(RH), true
			}
			if v, ok := resultHooks(rr, call, fnc); ok {
				return v, true
			}
			return errCtorHook(rr, call, callee)
		}
		h.multiHook = func(call *ast.CallExpr, callee types.Object) ([]*Val, bool) {
			fnc, ok := callee.(*types.Func)
			if !ok {
				return nil, false
			}
			rr := rpfCurrent
			switch {
			case fnc.Name() == "doDecode" && len(call.Args) == 2:
				img, hv := rr.expr(call.Args[0]), rr.expr(call.Args[1])
				scans++
				id := "?"
				if img.K == VStruct && img.Fields["\x00img"] != nil {
					id = img.Fields["\x00img"].S
				}
				scanImages = append(scanImages, id)
				scanHints = append(scanHints, hv)
				e := sc.first
				if scans > 1 {
					e = sc.second
				}
				if e != "" {
					return []*Val{{K: VNil}, vstr(e)}, true
				}
				meta := map[string]*Val{}
				if scans > 1 && sc.secondMeta != 0 {
					meta[fmt.Sprint(OR)] = vint(sc.secondMeta)
				}
				returned = newResult(fmt.Sprintf("result%d", scans), meta, pt(4, 9), pt(30, 9))
				return []*Val{returned, {K: VNil}}, true
			case recvName(fnc) == "BinaryBitmap" && fnc.Name() == "RotateCounterClockwise":
				rotates++
				if sc.rotateErr != "" {
					return []*Val{{K: VNil}, vstr(sc.rotateErr)}, true
				}
				return []*Val{{K: VStruct, Ptr: true, Fields: map[string]*Val{"\x00img": vstr("rotated")}}, {K: VNil}}, true
			}
			return nil, false
		}
		h.env = map[types.Object]*Val{}
		if ro := recvObj(pE, fdE); ro != nil {
			h.env[ro] = &Val{K: VStruct, Ptr: true, Fields: map[string]*Val{"RowDecoder": {K: VStruct, Ptr: true, Fields: map[string]*Val{}}}}
		}
		res, err := c.rpfCall(fdE, pE, []*Val{{K: VStruct, Ptr: true, Fields: map[string]*Val{"\x00img": vstr("original")}}, callerHints}, h)
		bad := ""
		wantImages := []string{"original", "rotated"}[:sc.wantScans]
		switch {
		case err != nil:
			bad = "?" + err.Error()
		case len(res) != 2:
			bad = "Decode does not return (result, error)"
		case scans != sc.wantScans || rotates != sc.wantRotates || fmt.Sprint(scanImages) != fmt.Sprint(wantImages):
			bad = fmt.Sprintf("%d scan(s) of %v and %d rotation(s), expected %d scan(s) of %v and %d rotation(s)", scans, scanImages, rotates, sc.wantScans, wantImages, sc.wantRotates)
		case sc.wantErr != "" && (res[0].K != VNil || res[1].K != VStr || res[1].S != sc.wantErr):
			bad = fmt.Sprintf("expected (nil, %s), got (%s, %s)", sc.wantErr, res[0], res[1])
		case sc.wantErr == "" && (res[0] != returned || res[1].K != VNil):
			bad = fmt.Sprintf("expected the scan's result and no error, got (%s, %s)", res[0], res[1])
		}
		for i := 0; i < len(scanHints) && bad == ""; i++ {
			if keysOf(scanHints[i]) != keysOf(callerHints) || scanHints[i].K != callerHints.K {
				bad = fmt.Sprintf("scan %d is given the hints {%s}, the caller's are {%s}", i+1, keysOf(scanHints[i]), keysOf(callerHints))
			}
		}
		if bad == "" && sc.wantErr == "" {
			meta := returned.Fields["\x00meta"].Fields
			pts := returned.Fields["\x00points"].L
			o := meta[fmt.Sprint(OR)]
			switch {
			case sc.wantOrient == 0 && (len(meta) != 0 || ptStr(pts[0]) != ptStr(pt(4, 9))):
				bad = "the result of the first scan must be returned untouched"
			case sc.wantOrient != 0 && (o == nil || !o.isInt() || o.I != sc.wantOrient):
				bad = fmt.Sprintf("a result found in the rotated image must carry ORIENTATION %d ((270 + the scan's own) mod 360), got %s", sc.wantOrient, o)
			case sc.wantOrient != 0 && (len(pts) != 2 || ptStr(pts[0]) != sc.wantPoints[0] || ptStr(pts[1]) != sc.wantPoints[1]):
				bad = fmt.Sprintf("the points of a result found in the rotated image (height %d) must be mapped (x, y) -> (height-1-y, x): got %s, %s from (4, 9), (30, 9)", RH, ptStr(pts[0]), ptStr(pts[1]))
			}
		}
		reportFold(r, c, "S-ORIENTW", key, fdE.Pos(), bad)
	}
	r.DecidedBy("M-ORIENT", "S-ORIENTW", "doDecode and Decode folded whole over scripted images, rows and results: which rows, which attempts, the marks and the points")
	r.DecidedByKeys("M-HINTFWD", "S-ORIENTW", "the hints every attempt and every scan is given are recorded and compared", "(*oned.OneDReader).doDecode#0", "(*oned.OneDReader).doDecode#1", "(*oned.OneDReader).doDecode#2", "(*oned.OneDReader).doDecode#3", "(*oned.OneDReader).Decode#0", "(*oned.OneDReader).Decode#1", "(*oned.OneDReader).Decode#2")
}
