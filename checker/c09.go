package main

import (
	"fmt"
	"go/ast"
	"go/constant"
	"go/token"
	"go/types"
	"sort"
	"strings"

	"golang.org/x/tools/go/packages"
	"golang.org/x/tools/go/ssa"
	"golang.org/x/tools/go/types/typeutil"
)

func init() {
	registerProp("C09", "Located symbols are never misread; orientation and mirroring are handled", checkC09)
}

func checkC09(c *Ctx, r *Report) {
	checkMirroredCorrection(c, r)
	checkLuma(c, r)                             // grey levels survive the colour conversion (also C17)
	checkImageRead(c, r)                        // the pixels the readers work on are the image's: every image type is read at its own coordinates (also C17)
	checkUPCDigitLoops(c, r)                    // an upside-down EAN-8 row is not taken for digits: only the L patterns are matched there (also C10)
	checkSharedStores(c, r, "oned,gozxing", 10) // results and their metadata are not shared between reads (also C18)

	checkResultSites(c, r)
	// the integrity mechanisms the classification refers to (same obligations as under C05 / C10 / C11)
	checkRSFullParity(c, r)
	checkRSWord(c, r)
	checkRowScan(c, r)
	checkHintForwarding(c, r)
	checkCode128RoundTrip(c, r) // the Code 128 reader's state machine returns what the writer wrote (no silent trimming)
	r.Rule("S-RSACCEPT", "ReedSolomonDecoder.Decode, folded from source with everything it calls over every one of the 16^3 words of length 3 with 2 check symbols - in GF(16) with generator base 1 (the Data Matrix / Aztec convention) and base 0 (the QR convention) - either reports an error or leaves a codeword at most one symbol away from the word it was given: a sampled grid that is not within the correction radius of a codeword is rejected, never delivered", 2)
	accDoms := []rsAcceptDom{{newRefGF(0x13, 16, 1), "GF(16)/0x13 base 1", 3, 2}, {newRefGF(0x13, 16, 0), "GF(16)/0x13 base 0", 3, 2}}
	if c.Tier == "thorough" {
		accDoms = append(accDoms, rsAcceptDom{newRefGF(0x13, 16, 1), "GF(16)/0x13 base 1", 4, 3}, rsAcceptDom{newRefGF(0x13, 16, 0), "GF(16)/0x13 base 0", 4, 4}, rsAcceptDom{newRefGF(0x13, 16, 1), "GF(16)/0x13 base 1", 4, 4})
	}
	checkRSAccept(c, r, "S-RSACCEPT", accDoms)
	checkUPCEANReaderEnforces(c, r)
	checkCode128Checksum(c, r)
	checkCode93Checksum(c, r)
	checkAztecRSBeforeUnstuff(c, r)
	checkMirrorRetry(c, r)
	checkOrientation(c, r)
	nf := c.newNilFlow()
	readers := nf.entryMethods("", "Reader", "Decode")
	runEKIND(c, r, nf, readers, 5)
	r.Note("decided: the mechanism the negative guarantee rests on (every Result construction is behind an integrity check or derives from a checked result), the mirrored retry protocol and flag, the 180/270 degree orientation bookkeeping, and the error kinds of the readers. Not decided: anything about finder-pattern detection, sampling and binarisation on concrete images, nor the residual probability that a mis-sampled grid passes Reed-Solomon / the check digit; Code 39, ITF and Codabar have no mandatory check character - their sites are listed, not claimed")
}

// ---------------------------------------------------------------------------------------------------------------
// M-RESULT: every construction of a Result is classified and its class is checked
// ---------------------------------------------------------------------------------------------------------------

type resultSiteClass struct {
	class string // decoder | check | derived | unchecked | merge
	arg   string // class-specific: name of the check function
	why   string
}

// Frozen by reading the pinned tree: function that constructs a Result -> where its integrity comes from.
var resultSites = map[string]resultSiteClass{
	"qrcode.QRCodeReader.Decode":                    {"decoder", "", "text of the DecoderResult of qrcode/decoder.Decoder.Decode (format BCH + per-block Reed-Solomon)"},
	"multi/qrcode.QRCodeMultiReader.DecodeMultiple": {"decoder", "", "text of the DecoderResult of qrcode/decoder.Decoder.Decode"},
	"multi/qrcode.processStructuredAppend":          {"merge", "", "concatenation of the texts of already constructed QR results (structured append)"},
	"datamatrix.DataMatrixReader.Decode":            {"decoder", "", "text of the DecoderResult of datamatrix/decoder.Decoder.Decode (per-block Reed-Solomon)"},
	"aztec.AztecReader.Decode":                      {"decoder", "", "text of the DecoderResult of aztec/decoder.Decoder.Decode (Reed-Solomon before unstuffing)"},
	"oned.code93Reader.DecodeRow":                   {"check", "code93CheckChecksums", "two mod-47 check characters"},
	"oned.code128Reader.DecodeRow":                  {"check", "", "mod-103 check symbol (rule S-C128MOD decides the comparison and its error exit)"},
	"oned.upceanReader.decodeRowWithStartRange":     {"check", "checkChecksum", "mod-10 check digit"},
	"oned.multiFormatUPCEANReader.DecodeRow":        {"derived", "", "EAN-13 result with leading 0 re-labelled UPC-A: the text minus its first character"},
	"oned.maybeReturnResult":                        {"derived", "", "EAN-13 result with leading 0 re-labelled UPC-A"},
	"oned.UPCEANExtension5Support.decodeRow":        {"check", "", "extension check digit (rule M-CHECK-EXT under C10)"},
	"oned.UPCEANExtension2Support.decodeRow":        {"check", "", "extension parity (rule M-CHECK-EXT under C10)"},
	"oned/rss.constructResult":                      {"check", "checkChecksum", "mod-79 checksum over both pairs, tested at the only call site"},
	"oned.code39Reader.DecodeRow":                   {"unchecked", "", "Code 39 has no mandatory check character (optional mod-43 when the reader is configured for it)"},
	"oned.codabarReader.DecodeRow":                  {"unchecked", "", "Codabar has no check character; validatePattern re-measures every character against the averaged widths"},
	"oned.itfReader.DecodeRow":                      {"unchecked", "", "ITF has no mandatory check character; only the allowed-length filter"},
}

func isNewResult(o types.Object) bool {
	return isFuncNamed(o, "", "NewResult") || isFuncNamed(o, "", "NewResultWithNumBits") || isFuncNamed(o, "", "NewResultWithTimestamp")
}

func checkResultSites(c *Ctx, r *Report) {
	r.Rule("M-RESULT", "every construction of a gozxing.Result outside result.go is one of the classified sites, and the class holds: decoder (the text is X.GetText() where X is only ever assigned from a decoder's Decode), check (the construction is dominated by the named integrity check with an error exit on failure), derived (the text is a checked result's text minus a leading '0', under exactly that test), unchecked (symbologies without a mandatory check character: listed, not claimed)", 16)
	var keys []string
	type site struct {
		fd   *ast.FuncDecl
		p    *packages.Package
		call *ast.CallExpr
	}
	sites := map[string][]site{}
	for _, p := range c.PkgList {
		if strings.HasSuffix(p.PkgPath, "/testutil") {
			continue
		}
		for _, f := range p.Syntax {
			if strings.HasSuffix(c.Fset.Position(f.Pos()).Filename, "/result.go") && p.PkgPath == modPath {
				continue
			}
			for _, d := range f.Decls {
				fd, ok := d.(*ast.FuncDecl)
				if !ok || fd.Body == nil {
					continue
				}
				for _, call := range findCalls(p, fd.Body, isNewResult) {
					k := fdKey(p, fd)
					if len(sites[k]) == 0 {
						keys = append(keys, k)
					}
					sites[k] = append(sites[k], site{fd, p, call})
				}
			}
		}
	}
	sort.Strings(keys)
	for _, k := range keys {
		for i, st := range sites[k] {
			key := fmt.Sprintf("%s#%d", k, i)
			r.Analysed("result site " + key)
			cls, ok := resultSites[k]
			if !ok {
				r.Fail("M-RESULT", key, c.pos(st.call.Pos()), "violation", "a Result is constructed at a site that is not classified: where does the integrity of its text come from?")
				continue
			}
			bad := ""
			switch cls.class {
			case "decoder":
				bad = checkDecoderSite(st.p, st.fd, st.call)
			case "check":
				if cls.arg != "" {
					bad = checkCheckedSite(c, st.p, st.fd, st.call, cls.arg)
				}
			case "derived":
				bad = checkDerivedSite(st.p, st.fd, st.call)
			}
			if bad == "" {
				r.Pass("M-RESULT", key, c.pos(st.call.Pos()), cls.class+": "+cls.why)
			} else {
				r.Fail("M-RESULT", key, c.pos(st.call.Pos()), "violation", bad)
			}
		}
	}
	for k := range resultSites {
		if len(sites[k]) == 0 {
			r.AnchorLost("M-RESULT", k, "classified Result construction site no longer exists")
		}
	}
}

// decoder class: arg0 is X.GetText(); every assignment to X in the function is `X, e = <decoder>.Decode(...)`.
func checkDecoderSite(p *packages.Package, fd *ast.FuncDecl, call *ast.CallExpr) string {
	tc, ok := ast.Unparen(call.Args[0]).(*ast.CallExpr)
	if !ok {
		return "the result text is not decoderResult.GetText()"
	}
	sel, ok := tc.Fun.(*ast.SelectorExpr)
	if !ok || sel.Sel.Name != "GetText" {
		return "the result text is not decoderResult.GetText()"
	}
	x := identObj(p, sel.X)
	if x == nil || !strings.HasSuffix(x.Type().String(), "common.DecoderResult") {
		return "the result text does not come from a *common.DecoderResult variable"
	}
	bad := ""
	n := 0
	ast.Inspect(fd.Body, func(nd ast.Node) bool {
		switch as := nd.(type) {
		case *ast.AssignStmt:
			for i, l := range as.Lhs {
				if identObj(p, l) != x {
					continue
				}
				n++
				var rhs ast.Expr
				if len(as.Rhs) == 1 {
					rhs = as.Rhs[0]
				} else {
					rhs = as.Rhs[i]
				}
				rc, isC := ast.Unparen(rhs).(*ast.CallExpr)
				if !isC {
					bad = "the decoder result is assigned from something other than a decoder call"
					continue
				}
				fn, isF := typeutil.Callee(p.TypesInfo, rc).(*types.Func)
				if !isF || fn.Name() != "Decode" || fn.Pkg() == nil || !strings.HasSuffix(fn.Pkg().Path(), "/decoder") {
					bad = "the decoder result is assigned from " + exprString(rc.Fun) + ", not from a decoder package's Decode"
				}
			}
		case *ast.UnaryExpr:
			if as.Op == token.AND && identObj(p, as.X) == x {
				bad = "the decoder result variable has its address taken"
			}
		}
		return true
	})
	if bad == "" && n == 0 {
		bad = "the decoder result is never assigned from a decoder"
	}
	return bad
}

// check class: a call to the named function precedes the construction and its failure leaves with an error; for a
// helper that only constructs (rss.constructResult) the test is made at its call sites.
func checkCheckedSite(c *Ctx, p *packages.Package, fd *ast.FuncDecl, call *ast.CallExpr, check string) string {
	named := func(o types.Object) bool {
		fn, ok := o.(*types.Func)
		return ok && fn.Name() == check
	}
	if calls := findCalls(p, fd.Body, named); len(calls) > 0 {
		// some call of the check precedes, followed by an error exit that depends on it
		gi, _ := guardsOf(fd.Body, enclosingStmt(fd.Body, call))
		for _, st := range gi.Preceding {
			if len(findCalls(p, st, named)) == 0 {
				continue
			}
			// either the statement itself is `if e := check(); e != nil { return err }` or an early exit follows that tests its results
			var outs []types.Object
			if as, isA := st.(*ast.AssignStmt); isA {
				for _, l := range as.Lhs {
					if o := identObj(p, l); o != nil {
						outs = append(outs, o)
					}
				}
			}
			if ifs, isI := st.(*ast.IfStmt); isI && blockReturnsError(p, ifs.Body.List, nil) {
				return ""
			}
			for _, g := range gi.EarlyExits {
				if g.Pos() < st.End() || !blockReturnsError(p, g.Body.List, nil) {
					continue
				}
				for _, o := range outs {
					if usesIdent(p, g.Cond, o) {
						return ""
					}
				}
			}
		}
		return "the call of " + check + " is not followed by an error exit on failure before the Result is constructed"
	}
	// helper: every call site of fd is under a condition that calls the check
	fnObj, _ := p.TypesInfo.Defs[fd.Name].(*types.Func)
	nsites := 0
	bad := ""
	for _, f := range p.Syntax {
		for _, d := range f.Decls {
			ofd, ok := d.(*ast.FuncDecl)
			if !ok || ofd.Body == nil {
				continue
			}
			for _, cs := range findCalls(p, ofd.Body, func(o types.Object) bool { return o == fnObj && o != nil }) {
				nsites++
				gi, _ := guardsOf(ofd.Body, enclosingStmt(ofd.Body, cs))
				guarded := false
				for _, e := range gi.Enclosing {
					if ifs, isI := e.Node.(*ast.IfStmt); isI && e.Branch && len(findCalls(p, ifs.Cond, named)) > 0 {
						// the check must be a conjunct of the condition (cond true => check true)
						if conjunctCalls(p, ifs.Cond, named) {
							guarded = true
						}
					}
				}
				if !guarded {
					bad = c.pos(cs.Pos()) + ": " + fd.Name.Name + " is called without " + check + "(...) holding"
				}
			}
		}
	}
	if nsites == 0 {
		return "no call site of " + fd.Name.Name + " found and no " + check + " inside it"
	}
	return bad
}

// conjunctCalls: cond is a conjunction one of whose conjuncts is a call satisfying pred.
func conjunctCalls(p *packages.Package, cond ast.Expr, pred func(types.Object) bool) bool {
	cond = ast.Unparen(cond)
	if be, ok := cond.(*ast.BinaryExpr); ok && be.Op == token.LAND {
		return conjunctCalls(p, be.X, pred) || conjunctCalls(p, be.Y, pred)
	}
	if call, ok := cond.(*ast.CallExpr); ok {
		return pred(typeutil.Callee(p.TypesInfo, call))
	}
	return false
}

// derived class: arg0 is T[1:] where T is (a variable holding) R.GetText() of an existing Result, and the site is
// under a condition implying T[0] == '0'.
func checkDerivedSite(p *packages.Package, fd *ast.FuncDecl, call *ast.CallExpr) string {
	sl, ok := ast.Unparen(call.Args[0]).(*ast.SliceExpr)
	if !ok || sl.High != nil || sl.Low == nil {
		return "the derived text is not <text>[1:]"
	}
	if v, isK := constInt(p, sl.Low); !isK || v != 1 {
		return "the derived text is not <text>[1:]"
	}
	textOf := func(e ast.Expr) string {
		e = ast.Unparen(e)
		if id := identObj(p, e); id != nil {
			// a local assigned once from R.GetText()
			var src string
			ast.Inspect(fd.Body, func(n ast.Node) bool {
				if as, isA := n.(*ast.AssignStmt); isA && len(as.Lhs) == 1 && identObj(p, as.Lhs[0]) == id && len(as.Rhs) == 1 {
					src = exprString(as.Rhs[0])
				}
				return true
			})
			return src
		}
		return exprString(e)
	}
	base := textOf(sl.X)
	if !strings.HasSuffix(base, ".GetText()") {
		return "the derived text does not come from an existing Result's GetText()"
	}
	// the guard
	gi, _ := guardsOf(fd.Body, enclosingStmt(fd.Body, call))
	zeroCmp := func(e ast.Expr, op token.Token) bool {
		be, ok := ast.Unparen(e).(*ast.BinaryExpr)
		if !ok || be.Op != op {
			return false
		}
		ix, ok := ast.Unparen(be.X).(*ast.IndexExpr)
		if !ok || textOf(ix.X) != base {
			return false
		}
		if i, isK := constInt(p, ix.Index); !isK || i != 0 {
			return false
		}
		tv, has := p.TypesInfo.Types[be.Y]
		if !has || tv.Value == nil {
			return false
		}
		v, exact := constant.Int64Val(constant.ToInt(tv.Value))
		return exact && v == '0'
	}
	isZeroTest := func(e ast.Expr) bool { return zeroCmp(e, token.EQL) }
	var holds func(e ast.Expr) bool
	// fails(e): e being false implies the first character is '0' (the guard-clause spelling of the test)
	var fails func(e ast.Expr) bool
	fails = func(e ast.Expr) bool {
		e = ast.Unparen(e)
		if be, ok := e.(*ast.BinaryExpr); ok && be.Op == token.LOR {
			return fails(be.X) || fails(be.Y)
		}
		if u, ok := e.(*ast.UnaryExpr); ok && u.Op == token.NOT {
			return holds(u.X)
		}
		return zeroCmp(e, token.NEQ)
	}
	holds = func(e ast.Expr) bool {
		e = ast.Unparen(e)
		if be, ok := e.(*ast.BinaryExpr); ok && be.Op == token.LAND {
			return holds(be.X) || holds(be.Y)
		}
		if isZeroTest(e) {
			return true
		}
		// a boolean variable defined as a conjunction containing the test
		if id := identObj(p, e); id != nil {
			found := false
			ast.Inspect(fd.Body, func(n ast.Node) bool {
				if as, isA := n.(*ast.AssignStmt); isA && len(as.Lhs) == 1 && identObj(p, as.Lhs[0]) == id && len(as.Rhs) == 1 && as.Tok == token.DEFINE {
					found = holds(as.Rhs[0])
				}
				return true
			})
			return found
		}
		return false
	}
	guarded := false
	for _, e := range gi.Enclosing {
		if ifs, isI := e.Node.(*ast.IfStmt); isI && e.Branch && holds(ifs.Cond) {
			guarded = true
		}
	}
	for _, g := range gi.EarlyExits {
		if fails(g.Cond) {
			guarded = true
		}
	}
	if !guarded {
		return "the UPC-A re-labelling drops the first character without testing that it is '0'"
	}
	// the metadata of the checked result (orientation, symbology identifier, extension) moves to the new one
	srcName := strings.TrimSuffix(base, ".GetText()")
	var newObj types.Object
	if as, isA := enclosingStmt(fd.Body, call).(*ast.AssignStmt); isA && len(as.Lhs) == 1 {
		newObj = identObj(p, as.Lhs[0])
	}
	if newObj == nil {
		return "the re-labelled result is not kept in a variable, so the source's metadata cannot have been copied"
	}
	copied := ""
	for _, pc := range findCalls(p, fd.Body, func(o types.Object) bool { return isMethodNamed(o, "", "Result", "PutAllMetadata") }) {
		sel, isS := pc.Fun.(*ast.SelectorExpr)
		if !isS || identObj(p, sel.X) != newObj || len(pc.Args) != 1 {
			continue
		}
		if exprString(pc.Args[0]) != srcName+".GetResultMetadata()" {
			copied = "PutAllMetadata does not copy the metadata of the source result " + srcName
			continue
		}
		copied = "ok"
		// a guard around the copy may only test the source's metadata
		g, _ := guardsOf(fd.Body, enclosingStmt(fd.Body, pc))
		for _, e := range g.Enclosing {
			ifs, isI := e.Node.(*ast.IfStmt)
			if !isI || ifs.Pos() < call.Pos() {
				continue
			}
			if usesIdent(p, ifs.Cond, newObj) || exprString(ifs.Cond) != srcName+".GetResultMetadata() != nil" {
				copied = "the metadata copy is guarded by `" + exprString(ifs.Cond) + "`; only a nil test of the source's metadata may guard it (the new result's metadata is always empty here)"
			}
		}
	}
	switch copied {
	case "ok":
		return ""
	case "":
		return "the re-labelled result does not receive the source result's metadata (ORIENTATION, symbology identifier): PutAllMetadata(" + srcName + ".GetResultMetadata()) missing"
	}
	return copied
}

// ---------------------------------------------------------------------------------------------------------------
// M-MIRROR
// ---------------------------------------------------------------------------------------------------------------

func checkMirrorRetry(c *Ctx, r *Report) {
	r.Rule("M-MIRROR", "qrcode/decoder.Decoder.Decode: the first success is returned unflagged; the retry re-masks the matrix, switches the parser to mirrored reading (which forgets the parsed version/format), re-reads version and format, transposes the matrix and decodes again - in that order, each step under `no error so far` - and its success is returned only after SetOther(NewQRCodeDecoderMetaData(true)); copyBit reads (j,i) when mirrored; Mirror swaps (x,y) with (y,x) over the upper triangle; both QR readers apply the mirrored correction to the points", 8)
	fd, p := c.funcDeclOf("qrcode/decoder", "Decoder.Decode")
	key := "qrcode/decoder.Decoder.Decode"
	if fd == nil {
		r.AnchorLost("M-MIRROR", key, "method not found")
	} else {
		r.Analysed(key)
		// statement order of the protocol on the top level of the body
		type step struct {
			name string
			pred func(o types.Object, call *ast.CallExpr) bool
		}
		method := func(name string) func(o types.Object, call *ast.CallExpr) bool {
			return func(o types.Object, call *ast.CallExpr) bool {
				fn, ok := o.(*types.Func)
				return ok && fn.Name() == name
			}
		}
		steps := []step{
			{"decode", method("decode")},
			{"Remask", method("Remask")},
			{"SetMirror(true)", func(o types.Object, call *ast.CallExpr) bool {
				if !method("SetMirror")(o, call) || len(call.Args) != 1 {
					return false
				}
				tv := p.TypesInfo.Types[call.Args[0]]
				return tv.Value != nil && constant.BoolVal(tv.Value)
			}},
			{"ReadVersion", method("ReadVersion")},
			{"ReadFormatInformation", method("ReadFormatInformation")},
			{"Mirror", method("Mirror")},
			{"decode", method("decode")},
			{"SetOther", method("SetOther")},
		}
		var seq []*ast.CallExpr
		si := 0
		for _, st := range fd.Body.List {
			for si < len(steps) {
				found := findCalls(p, st, func(o types.Object) bool { return true })
				var hit *ast.CallExpr
				for _, cl := range found {
					if steps[si].pred(typeutil.Callee(p.TypesInfo, cl), cl) {
						hit = cl
						break
					}
				}
				if hit == nil {
					break
				}
				seq = append(seq, hit)
				si++
				// several steps may not share one statement except nested ones like SetOther(New...(true))
				break
			}
		}
		if si < len(steps) {
			r.Fail("M-MIRROR", key+"/protocol", c.pos(fd.Pos()), "violation", "the mirrored retry must run decode, Remask, SetMirror(true), ReadVersion, ReadFormatInformation, Mirror, decode, SetOther in this order; step `"+steps[si].name+"` is missing or out of order")
		} else {
			r.Pass("M-MIRROR", key+"/protocol", c.pos(fd.Pos()), "")
			// steps from ReadVersion on run only under `e == nil`
			bad := ""
			for i := 3; i < len(seq); i++ {
				gi, _ := guardsOf(fd.Body, enclosingStmt(fd.Body, seq[i]))
				ok := false
				for _, e := range gi.Enclosing {
					if ifs, isI := e.Node.(*ast.IfStmt); isI && e.Branch {
						if be, isB := ast.Unparen(ifs.Cond).(*ast.BinaryExpr); isB && be.Op == token.EQL && isErrorType(p.TypesInfo.TypeOf(be.X)) {
							ok = true
						}
					}
				}
				if !ok {
					bad = "step `" + steps[i].name + "` of the mirrored retry is not conditional on the previous steps having succeeded"
					break
				}
			}
			r.Check(bad == "", "M-MIRROR", key+"/conditional", c.pos(fd.Pos()), bad)
			// the flag: SetOther(NewQRCodeDecoderMetaData(true)) and the return right after it in the same block
			so := seq[len(seq)-1]
			okFlag := false
			if len(so.Args) == 1 {
				if inner, isC := ast.Unparen(so.Args[0]).(*ast.CallExpr); isC && len(inner.Args) == 1 && isFuncNamed(typeutil.Callee(p.TypesInfo, inner), "qrcode/decoder", "NewQRCodeDecoderMetaData") {
					tv := p.TypesInfo.Types[inner.Args[0]]
					okFlag = tv.Value != nil && constant.BoolVal(tv.Value)
				}
			}
			okRet := false
			gi, _ := guardsOf(fd.Body, enclosingStmt(fd.Body, so))
			if len(gi.Enclosing) > 0 {
				if ifs, isI := gi.Enclosing[len(gi.Enclosing)-1].Node.(*ast.IfStmt); isI {
					list := ifs.Body.List
					for i, st := range list {
						if st == enclosingStmt(fd.Body, so) && i+1 < len(list) {
							if rs, isR := list[i+1].(*ast.ReturnStmt); isR && len(rs.Results) == 2 {
								// returns the object SetOther was called on
								if sel, isS := so.Fun.(*ast.SelectorExpr); isS && identObj(p, sel.X) != nil && identObj(p, sel.X) == identObj(p, rs.Results[0]) {
									okRet = true
								}
							}
						}
					}
				}
			}
			r.Check(okFlag && okRet, "M-MIRROR", key+"/flag", c.pos(so.Pos()), fmt.Sprintf("the mirrored success must be flagged with NewQRCodeDecoderMetaData(true) (%v) on the very result that is returned next (%v)", okFlag, okRet))
			// the first success is returned before any SetOther
			first := seq[0]
			okFirst := false
			for i, st := range fd.Body.List {
				if st == enclosingStmt(fd.Body, first) && i+1 < len(fd.Body.List) {
					if ifs, isI := fd.Body.List[i+1].(*ast.IfStmt); isI && terminates(ifs.Body.List) && len(findCalls(p, ifs, method2("SetOther"))) == 0 {
						if be, isB := ast.Unparen(ifs.Cond).(*ast.BinaryExpr); isB && be.Op == token.EQL && isErrorType(p.TypesInfo.TypeOf(be.X)) {
							okFirst = true
						}
					}
				}
			}
			r.Check(okFirst, "M-MIRROR", key+"/unmirrored", c.pos(first.Pos()), "a successful first reading must be returned at once, without the mirrored flag")
		}
	}
	// SetMirror forgets the parsed version and format
	if fd, p := c.funcDeclOf("qrcode/decoder", "BitMatrixParser.SetMirror"); fd != nil {
		k := "qrcode/decoder.BitMatrixParser.SetMirror"
		r.Analysed(k)
		cleared := map[string]bool{}
		setsMirror := false
		for _, st := range fd.Body.List {
			if as, ok := st.(*ast.AssignStmt); ok && len(as.Lhs) == 1 && len(as.Rhs) == 1 {
				if sel, isS := as.Lhs[0].(*ast.SelectorExpr); isS {
					if id, isI := ast.Unparen(as.Rhs[0]).(*ast.Ident); isI && id.Name == "nil" {
						cleared[sel.Sel.Name] = true
					}
					if sel.Sel.Name == "mirror" && identObj(p, as.Rhs[0]) == paramObjs(p, fd)[0] {
						setsMirror = true
					}
				}
			}
		}
		r.Check(cleared["parsedVersion"] && cleared["parsedFormatInfo"] && setsMirror, "M-MIRROR", k, c.pos(fd.Pos()), "SetMirror must store the flag and clear parsedVersion and parsedFormatInfo: otherwise the mirrored attempt reuses the version/format read from the unmirrored positions")
	} else {
		r.AnchorLost("M-MIRROR", "qrcode/decoder.BitMatrixParser.SetMirror", "method not found")
	}
	// copyBit
	if fd, p := c.funcDeclOf("qrcode/decoder", "BitMatrixParser.copyBit"); fd != nil {
		k := "qrcode/decoder.BitMatrixParser.copyBit"
		r.Analysed(k)
		ps := paramObjs(p, fd)
		ok := 0
		for _, call := range findCalls(p, fd.Body, func(o types.Object) bool { return isMethodNamed(o, "", "BitMatrix", "Get") }) {
			gi, _ := guardsOf(fd.Body, enclosingStmt(fd.Body, call))
			if len(gi.Enclosing) == 0 {
				continue
			}
			e := gi.Enclosing[len(gi.Enclosing)-1]
			ifs, isI := e.Node.(*ast.IfStmt)
			if !isI {
				continue
			}
			sel, isS := ast.Unparen(ifs.Cond).(*ast.SelectorExpr)
			if !isS || sel.Sel.Name != "mirror" {
				continue
			}
			a0, a1 := identObj(p, call.Args[0]), identObj(p, call.Args[1])
			if e.Branch && a0 == ps[1] && a1 == ps[0] {
				ok++
			}
			if !e.Branch && a0 == ps[0] && a1 == ps[1] {
				ok++
			}
		}
		r.Check(ok == 2, "M-MIRROR", k, c.pos(fd.Pos()), "copyBit(i, j) must read Get(j, i) when mirrored and Get(i, j) otherwise")
	} else {
		r.AnchorLost("M-MIRROR", "qrcode/decoder.BitMatrixParser.copyBit", "method not found")
	}
	// Mirror: transposition
	if fd, p := c.funcDeclOf("qrcode/decoder", "BitMatrixParser.Mirror"); fd != nil {
		k := "qrcode/decoder.BitMatrixParser.Mirror"
		r.Analysed(k)
		s := c.newSymExec(p)
		s.pure = func(o types.Object) bool { return true }
		s.block(fd.Body.List)
		var flips [][2]*Poly
		var conds []symCond
		for _, cl := range s.calls {
			if isMethodNamed(cl.Callee, "", "BitMatrix", "Flip") && len(cl.Args) == 2 {
				flips = append(flips, [2]*Poly{cl.Args[0], cl.Args[1]})
				conds = cl.Conds
			}
		}
		bad := ""
		if len(flips) != 2 {
			bad = "expected the two Flip calls of a transposition"
		} else {
			ks := kAtomsOf(flips[0][0], flips[0][1])
			if len(ks) != 2 || !(flips[0][0].equal(flips[1][1]) && flips[0][1].equal(flips[1][0])) || flips[0][0].equal(flips[0][1]) {
				bad = "the two flipped cells must be (a,b) and (b,a)"
			} else {
				// the guard compares Get(a,b) with Get(b,a)
				okG := false
				a, b := flips[0][0].String(), flips[0][1].String()
				for _, cd := range conds {
					if cd.op == token.NEQ && !cd.neg {
						l, rr := cd.l.String(), cd.r.String()
						if strings.Contains(l, "Get(") && strings.Contains(rr, "Get(") && l != rr &&
							((strings.HasSuffix(l, ";"+a+";"+b+")") && strings.HasSuffix(rr, ";"+b+";"+a+")")) || (strings.HasSuffix(l, ";"+b+";"+a+")") && strings.HasSuffix(rr, ";"+a+";"+b+")"))) {
							okG = true
						}
					}
				}
				if !okG {
					bad = "the cells are flipped only when Get(a,b) != Get(b,a)"
				}
				// upper triangle: the inner counter starts at the outer one or above it (never from 0)
				tri := false
				var outer types.Object
				ast.Inspect(fd.Body, func(n ast.Node) bool {
					if l, ok := n.(*ast.ForStmt); ok {
						if as, isA := l.Init.(*ast.AssignStmt); isA && len(as.Rhs) == 1 && len(as.Lhs) == 1 {
							if outer == nil {
								outer = identObj(p, as.Lhs[0])
								return true
							}
							rhs := ast.Unparen(as.Rhs[0])
							if identObj(p, rhs) == outer {
								tri = true
							}
							if be, isB := rhs.(*ast.BinaryExpr); isB && be.Op == token.ADD {
								// outer + k or k + outer
								x, y := be.X, be.Y
								if identObj(p, y) == outer {
									x, y = y, x
								}
								if identObj(p, x) == outer {
									if v, isK := constInt(p, y); isK && v >= 0 {
										tri = v <= 1
									}
								}
							}
						}
					}
					return true
				})
				if bad == "" && !tri {
					bad = "the inner loop must start at the outer counter (or one above): visiting both (a,b) and (b,a) would swap every pair twice, and starting higher leaves cells unswapped"
				}
			}
		}
		r.Check(bad == "", "M-MIRROR", k, c.pos(fd.Pos()), bad)
	} else {
		r.AnchorLost("M-MIRROR", "qrcode/decoder.BitMatrixParser.Mirror", "method not found")
	}
	// readers apply the correction
	for _, t := range [][2]string{{"qrcode", "QRCodeReader.Decode"}, {"multi/qrcode", "QRCodeMultiReader.DecodeMultiple"}} {
		fd, p := c.funcDeclOf(t[0], t[1])
		k := t[0] + "." + t[1] + "/points"
		if fd == nil {
			r.AnchorLost("M-MIRROR", k, "method not found")
			continue
		}
		r.Analysed(k)
		calls := findCalls(p, fd.Body, method2("ApplyMirroredCorrection"))
		news := findCalls(p, fd.Body, isNewResult)
		ok := len(calls) == 1 && len(news) >= 1 && calls[0].Pos() < news[0].Pos() && len(calls[0].Args) == 1 && len(news[0].Args) >= 3 && identObj(p, calls[0].Args[0]) != nil && identObj(p, calls[0].Args[0]) == identObj(p, news[0].Args[2])
		r.Check(ok, "M-MIRROR", k, c.pos(fd.Pos()), "the mirrored correction must be applied to the very points handed to the Result, before it is constructed")
	}
	if fd, p := c.funcDeclOf("qrcode/decoder", "QRCodeDecoderMetaData.ApplyMirroredCorrection"); fd != nil {
		k := "qrcode/decoder.QRCodeDecoderMetaData.ApplyMirroredCorrection"
		r.Analysed(k)
		ok := false
		ast.Inspect(fd.Body, func(n ast.Node) bool {
			if as, isA := n.(*ast.AssignStmt); isA && len(as.Lhs) == 2 && len(as.Rhs) == 2 {
				idx := func(e ast.Expr) int64 {
					if ix, isIx := e.(*ast.IndexExpr); isIx {
						if v, isK := constInt(p, ix.Index); isK {
							return v
						}
					}
					return -1
				}
				if idx(as.Lhs[0]) == 0 && idx(as.Lhs[1]) == 2 && idx(as.Rhs[0]) == 2 && idx(as.Rhs[1]) == 0 {
					ok = true
				}
			}
			return true
		})
		r.Check(ok, "M-MIRROR", k, c.pos(fd.Pos()), "a mirrored symbol has its bottom-left and top-right finder points (0 and 2) swapped")
	} else {
		r.AnchorLost("M-MIRROR", "qrcode/decoder.QRCodeDecoderMetaData.ApplyMirroredCorrection", "method not found")
	}
}

func method2(name string) func(o types.Object) bool {
	return func(o types.Object) bool {
		fn, ok := o.(*types.Func)
		return ok && fn.Name() == name
	}
}

// ---------------------------------------------------------------------------------------------------------------
// M-ORIENT
// ---------------------------------------------------------------------------------------------------------------

func isOrientationKey(p *packages.Package, e ast.Expr) bool {
	if sel, ok := ast.Unparen(e).(*ast.SelectorExpr); ok {
		return sel.Sel.Name == "ResultMetadataType_ORIENTATION"
	}
	return false
}

func checkOrientation(c *Ctx, r *Report) {
	r.Rule("M-ORIENT", "oned.OneDReader.doDecode: the row is reversed exactly on the second attempt, and a success of that attempt - and only that - is marked ORIENTATION 180 with both end points mirrored to width-1-x before it is returned; OneDReader.Decode retries on the counter-clockwise rotated image only after NotFound, under TRY_HARDER and rotation support, decodes the rotated image, marks ORIENTATION (270 + previous) mod 360 and maps each point (x, y) to (height-1-y, x) of the rotated image", 6)
	fd, p := c.funcDeclOf("oned", "OneDReader.doDecode")
	key := "oned.OneDReader.doDecode"
	if fd == nil {
		r.AnchorLost("M-ORIENT", key, "method not found")
	} else {
		r.Analysed(key)
		// the attempt loop
		var loop *ast.ForStmt
		var lr loopRange
		ast.Inspect(fd.Body, func(n ast.Node) bool {
			if l, ok := n.(*ast.ForStmt); ok {
				if x, isR := loopVarRange(p, l); isR && x.lo == 0 && x.hi == 2 {
					loop, lr = l, x
				}
			}
			return true
		})
		if loop == nil {
			r.Fail("M-ORIENT", key+"/attempts", c.pos(fd.Pos()), "violation", "the two-attempt loop (forward, reversed) was not found")
		} else {
			r.Pass("M-ORIENT", key+"/attempts", c.pos(loop.Pos()), "")
			isSecond := func(e ast.Expr) bool {
				// a conjunction containing attempt == 1
				var walk func(e ast.Expr) bool
				walk = func(e ast.Expr) bool {
					e = ast.Unparen(e)
					if be, ok := e.(*ast.BinaryExpr); ok {
						if be.Op == token.LAND {
							return walk(be.X) || walk(be.Y)
						}
						if be.Op == token.EQL && identObj(p, be.X) == lr.v {
							if v, isK := constInt(p, be.Y); isK && v == 1 {
								return true
							}
						}
					}
					return false
				}
				return walk(e)
			}
			underSecond := func(n ast.Node) (second bool, conds []ast.Expr) {
				gi, _ := guardsOf(loop.Body, enclosingStmt(loop.Body, n))
				for _, e := range gi.Enclosing {
					if ifs, isI := e.Node.(*ast.IfStmt); isI && e.Branch {
						conds = append(conds, ifs.Cond)
						if isSecond(ifs.Cond) {
							second = true
						}
					}
				}
				return
			}
			revs := findCalls(p, loop.Body, func(o types.Object) bool { return isMethodNamed(o, "", "BitArray", "Reverse") })
			okRev := len(revs) == 1
			if okRev {
				okRev, _ = underSecond(revs[0])
			}
			r.Check(okRev, "M-ORIENT", key+"/reverse", c.pos(loop.Pos()), "row.Reverse() must run exactly under attempt == 1")
			// DecodeRow result and error
			var resObj, errObj types.Object
			var decStmt ast.Stmt
			for _, st := range loop.Body.List {
				if as, isA := st.(*ast.AssignStmt); isA && len(as.Lhs) == 2 && len(as.Rhs) == 1 {
					if call, isC := as.Rhs[0].(*ast.CallExpr); isC {
						if fn, isF := typeutil.Callee(p.TypesInfo, call).(*types.Func); isF && fn.Name() == "DecodeRow" {
							resObj, errObj = identObj(p, as.Lhs[0]), identObj(p, as.Lhs[1])
							decStmt = st
						}
					}
				}
			}
			puts := findCalls(p, loop.Body, func(o types.Object) bool { return isMethodNamed(o, "", "Result", "PutMetadata") })
			bad := ""
			var put *ast.CallExpr
			for _, pc := range puts {
				if len(pc.Args) == 2 && isOrientationKey(p, pc.Args[0]) {
					put = pc
				}
			}
			switch {
			case resObj == nil:
				bad = "the DecodeRow call of the attempt loop was not found"
			case put == nil:
				bad = "no ORIENTATION metadata is written in the attempt loop"
			default:
				if v, isK := constInt(p, put.Args[1]); !isK || v != 180 {
					bad = "the reversed attempt must be marked ORIENTATION 180"
				}
				second, conds := underSecond(put)
				if bad == "" && !second {
					bad = "ORIENTATION 180 is written although the row was not reversed (not under attempt == 1)"
				}
				okErr := false
				for _, cd := range conds {
					var walk func(e ast.Expr)
					walk = func(e ast.Expr) {
						e = ast.Unparen(e)
						if be, ok := e.(*ast.BinaryExpr); ok {
							if be.Op == token.LAND {
								walk(be.X)
								walk(be.Y)
							}
							if be.Op == token.EQL && identObj(p, be.X) == errObj {
								okErr = true
							}
						}
					}
					walk(cd)
				}
				if bad == "" && !okErr {
					bad = "ORIENTATION 180 must be written only when DecodeRow succeeded"
				}
				if sel, isS := put.Fun.(*ast.SelectorExpr); bad == "" && (!isS || identObj(p, sel.X) != resObj) {
					bad = "ORIENTATION 180 must be written on the result of this attempt's DecodeRow"
				}
				if bad == "" && !(put.Pos() > decStmt.End()) {
					bad = "ORIENTATION must be written after DecodeRow"
				}
				// the success return comes after the metadata block and returns the same result
				if bad == "" {
					okRet := false
					for _, st := range loop.Body.List {
						if st.Pos() < put.End() {
							continue
						}
						if ifs, isI := st.(*ast.IfStmt); isI && len(ifs.Body.List) == 1 {
							if rs, isR := ifs.Body.List[0].(*ast.ReturnStmt); isR && len(rs.Results) == 2 && identObj(p, rs.Results[0]) == resObj {
								okRet = true
							}
						}
					}
					if !okRet {
						bad = "the successful result must be returned after the orientation bookkeeping"
					}
				}
			}
			if put != nil {
				r.Check(bad == "", "M-ORIENT", key+"/180", c.pos(put.Pos()), bad)
			} else {
				r.Check(bad == "", "M-ORIENT", key+"/180", c.pos(loop.Pos()), bad)
			}
			// points mirrored: points[k] = NewResultPoint(w - points[k].GetX() - 1, points[k].GetY())
			s := c.newSymExec(p)
			s.pure = func(o types.Object) bool {
				fn, ok := o.(*types.Func)
				return ok && (fn.Name() == "NewResultPoint" || fn.Name() == "GetX" || fn.Name() == "GetY" || fn.Name() == "GetWidth" || fn.Name() == "GetHeight" || fn.Name() == "GetResultPoints")
			}
			s.block(fd.Body.List)
			nm := 0
			badP := ""
			for _, st := range s.stores {
				v := st.Val.String()
				if !strings.HasPrefix(v, "call:gozxing.NewResultPoint(") {
					continue
				}
				nm++
				elem := "idx(" + st.Base.String() + "," + st.Index.String() + ")"
				getX := polyAtom("call:(gozxing.ResultPoint).GetX(" + elem + ")")
				getY := polyAtom("call:(gozxing.ResultPoint).GetY(" + elem + ")")
				okX := false
				for _, cl := range s.calls {
					if fn, isF := cl.Callee.(*types.Func); isF && fn.Name() == "GetWidth" && cl.Recv != nil {
						w := polyAtom("call:" + shortObj(cl.Callee) + "(" + cl.Recv.String() + ")")
						want := "call:gozxing.NewResultPoint(" + w.sub(getX).sub(polyInt(1)).String() + ";" + getY.String() + ")"
						if v == want {
							okX = true
						}
					}
				}
				if !okX {
					badP = "an end point of the reversed row must become (width - x - 1, y); got " + prettyPoly(st.Val)
				}
			}
			if nm != 2 && badP == "" {
				badP = fmt.Sprintf("%d end points are mirrored, expected both", nm)
			}
			r.Check(badP == "", "M-ORIENT", key+"/points", c.pos(loop.Pos()), badP)
		}
	}
	// ---- the 90 degree retry
	fd, p = c.funcDeclOf("oned", "OneDReader.Decode")
	key = "oned.OneDReader.Decode"
	if fd == nil {
		r.AnchorLost("M-ORIENT", key, "method not found")
		return
	}
	r.Analysed(key)
	s := c.newSymExec(p)
	s.pure = func(o types.Object) bool {
		fn, ok := o.(*types.Func)
		return ok && (fn.Name() == "NewResultPoint" || fn.Name() == "GetX" || fn.Name() == "GetY" || fn.Name() == "GetWidth" || fn.Name() == "GetHeight" || fn.Name() == "GetResultPoints" || fn.Name() == "IsRotateSupported")
	}
	s.block(fd.Body.List)
	// rotation call and its guards
	var rot *symCall
	var dec []*symCall
	for i := range s.calls {
		cl := &s.calls[i]
		if fn, ok := cl.Callee.(*types.Func); ok {
			if fn.Name() == "RotateCounterClockwise" {
				rot = cl
			}
			if fn.Name() == "doDecode" {
				dec = append(dec, cl)
			}
		}
	}
	bad := ""
	switch {
	case rot == nil || len(dec) != 2:
		bad = "expected doDecode, RotateCounterClockwise, doDecode"
	default:
		// guards of the rotation: first doDecode failed; error is NotFound; tryHarder && IsRotateSupported
		var conds []string
		for _, cd := range rot.Conds {
			conds = append(conds, cd.String())
		}
		joined := strings.Join(conds, " ; ")
		if !strings.Contains(joined, "IsRotateSupported") {
			bad = "the rotation retry must be conditional on image.IsRotateSupported()"
		}
		// syntactic: an early exit testing the TRY_HARDER hint precedes
		gi, _ := guardsOf(fd.Body, enclosingStmt(fd.Body, rot.Call))
		th, nfound := false, false
		// the try-harder flag: the presence result of the hints[TRY_HARDER] lookup
		var thObj types.Object
		ast.Inspect(fd.Body, func(n ast.Node) bool {
			if as, isA := n.(*ast.AssignStmt); isA && len(as.Lhs) == 2 && len(as.Rhs) == 1 {
				if ix, isIx := as.Rhs[0].(*ast.IndexExpr); isIx && strings.HasSuffix(exprString(ix.Index), "DecodeHintType_TRY_HARDER") {
					thObj = identObj(p, as.Lhs[1])
				}
			}
			return true
		})
		for _, g := range gi.EarlyExits {
			txt := exprString(g.Cond)
			if thObj != nil && usesIdent(p, g.Cond, thObj) && strings.Contains(txt, "IsRotateSupported") {
				if u, isU := ast.Unparen(g.Cond).(*ast.UnaryExpr); isU && u.Op == token.NOT {
					if be, isB := ast.Unparen(u.X).(*ast.BinaryExpr); isB && be.Op == token.LAND {
						th = true
					}
				}
			}
			if u, isU := ast.Unparen(g.Cond).(*ast.UnaryExpr); g.Init != nil && isU && u.Op == token.NOT {
				if as, isA := g.Init.(*ast.AssignStmt); isA && len(as.Rhs) == 1 && len(as.Lhs) == 2 && identObj(p, u.X) != nil && identObj(p, u.X) == identObj(p, as.Lhs[1]) {
					if ta, isT := as.Rhs[0].(*ast.TypeAssertExpr); isT && strings.HasSuffix(exprString(ta.Type), "NotFoundException") {
						nfound = true
					}
				}
			}
		}
		if bad == "" && !th {
			bad = "the rotation retry must be skipped unless TRY_HARDER is set and rotation is supported"
		}
		if bad == "" && !nfound {
			bad = "only a NotFound outcome of the upright attempt may lead to the rotated retry (a checksum/format error must be returned)"
		}
		// tryHarder comes from the TRY_HARDER hint
		if bad == "" {
			okHint := false
			ast.Inspect(fd.Body, func(n ast.Node) bool {
				if as, isA := n.(*ast.AssignStmt); isA && len(as.Lhs) == 2 && len(as.Rhs) == 1 {
					if ix, isIx := as.Rhs[0].(*ast.IndexExpr); isIx && strings.HasSuffix(exprString(ix.Index), "DecodeHintType_TRY_HARDER") {
						if o := identObj(p, as.Lhs[1]); o != nil && o == thObj && countAssignsAST(p, fd.Body, o) == 1 {
							okHint = true
						}
					}
				}
				return true
			})
			if !okHint {
				bad = "tryHarder must be the presence of DecodeHintType_TRY_HARDER"
			}
		}
		// the second doDecode receives the rotated image
		if bad == "" {
			rotObj := types.Object(nil)
			if as, isA := enclosingStmt(fd.Body, rot.Call).(*ast.AssignStmt); isA {
				rotObj = identObj(p, as.Lhs[0])
			}
			if rotObj == nil || identObj(p, dec[1].Call.Args[0]) != rotObj {
				bad = "the retry must decode the rotated image"
			}
		}
	}
	r.Check(bad == "", "M-ORIENT", key+"/retry", c.pos(fd.Pos()), bad)
	// orientation value
	badO := ""
	var orient types.Object
	for _, cl := range s.calls {
		if isMethodNamed(cl.Callee, "", "Result", "PutMetadata") && len(cl.Call.Args) == 2 && isOrientationKey(p, cl.Call.Args[0]) {
			orient = identObj(p, cl.Call.Args[1])
		}
	}
	if orient == nil {
		badO = "the rotated result is not marked with an ORIENTATION variable"
	} else {
		has270, hasSum := false, false
		for _, a := range s.assigns {
			if a.Obj != orient {
				continue
			}
			if cst, isC := a.Val.isConst(); isC && cst.Num().Int64() == 270 && cst.IsInt() {
				has270 = true
				continue
			}
			v := a.Val.String()
			if strings.HasPrefix(v, "mod(") && strings.HasSuffix(v, ",360)") && strings.Contains(v, "270") {
				hasSum = true
				continue
			}
			badO = "orientation is assigned " + prettyPoly(a.Val) + "; expected 270 or (270 + previous) % 360"
		}
		if badO == "" && !(has270 && hasSum) {
			badO = "orientation must start at 270 and add an ORIENTATION already present modulo 360"
		}
	}
	r.Check(badO == "", "M-ORIENT", key+"/270", c.pos(fd.Pos()), badO)
	// point map
	badP := ""
	nm := 0
	for _, st := range s.stores {
		v := st.Val.String()
		if !strings.HasPrefix(v, "call:gozxing.NewResultPoint(") {
			continue
		}
		nm++
		elem := "idx(" + st.Base.String() + "," + st.Index.String() + ")"
		getX := polyAtom("call:(gozxing.ResultPoint).GetX(" + elem + ")")
		getY := polyAtom("call:(gozxing.ResultPoint).GetY(" + elem + ")")
		ok := false
		for _, cl := range s.calls {
			if fn, isF := cl.Callee.(*types.Func); isF && fn.Name() == "GetHeight" && cl.Recv != nil && rot != nil {
				h := polyAtom("call:" + shortObj(cl.Callee) + "(" + cl.Recv.String() + ")")
				want := "call:gozxing.NewResultPoint(" + h.sub(getY).sub(polyInt(1)).String() + ";" + getX.String() + ")"
				if v == want && strings.Contains(cl.Recv.String(), "RotateCounterClockwise") {
					ok = true
				}
			}
		}
		if !ok {
			badP = "a point (x, y) of the rotated image must become (rotatedHeight - y - 1, x); got " + prettyPoly(st.Val)
		}
		if len(kAtomsOf(st.Index)) != 1 {
			badP = "every point must be remapped"
		}
	}
	if nm != 1 && badP == "" {
		badP = "the result points are not remapped to the upright image"
	}
	r.Check(badP == "", "M-ORIENT", key+"/points", c.pos(fd.Pos()), badP)
}

// M-HINTFWD: the caller's hints reach every callee that takes hints
func checkHintForwarding(c *Ctx, r *Report) {
	r.Rule("M-HINTFWD", "in every reader and decoder function that has a decode-hints parameter, each call that passes decode hints on hands over that very parameter, a map built in the function (a filtered copy), or a choice between such values - never nil or some other map: a retry (mirrored QR reading, rotated or reversed attempts, per-reader dispatch) must decode under the hints the caller gave", 20)
	isHints := func(t types.Type) bool {
		m, ok := t.Underlying().(*types.Map)
		if !ok {
			return false
		}
		n, ok := m.Key().(*types.Named)
		return ok && n.Obj().Name() == "DecodeHintType"
	}
	var fs []*ssa.Function
	for f := range c.allFuncs {
		if f.Blocks == nil || !isRepoPkgFn(f) || f.Synthetic != "" {
			continue
		}
		if f.Pkg != nil && strings.HasSuffix(f.Pkg.Pkg.Path(), "/testutil") {
			continue
		}
		has := false
		for _, p := range f.Params {
			if isHints(p.Type()) {
				has = true
			}
		}
		if has {
			fs = append(fs, f)
		}
	}
	sort.Slice(fs, func(i, j int) bool { return fs[i].String() < fs[j].String() })
	sites := 0
	for _, f := range fs {
		busy := map[*ssa.Phi]bool{}
		var ok func(v ssa.Value, depth int) bool
		ok = func(v ssa.Value, depth int) bool {
			if depth > 12 {
				return false
			}
			switch x := v.(type) {
			case *ssa.Parameter:
				return isHints(x.Type())
			case *ssa.MakeMap:
				return true
			case *ssa.Phi:
				if busy[x] {
					return true // a loop-carried value: decided by its other edges
				}
				busy[x] = true
				defer delete(busy, x)
				for _, e := range x.Edges {
					if !ok(e, depth+1) {
						return false
					}
				}
				return true
			case *ssa.UnOp:
				// a local variable spilled to an alloc (closures, defers): every store to it must qualify
				if al, isAl := x.X.(*ssa.Alloc); isAl && x.Op == token.MUL {
					for _, ref := range *al.Referrers() {
						if st, isSt := ref.(*ssa.Store); isSt && st.Addr == ssa.Value(al) && !ok(st.Val, depth+1) {
							return false
						}
					}
					return true
				}
			case *ssa.ChangeType:
				return ok(x.X, depth+1)
			}
			return false
		}
		ord := 0
		for _, b := range f.Blocks {
			for _, in := range b.Instrs {
				call, isCall := in.(ssa.CallInstruction)
				if !isCall {
					continue
				}
				for _, a := range call.Common().Args {
					if !isHints(a.Type()) {
						continue
					}
					sites++
					key := fmt.Sprintf("%s#%d", shortFn(f), ord)
					ord++
					if ok(a, 0) {
						r.Pass("M-HINTFWD", key, c.pos(call.Pos()), "")
					} else {
						what := fmt.Sprintf("%T", a)
						if cst, isC := a.(*ssa.Const); isC && cst.IsNil() {
							what = "nil"
						}
						r.Fail("M-HINTFWD", key, c.pos(call.Pos()), "violation", "decode hints are passed on as "+what+" instead of the hints this function was given")
					}
				}
			}
		}
	}
	r.Extra("M-HINTFWD sites", sites)
}

// M-MIRRORPTS: a mirrored QR symbol's result points are put back in reading order, whatever their number
func checkMirroredCorrection(c *Ctx, r *Report) {
	r.Rule("M-MIRRORPTS", "QRCodeDecoderMetaData.ApplyMirroredCorrection, folded on point lists of 0..5 points with the flag set and clear: when the symbol was read mirrored and there are at least three points (three finder patterns, with or without the alignment pattern of versions 2 and up) the bottom-left and top-right points change places and every other point stays; otherwise nothing moves", 1)
	fd, p := c.funcDeclOf("qrcode/decoder", "QRCodeDecoderMetaData.ApplyMirroredCorrection")
	key := "qrcode/decoder.QRCodeDecoderMetaData.ApplyMirroredCorrection"
	if fd == nil {
		r.AnchorLost("M-MIRRORPTS", key, "method not found")
		return
	}
	r.Analysed(key)
	recv := recvObj(p, fd)
	bad := ""
	for _, mirrored := range []bool{true, false} {
		for n := 0; n <= 5 && bad == ""; n++ {
			pts := &Val{K: VList, Local: true}
			for i := 0; i < n; i++ {
				pts.L = append(pts.L, vstr(fmt.Sprintf("point %d", i)))
			}
			h := &rpf{unroll: 16, env: map[types.Object]*Val{}}
			if recv != nil {
				h.env[recv] = &Val{K: VStruct, Ptr: true, Fields: map[string]*Val{"mirrored": vbool(mirrored)}}
			}
			if _, err := c.rpfCall(fd, p, []*Val{pts}, h); err != nil {
				bad = fmt.Sprintf("?%d points, mirrored=%v: %v", n, mirrored, err)
				break
			}
			for i := 0; i < n; i++ {
				want := i
				if mirrored && n >= 3 && (i == 0 || i == 2) {
					want = 2 - i
				}
				if len(pts.L) != n || pts.L[i].K != VStr || pts.L[i].S != fmt.Sprintf("point %d", want) {
					bad = fmt.Sprintf("%d points, mirrored=%v: position %d holds %s afterwards, expected point %d", n, mirrored, i, valString(pts.L[i]), want)
					break
				}
			}
		}
	}
	reportFold(r, c, "M-MIRRORPTS", key, fd.Pos(), bad)
}
