package main

import (
	"fmt"
	"go/ast"
	"go/token"
	"go/types"
	"golang.org/x/tools/go/ssa"
	"strings"

	"golang.org/x/tools/go/types/typeutil"
)

func init() {
	registerProp("C13", "Smallest adequate symbol chosen; size hints and capacity limits honoured", checkC13)
}

func checkC13(c *Ctx, r *Report) {
	rows := checkQRVersionTable(c, r)
	checkChooseVersion(c, r)
	checkTwoPass(c, r, rows)
	checkQRCapacities(c, r, rows)
	checkDMLookup(c, r)
	checkDMContextLookup(c, r)
	checkDMTables(c, r) // the table the first-fit lookup walks: sizes, capacities and their order (same obligations as under C08)
	// the symbol is looked up for lengths the mode encoders estimate: the Base 256 estimate is decided with its length field
	checkDMBase256(c, r)
	checkDMWriterLookup(c, r)
	checkQRSizedBits(c, r)
	checkECIEmission(c, r) // the header whose length enters the version choice carries an ECI in byte mode only (also C15)
	r.Note("not decided: that calculateBitsNeeded equals the number of bits the segment encoders later emit (loop arithmetic over the payload)")
}

func checkChooseVersion(c *Ctx, r *Report) {
	r.Rule("M-FIRSTFIT-QR", "chooseVersion scans versions 1..40 in ascending order and returns at the first willFit, else an error; willFit folded over (bits, total, ec) equals `8*(total - ec) >= bits`; calculateBitsNeeded = header + count width(version) + data; recommendVersion = chooseVersion(bits at chooseVersion(bits at version 1)); a forced version passes willFit or is refused", 5)
	// chooseVersion
	fd, p := c.funcDeclOf("qrcode/encoder", "chooseVersion")
	key := "qrcode/encoder.chooseVersion"
	if fd == nil {
		r.AnchorLost("M-FIRSTFIT-QR", key, "function not found")
	} else {
		r.Analysed(key)
		bad := ""
		var loop *ast.ForStmt
		for _, st := range fd.Body.List {
			if f, ok := st.(*ast.ForStmt); ok {
				loop = f
			}
		}
		if loop == nil {
			bad = "no scanning loop"
		} else {
			lr, ok := loopVarRange(p, loop)
			if !ok || lr.lo != 1 || lr.hi != 41 {
				bad = fmt.Sprintf("the scan must run versionNum = 1..40 ascending (found %d..%d)", lr.lo, lr.hi-1)
			}
			// body: version := GetVersionForNumber(loop var); if willFit(numInputBits, version, ecLevel) { return version, nil }
			okBody := false
			var verObj types.Object
			for _, st := range loop.Body.List {
				if as, isA := st.(*ast.AssignStmt); isA && len(as.Rhs) == 1 {
					if call, isC := as.Rhs[0].(*ast.CallExpr); isC && isFuncNamed(typeutil.Callee(p.TypesInfo, call), "qrcode/decoder", "Version_GetVersionForNumber") && identObj(p, call.Args[0]) == lr.v {
						verObj = identObj(p, as.Lhs[0])
					}
				}
				if ifs, isI := st.(*ast.IfStmt); isI && ifs.Else == nil && verObj != nil {
					if call, isC := ast.Unparen(ifs.Cond).(*ast.CallExpr); isC && isFuncNamed(typeutil.Callee(p.TypesInfo, call), "qrcode/encoder", "willFit") {
						ps := paramObjs(p, fd)
						if identObj(p, call.Args[0]) == ps[0] && identObj(p, call.Args[1]) == verObj && identObj(p, call.Args[2]) == ps[1] && len(ifs.Body.List) == 1 {
							if rs, isR := ifs.Body.List[0].(*ast.ReturnStmt); isR && len(rs.Results) == 2 && identObj(p, rs.Results[0]) == verObj {
								if tv, has := p.TypesInfo.Types[rs.Results[1]]; has && tv.IsNil() {
									okBody = true
								}
							}
						}
					}
				}
			}
			if bad == "" && !okBody {
				bad = "the loop body must be `version := GetVersionForNumber(v); if willFit(bits, version, level) { return version, nil }`"
			}
			if bad == "" && len(loop.Body.List) != 2 {
				bad = "unexpected extra statements in the scan"
			}
		}
		if bad == "" {
			last := fd.Body.List[len(fd.Body.List)-1]
			if rs, ok := last.(*ast.ReturnStmt); !ok || !blockReturnsError(p, []ast.Stmt{rs}, nil) {
				bad = "after the scan the function must return an error (content beyond version 40)"
			}
		}
		r.Check(bad == "", "M-FIRSTFIT-QR", key, c.pos(fd.Pos()), bad)
	}
	// willFit folded
	if fd, p := c.funcDeclOf("qrcode/encoder", "willFit"); fd != nil {
		key := "qrcode/encoder.willFit"
		r.Analysed(key)
		bad := ""
		for _, T := range []int64{26, 44, 196, 3706} {
			for _, E := range []int64{7, 17, 130, 750} {
				if E >= T {
					continue
				}
				for _, d := range []int64{-17, -9, -8, -7, -1, 0, 1, 7, 8, 9} {
					bits := 8*(T-E) + d
					if bits < 0 {
						continue
					}
					hooks := &rpf{callHook: func(rr *rpf, call *ast.CallExpr, callee types.Object) (*Val, bool) {
						switch {
						case isMethodNamed(callee, "qrcode/decoder", "Version", "GetTotalCodewords"):
							return vint(T), true
						case isMethodNamed(callee, "qrcode/decoder", "Version", "GetECBlocksForLevel"):
							return &Val{K: VStruct, Ptr: true, Fields: map[string]*Val{"ecCodewordsPerBlock": vint(E), "ecBlocks": {K: VList, L: []*Val{{K: VStruct, Fields: map[string]*Val{"count": vint(1), "dataCodewords": vint(T - E)}}}}}}, true
						case isMethodNamed(callee, "qrcode/decoder", "ECBlocks", "GetTotalECCodewords"):
							return vint(E), true
						}
						return nil, false
					}}
					res, err := c.rpfCall(fd, p, []*Val{vint(bits), {K: VNil}, vint(1)}, hooks)
					if err != nil {
						bad = "?" + err.Error()
						break
					}
					want := 8*(T-E) >= bits
					if len(res) != 1 || res[0].K != VBool || res[0].B != want {
						bad = fmt.Sprintf("total %d, ec %d, %d bits: willFit folds to %v, expected %v", T, E, bits, res, want)
					}
				}
			}
		}
		if bad != "" && bad[0] == '?' {
			r.Undecided("M-FIRSTFIT-QR", key, c.pos(fd.Pos()), bad)
		} else {
			r.Check(bad == "", "M-FIRSTFIT-QR", key, c.pos(fd.Pos()), bad)
		}
	} else {
		r.AnchorLost("M-FIRSTFIT-QR", "qrcode/encoder.willFit", "function not found")
	}
	// calculateBitsNeeded
	if fd, p := c.funcDeclOf("qrcode/encoder", "calculateBitsNeeded"); fd != nil {
		key := "qrcode/encoder.calculateBitsNeeded"
		r.Analysed(key)
		ps := paramObjs(p, fd)
		s := c.symFunc(fd, p, func(types.Object) bool { return true })
		ok := false
		if len(s.rets) == 1 && len(s.rets[0].Vals) == 1 && len(ps) == 4 {
			A := func(o types.Object) string { return polyAtom(objAtom(o)).String() }
			want := polyAtom("call:(*gozxing.BitArray).GetSize(" + A(ps[1]) + ")").
				add(polyAtom("call:(*qrcode/decoder.Mode).GetCharacterCountBits(" + A(ps[0]) + ";" + A(ps[3]) + ")")).
				add(polyAtom("call:(*gozxing.BitArray).GetSize(" + A(ps[2]) + ")"))
			ok = s.rets[0].Vals[0].equal(want)
		}
		r.Check(ok, "M-FIRSTFIT-QR", key, c.pos(fd.Pos()), "must return headerBits.GetSize() + mode.GetCharacterCountBits(version) + dataBits.GetSize()")
	} else {
		r.AnchorLost("M-FIRSTFIT-QR", "qrcode/encoder.calculateBitsNeeded", "function not found")
	}
	// recommendVersion
	if fd, p := c.funcDeclOf("qrcode/encoder", "recommendVersion"); fd != nil {
		key := "qrcode/encoder.recommendVersion"
		r.Analysed(key)
		ps := paramObjs(p, fd)
		s := c.symFunc(fd, p, func(types.Object) bool { return true })
		ok := false
		if len(ps) == 4 {
			A := func(o types.Object) string { return polyAtom(objAtom(o)).String() }
			v1 := "call:qrcode/decoder.Version_GetVersionForNumber(1)"
			bits1 := "call:qrcode/encoder.calculateBitsNeeded(" + A(ps[1]) + ";" + A(ps[2]) + ";" + A(ps[3]) + ";" + v1 + ")"
			prov := "call:qrcode/encoder.chooseVersion(" + bits1 + ";" + A(ps[0]) + ")"
			bits2 := "call:qrcode/encoder.calculateBitsNeeded(" + A(ps[1]) + ";" + A(ps[2]) + ";" + A(ps[3]) + ";" + prov + ")"
			final := "call:qrcode/encoder.chooseVersion(" + bits2 + ";" + A(ps[0]) + ")"
			other := ""
			for _, rt := range s.rets {
				if len(rt.Vals) < 1 {
					continue
				}
				v := rt.Vals[0].String()
				switch {
				case v == final:
					ok = true
				case strings.HasPrefix(v, "nil"):
					// error return
				case v == prov:
					// returning the provisional version is right only inside the first count-width class (versions 1..9)
					safe := false
					vn := polyAtom("call:(*qrcode/decoder.Version).GetVersionNumber(" + prov + ")")
					for _, cd := range rt.Conds {
						if condIs(cd, token.LEQ, vn, polyInt(9)) || condIs(cd, token.LSS, vn, polyInt(10)) {
							safe = true
						}
						for k := int64(1); k < 9; k++ {
							if condIs(cd, token.LEQ, vn, polyInt(k)) || condIs(cd, token.LSS, vn, polyInt(k)) {
								safe = true
							}
						}
					}
					if !safe {
						other = c.pos(rt.Stmt.Pos()) + ": the provisional version is returned without the second pass outside versions 1..9, where the count width differs from version 1's"
					}
				default:
					other = c.pos(rt.Stmt.Pos()) + ": returns " + prettyPoly(rt.Vals[0]) + ", which is neither the two-pass result nor an error"
				}
			}
			if other != "" {
				r.Fail("M-FIRSTFIT-QR", key+"/other-returns", c.pos(fd.Pos()), "violation", other)
			} else {
				r.Pass("M-FIRSTFIT-QR", key+"/other-returns", c.pos(fd.Pos()), "")
			}
		}
		r.Check(ok, "M-FIRSTFIT-QR", key, c.pos(fd.Pos()), "must return chooseVersion(bits at chooseVersion(bits at version 1, level), level): the second pass uses the count width of the provisional version")
	} else {
		r.AnchorLost("M-FIRSTFIT-QR", "qrcode/encoder.recommendVersion", "function not found")
	}
	// forced version: under the QR_VERSION hint, `if !willFit(bits, version, level) { return error }` dominates use
	if fd, p := c.funcDeclOf("qrcode/encoder", "Encoder_encode"); fd != nil {
		key := "qrcode/encoder.Encoder_encode.forced-version"
		ok := false
		ast.Inspect(fd.Body, func(n ast.Node) bool {
			ifs, isI := n.(*ast.IfStmt)
			if !isI {
				return true
			}
			u, isU := ast.Unparen(ifs.Cond).(*ast.UnaryExpr)
			if !isU || u.Op != token.NOT {
				return true
			}
			call, isC := ast.Unparen(u.X).(*ast.CallExpr)
			if !isC || !isFuncNamed(typeutil.Callee(p.TypesInfo, call), "qrcode/encoder", "willFit") {
				return true
			}
			if blockReturnsError(p, ifs.Body.List, nil) {
				// first argument comes from calculateBitsNeeded(.., version) on the same version variable
				gi, _ := guardsOf(fd.Body, ifs)
				for _, st := range gi.Preceding {
					if as, isA := st.(*ast.AssignStmt); isA && len(as.Rhs) == 1 && identObj(p, as.Lhs[0]) == identObj(p, call.Args[0]) {
						if c2, isC2 := as.Rhs[0].(*ast.CallExpr); isC2 && isFuncNamed(typeutil.Callee(p.TypesInfo, c2), "qrcode/encoder", "calculateBitsNeeded") && identObj(p, c2.Args[3]) == identObj(p, call.Args[1]) {
							ok = true
						}
					}
				}
			}
			return true
		})
		r.Check(ok, "M-FIRSTFIT-QR", key, c.pos(fd.Pos()), "a forced version must be refused with an error unless willFit(calculateBitsNeeded(.., version), version, level)")
	} else {
		r.AnchorLost("M-FIRSTFIT-QR", "qrcode/encoder.Encoder_encode", "function not found")
	}
}

// checkTwoPass: the arithmetic side condition under which the two-pass recommendation returns the least fitting
// version (derivation in DESIGN.md §4 C13): capacities strictly increase with the version and, at the class
// boundaries b in {9, 26}, 8*(cap(b+1, l) - cap(b, l)) >= cc3(m) - cc1(m) for every level l and mode m.
func checkTwoPass(c *Ctx, r *Report, rows []qrVersionRow) {
	r.Rule("T-TWOPASS", "data capacity strictly increases with the version at every level (156 obligations) and the capacity step across each count-width class boundary (9|10, 26|27) is at least the widest count-width growth of any mode (8 obligations): the conditions under which one correction pass yields the minimal version", 164)
	if len(rows) != 40 {
		return
	}
	capOf := func(v, lv int) int {
		row := rows[v-1]
		n := 0
		for _, g := range row.Levels[lv].Groups {
			n += g[0] * g[1]
		}
		return n
	}
	for lv := 0; lv < 4; lv++ {
		for v := 1; v < 40; v++ {
			if !rows[v-1].OK || !rows[v].OK {
				continue
			}
			a, b := capOf(v, lv), capOf(v+1, lv)
			r.Check(b > a, "T-TWOPASS", fmt.Sprintf("capacity(v%d,%s) < capacity(v%d,%s)", v, refQRLevelNames[lv], v+1, refQRLevelNames[lv]), rows[v].Pos,
				fmt.Sprintf("data codewords %d at version %d, %d at version %d", a, v, b, v+1))
		}
	}
	// widest growth of a count width, read from the Mode table in the source
	maxGrowth := 0
	for _, m := range refQRModes {
		init, p := c.varInit("qrcode/decoder", m.name)
		if init == nil {
			continue
		}
		v := c.eval(p, init)
		if v.K == VCall && len(v.L) == 2 {
			if ws, ok := v.L[0].ints(); ok && len(ws) == 3 {
				if g := int(ws[2] - ws[0]); g > maxGrowth {
					maxGrowth = g
				}
			}
		}
	}
	for _, b := range []int{9, 26} {
		for lv := 0; lv < 4; lv++ {
			if !rows[b-1].OK || !rows[b].OK {
				continue
			}
			step := 8 * (capOf(b+1, lv) - capOf(b, lv))
			r.Check(step >= maxGrowth && maxGrowth > 0, "T-TWOPASS", fmt.Sprintf("boundary v%d|v%d,%s", b, b+1, refQRLevelNames[lv]), rows[b].Pos,
				fmt.Sprintf("capacity step %d bits, widest count-width growth %d bits", step, maxGrowth))
		}
	}
}

func qrCapacityFor(dataCodewords int, mode int, ccBits int) int {
	bits := 8*dataCodewords - 4 - ccBits
	if bits < 0 {
		return 0
	}
	switch mode {
	case 0: // numeric: 10 bits per 3 digits, 7 per 2, 4 per 1
		n := bits / 10 * 3
		rem := bits % 10
		if rem >= 7 {
			n += 2
		} else if rem >= 4 {
			n++
		}
		return n
	case 1: // alphanumeric: 11 bits per 2, 6 per 1
		n := bits / 11 * 2
		if bits%11 >= 6 {
			n++
		}
		return n
	case 2:
		return bits / 8
	case 3:
		return bits / 13
	}
	return 0
}

func checkQRCapacities(c *Ctx, r *Report, rows []qrVersionRow) {
	r.Rule("T-QRCAP", "capacities derived from the source tables (data codewords, mode count widths) for versions 1 and 40 at all four levels equal the figures published in ISO 18004 Table 7 (numeric, alphanumeric, byte, kanji)", 32)
	if len(rows) != 40 {
		return
	}
	modeNames := []string{"Mode_NUMERIC", "Mode_ALPHANUMERIC", "Mode_BYTE", "Mode_KANJI"}
	widths := map[string][]int64{}
	for _, mn := range modeNames {
		init, p := c.varInit("qrcode/decoder", mn)
		if init == nil {
			r.AnchorLost("T-QRCAP", "qrcode/decoder."+mn, "mode not found")
			return
		}
		v := c.eval(p, init)
		if v.K != VCall || len(v.L) != 2 {
			r.Undecided("T-QRCAP", "qrcode/decoder."+mn, c.pos(init.Pos()), "not a NewMode call")
			return
		}
		ws, ok := v.L[0].ints()
		if !ok || len(ws) != 3 {
			r.Undecided("T-QRCAP", "qrcode/decoder."+mn, c.pos(init.Pos()), "widths not constant")
			return
		}
		widths[mn] = ws
	}
	label := []string{"numeric", "alphanumeric", "byte", "kanji"}
	for _, v := range []int{1, 40} {
		row := rows[v-1]
		if !row.OK {
			continue
		}
		for lv := 0; lv < 4; lv++ {
			data := 0
			for _, g := range row.Levels[lv].Groups {
				data += g[0] * g[1]
			}
			for m := 0; m < 4; m++ {
				cc := int(widths[modeNames[m]][refQRCountClass(v)])
				got := qrCapacityFor(data, m, cc)
				want := refQRCapacity[v][lv][m]
				r.Check(got == want, "T-QRCAP", fmt.Sprintf("capacity(v%d,%s,%s)", v, refQRLevelNames[lv], label[m]), row.Pos,
					fmt.Sprintf("version %d-%s %s capacity from the tables is %d, ISO 18004 publishes %d", v, refQRLevelNames[lv], label[m], got, want))
			}
		}
	}
}

// ---- Data Matrix lookup ----

func checkDMLookup(c *Ctx, r *Report) {
	r.Rule("M-FIRSTFIT-DM", "SymbolInfo_Lookup folded on the literal symbols table: for every boundary codeword count (each capacity and capacity+1, 1 and 1559), every shape hint and a set of (min, max) dimension pairs it returns the first row in table order that has the shape, lies within the size limits and holds the data; with fail=true a miss is an error, otherwise (nil, nil); UpdateSymbolInfoByLength asks with fail=true, and one encoder context asked again and again while its message grows (1 to 115 codewords, each shape hint) holds, every time, the first permitted symbol of the table that holds the count - what was chosen before does not narrow the choice", 200)
	syms := extractDMSymbols(c, r, "M-FIRSTFIT-DM")
	fd, p := c.funcDeclOf("datamatrix/encoder", "SymbolInfo_Lookup")
	if fd == nil || len(syms) == 0 {
		r.AnchorLost("M-FIRSTFIT-DM", "datamatrix/encoder.SymbolInfo_Lookup", "function or table not found")
		return
	}
	r.Analysed("datamatrix/encoder.SymbolInfo_Lookup")
	// the table as folded values
	table := &Val{K: VList}
	regionsHV := map[int][2]int{1: {1, 1}, 2: {2, 1}, 4: {2, 2}, 16: {4, 4}, 36: {6, 6}}
	type geo struct{ w, h int }
	var geos []geo
	for i, s := range syms {
		table.L = append(table.L, &Val{K: VStruct, Ptr: true, Fields: map[string]*Val{
			"rectangular": vbool(s.rect), "dataCapacity": vint(int64(s.data)), "errorCodewords": vint(int64(s.ec)),
			"matrixWidth": vint(int64(s.mw)), "matrixHeight": vint(int64(s.mh)), "dataRegions": vint(int64(s.regions)),
			"rsBlockData": vint(int64(s.rsData)), "rsBlockError": vint(int64(s.rsErr)), "rowIndex": vint(int64(i))}})
		hv := regionsHV[s.regions]
		geos = append(geos, geo{hv[0] * (s.mw + 2), hv[1] * (s.mh + 2)})
	}
	symbolsObj := c.lookupObj("datamatrix/encoder", "symbols")
	var counts []int
	seen := map[int]bool{}
	for _, s := range syms {
		for _, n := range []int{s.data, s.data + 1} {
			if !seen[n] {
				seen[n] = true
				counts = append(counts, n)
			}
		}
	}
	counts = append(counts, 1, 2)
	type dims struct{ minW, minH, maxW, maxH int }
	limits := []dims{{-1, -1, -1, -1}, {20, 20, -1, -1}, {-1, -1, 26, 26}, {12, 12, 48, 48}, {30, 10, -1, -1}, {-1, -1, 144, 20}, {40, 40, 30, 30}}
	nGeneric := len(limits)
	// limits taken from the table itself: exactly each row's own size as minimum, and as maximum
	for _, g := range geos {
		limits = append(limits, dims{g.w, g.h, -1, -1}, dims{-1, -1, g.w, g.h})
	}
	dim := func(w, h int) *Val {
		if w < 0 {
			return &Val{K: VNil}
		}
		return &Val{K: VStruct, Ptr: true, Fields: map[string]*Val{"width": vint(int64(w)), "height": vint(int64(h))}}
	}
	nOK := 0
	for _, shape := range []int64{0, 1, 2} {
		for li, lim := range limits {
			key := fmt.Sprintf("datamatrix/encoder.SymbolInfo_Lookup(shape=%d,limits#%d)", shape, li)
			bad := ""
			cs := counts
			if li >= nGeneric {
				row := syms[(li-nGeneric)/2]
				cs = []int{1, row.data, row.data + 1}
			}
			for _, n := range cs {
				for _, fail := range []bool{true, false} {
					hooks := &rpf{
						env: map[types.Object]*Val{},
						callHook: func(rr *rpf, call *ast.CallExpr, callee types.Object) (*Val, bool) {
							if isFuncNamed(callee, "", "NewWriterException") {
								return vstr("error"), true
							}
							return nil, false
						},
					}
					// bind the package-level table
					res, err := c.rpfCallWithGlobals(fd, p, []*Val{vint(int64(n)), vint(shape), dim(lim.minW, lim.minH), dim(lim.maxW, lim.maxH), vbool(fail)}, hooks, map[types.Object]*Val{symbolsObj: table})
					if err != nil {
						bad = "?" + err.Error()
						break
					}
					// reference
					want := -1
					for i, s := range syms {
						if shape == 1 && s.rect || shape == 2 && !s.rect {
							continue
						}
						if lim.minW >= 0 && (geos[i].w < lim.minW || geos[i].h < lim.minH) {
							continue
						}
						if lim.maxW >= 0 && (geos[i].w > lim.maxW || geos[i].h > lim.maxH) {
							continue
						}
						if n <= s.data {
							want = i
							break
						}
					}
					if len(res) != 2 {
						bad = "unexpected result arity"
						break
					}
					if want >= 0 {
						if res[0].K != VStruct || res[0].Fields["rowIndex"] == nil || int(res[0].Fields["rowIndex"].I) != want || res[1].K != VNil {
							bad = fmt.Sprintf("%d codewords, shape %d, limits %+v: returns %v; the first admissible row is #%d (%dx%d, capacity %d)", n, shape, lim, res[0], want, geos[want].h, geos[want].w, syms[want].data)
						}
					} else if fail {
						if res[0].K != VNil || res[1].K == VNil {
							bad = fmt.Sprintf("%d codewords, shape %d, limits %+v, fail=true: nothing admissible, but the result is %v, %v (must be nil and an error)", n, shape, lim, res[0], res[1])
						}
					} else if res[0].K != VNil || res[1].K != VNil {
						bad = fmt.Sprintf("%d codewords, shape %d, limits %+v, fail=false: nothing admissible, but the result is %v, %v", n, shape, lim, res[0], res[1])
					}
					if bad != "" {
						break
					}
					nOK++
				}
				if bad != "" {
					break
				}
			}
			if bad != "" && bad[0] == '?' {
				r.Undecided("M-FIRSTFIT-DM", key, c.pos(fd.Pos()), bad)
			} else {
				r.Check(bad == "", "M-FIRSTFIT-DM", key, c.pos(fd.Pos()), bad)
			}
		}
	}
	r.Extra("dm_lookup_folds", nOK)
	// shape hint constants
	okShape := true
	for name, want := range map[string]int64{"SymbolShapeHint_FORCE_NONE": 0, "SymbolShapeHint_FORCE_SQUARE": 1, "SymbolShapeHint_FORCE_RECTANGLE": 2} {
		if cst, ok := c.lookupObj("datamatrix/encoder", name).(*types.Const); !ok {
			okShape = false
		} else if v, ok := constInt64(cst); !ok || v != want {
			okShape = false
		}
	}
	r.Check(okShape, "M-FIRSTFIT-DM", "datamatrix/encoder.SymbolShapeHint constants", "", "the fold binds FORCE_NONE/SQUARE/RECTANGLE to 0/1/2")
	// UpdateSymbolInfoByLength: lookup with fail = true, and only when the current symbol is too small
	if fd, p := c.funcDeclOf("datamatrix/encoder", "EncoderContext.UpdateSymbolInfoByLength"); fd != nil {
		ok := false
		for _, call := range findCalls(p, fd.Body, func(o types.Object) bool { return isFuncNamed(o, "datamatrix/encoder", "SymbolInfo_Lookup") }) {
			if len(call.Args) == 5 {
				if tv, has := p.TypesInfo.Types[call.Args[4]]; has && tv.Value != nil && tv.Value.String() == "true" && identObj(p, call.Args[0]) == paramObjs(p, fd)[0] {
					ok = true
				}
			}
		}
		r.Check(ok, "M-FIRSTFIT-DM", "datamatrix/encoder.EncoderContext.UpdateSymbolInfoByLength", c.pos(fd.Pos()), "must look the symbol up for the given length with fail=true (a miss becomes an error)")
	} else {
		r.AnchorLost("M-FIRSTFIT-DM", "datamatrix/encoder.EncoderContext.UpdateSymbolInfoByLength", "method not found")
	}
	_ = strings.Contains
}

// M-DMSAMEHINTS: the writer looks the symbol up under the constraints the high-level encoder padded for
func checkDMWriterLookup(c *Ctx, r *Report) {
	r.Rule("M-DMSAMEHINTS", "DataMatrixWriter.Encode hands SymbolInfo_Lookup the very shape, minimum size and maximum size values it handed EncodeHighLevel (which chose and padded for a symbol under them), with the number of codewords EncodeHighLevel returned and fail = true: looked up under other constraints, a different symbol of the same capacity can be drawn than the hints allow", 1)
	f := c.ssaFunc("datamatrix", "DataMatrixWriter.Encode")
	key := "datamatrix.DataMatrixWriter.Encode"
	if f == nil {
		r.AnchorLost("M-DMSAMEHINTS", key, "method not found")
		return
	}
	r.Analysed(key)
	var enc, look *ssa.Call
	for _, b := range f.Blocks {
		for _, in := range b.Instrs {
			if call, ok := in.(*ssa.Call); ok {
				if g := call.Call.StaticCallee(); g != nil {
					switch g.Name() {
					case "EncodeHighLevel":
						enc = call
					case "SymbolInfo_Lookup":
						look = call
					}
				}
			}
		}
	}
	bad := ""
	switch {
	case enc == nil || look == nil:
		bad = "EncodeHighLevel / SymbolInfo_Lookup calls not found"
	case len(enc.Call.Args) != 4 || len(look.Call.Args) != 5:
		bad = "unexpected signatures"
	default:
		for i, name := range []string{"shape", "minimum size", "maximum size"} {
			if enc.Call.Args[1+i] != look.Call.Args[1+i] {
				bad = fmt.Sprintf("the %s given to SymbolInfo_Lookup is not the value given to EncodeHighLevel", name)
			}
		}
		// the length is len(<codewords returned by EncodeHighLevel>)
		okLen := false
		if lc, ok := look.Call.Args[0].(*ssa.Call); ok {
			if bi, ok := lc.Call.Value.(*ssa.Builtin); ok && bi.Name() == "len" {
				if ex, ok := lc.Call.Args[0].(*ssa.Extract); ok && ex.Tuple == ssa.Value(enc) && ex.Index == 0 {
					okLen = true
				}
			}
		}
		if !okLen && bad == "" {
			bad = "the lookup length is not the number of codewords EncodeHighLevel returned"
		}
		if cst, ok := look.Call.Args[4].(*ssa.Const); (!ok || cst.Value == nil || cst.Value.String() != "true") && bad == "" {
			bad = "the lookup is not asked to fail when no symbol satisfies the constraints"
		}
	}
	r.Check(bad == "", "M-DMSAMEHINTS", key, c.pos(f.Pos()), bad)
}

// M-SIZEDBITS: what the version was chosen for is what is written
func checkQRSizedBits(c *Ctx, r *Report) {
	r.Rule("M-SIZEDBITS", "Encoder_encode: the bit stream handed to terminateBits and to the interleaver is assembled from exactly the header bits and the data bits the version was chosen for (the arguments of recommendVersion / calculateBitsNeeded), in that order, with the character count between them: header bits, appendLengthInfo, data bits - nothing else is appended to it (an indicator written only into the final stream would not have been counted when the symbol was sized)", 1)
	fd, p := c.funcDeclOf("qrcode/encoder", "Encoder_encode")
	key := "qrcode/encoder.Encoder_encode/final-stream"
	if fd == nil {
		r.AnchorLost("M-SIZEDBITS", key, "function not found")
		return
	}
	r.Analysed(key)
	one := func(name string) *ast.CallExpr {
		cs := findCalls(p, fd.Body, func(o types.Object) bool { return isFuncNamed(o, "qrcode/encoder", name) })
		if len(cs) == 0 {
			return nil
		}
		return cs[len(cs)-1]
	}
	rec, term, inter := one("recommendVersion"), one("terminateBits"), one("interleaveWithECBytes")
	if rec == nil || term == nil || inter == nil || len(rec.Args) != 4 || len(term.Args) != 2 || len(inter.Args) != 4 {
		r.Undecided("M-SIZEDBITS", key, c.pos(fd.Pos()), "recommendVersion / terminateBits / interleaveWithECBytes calls not found")
		return
	}
	hdr, data, final := identObj(p, rec.Args[2]), identObj(p, rec.Args[3]), identObj(p, term.Args[1])
	bad := ""
	if hdr == nil || data == nil || final == nil || identObj(p, inter.Args[0]) != final {
		bad = "?the sized header / data bits or the final stream are not plain variables (or the interleaver gets another stream than the one that was terminated)"
	}
	// the forced-version test must size the same two
	for _, cb := range findCalls(p, fd.Body, func(o types.Object) bool { return isFuncNamed(o, "qrcode/encoder", "calculateBitsNeeded") }) {
		if bad == "" && len(cb.Args) == 4 && (identObj(p, cb.Args[1]) != hdr || identObj(p, cb.Args[2]) != data) {
			bad = "a forced version is tested with other header / data bits than the automatic choice"
		}
	}
	var seq []string
	if bad == "" {
		walkCalls(p, fd.Body, func(cs *callSite) {
			call := cs.Call
			touches := false
			if sel, ok := call.Fun.(*ast.SelectorExpr); ok && identObj(p, sel.X) == final {
				touches = true
			}
			for _, a := range call.Args {
				if identObj(p, a) == final {
					touches = true
				}
			}
			if !touches || bad != "" {
				return
			}
			fn, _ := cs.Callee.(*types.Func)
			name := ""
			if fn != nil {
				name = fn.Name()
			}
			switch {
			case isMethodNamed(cs.Callee, "", "BitArray", "AppendBitArray") && len(call.Args) == 1:
				switch identObj(p, call.Args[0]) {
				case hdr:
					seq = append(seq, "header")
				case data:
					seq = append(seq, "data")
				default:
					bad = fmt.Sprintf("%s is appended to the final stream at %s: it was not among the bits the version was chosen for", types.ExprString(call.Args[0]), c.pos(call.Pos()))
				}
			case name == "appendLengthInfo":
				seq = append(seq, "count")
			case name == "terminateBits", name == "interleaveWithECBytes":
			case isMethodNamed(cs.Callee, "", "BitArray", "GetSize"), isMethodNamed(cs.Callee, "", "BitArray", "GetSizeInBytes"):
			default:
				bad = fmt.Sprintf("%s writes into (or takes) the final stream at %s: only the sized header bits, the character count and the sized data bits may go there", name, c.pos(call.Pos()))
			}
		})
	}
	if bad == "" && strings.Join(seq, ",") != "header,count,data" {
		bad = fmt.Sprintf("the final stream is assembled as [%s]; expected header bits, character count, data bits", strings.Join(seq, ", "))
	}
	reportFold(r, c, "M-SIZEDBITS", key, term.Pos(), bad)
}

// M-FIRSTFIT-DM on one encoder context: the symbol chosen for a growing message
func checkDMContextLookup(c *Ctx, r *Report) {
	syms := extractDMSymbols(c, r, "M-FIRSTFIT-DM")
	fd, p := c.funcDeclOf("datamatrix/encoder", "EncoderContext.UpdateSymbolInfoByLength")
	symbolsObj := c.lookupObj("datamatrix/encoder", "symbols")
	key := "datamatrix/encoder.EncoderContext.UpdateSymbolInfoByLength/history"
	if fd == nil || len(syms) == 0 || symbolsObj == nil {
		r.AnchorLost("M-FIRSTFIT-DM", key, "method or table not found")
		return
	}
	r.Analysed(key)
	table := &Val{K: VList}
	for i, s := range syms {
		table.L = append(table.L, &Val{K: VStruct, Ptr: true, Fields: map[string]*Val{
			"rectangular": vbool(s.rect), "dataCapacity": vint(int64(s.data)), "errorCodewords": vint(int64(s.ec)),
			"matrixWidth": vint(int64(s.mw)), "matrixHeight": vint(int64(s.mh)), "dataRegions": vint(int64(s.regions)),
			"rsBlockData": vint(int64(s.rsData)), "rsBlockError": vint(int64(s.rsErr)), "rowIndex": vint(int64(i))}})
	}
	bad := ""
	for _, shape := range []int64{0, 1, 2} {
		// one context, asked again and again while the message grows (and once after a reset, as backtracking does)
		ctx := &Val{K: VStruct, Ptr: true, Local: true, Fields: map[string]*Val{
			"msg": {K: VList}, "shape": vint(shape), "minSize": {K: VNil}, "maxSize": {K: VNil}, "codewords": {K: VList, Local: true},
			"pos": vint(0), "newEncoding": vint(-1), "symbolInfo": {K: VNil}, "skipAtEnd": vint(0)}}
		for _, n := range []int{1, 3, 4, 6, 9, 10, 11, 13, 17, 19, 23, 31, 33, 37, 44, 45, 50, 63, 87, 115} {
			h := &rpf{unroll: 1000, effectCalls: true, env: map[types.Object]*Val{recvObj(p, fd): ctx}}
			h.callHook = func(rr *rpf, call *ast.CallExpr, callee types.Object) (*Val, bool) {
				return errCtorHook(rr, call, callee)
			}
			res, err := c.rpfCallWithGlobals(fd, p, []*Val{vint(int64(n))}, h, map[types.Object]*Val{symbolsObj: table})
			if err != nil {
				bad = "?" + err.Error()
				break
			}
			want := -1
			for i, s := range syms {
				if shape == 1 && s.rect || shape == 2 && !s.rect {
					continue
				}
				if n <= s.data {
					want = i
					break
				}
			}
			if want < 0 {
				// no permitted symbol holds that many: an error, and the sequence for this shape ends
				if len(res) != 1 || res[0].K == VNil {
					bad = fmt.Sprintf("shape hint %d, %d codewords: no permitted symbol holds them, yet no error is returned", shape, n)
				}
				break
			}
			si := ctx.Fields["symbolInfo"]
			if len(res) != 1 || res[0].K != VNil || si == nil || si.K != VStruct || si.Fields["rowIndex"] == nil {
				bad = fmt.Sprintf("shape hint %d, %d codewords: no symbol is chosen", shape, n)
				break
			}
			// the context keeps a symbol that still holds the count; otherwise it must move to the first that does
			got := int(si.Fields["rowIndex"].I)
			if syms[got].data < n {
				bad = fmt.Sprintf("shape hint %d, %d codewords: the context holds the symbol with capacity %d", shape, n, syms[got].data)
				break
			}
			if got > want {
				bad = fmt.Sprintf("shape hint %d, message grown to %d codewords on one context: the symbol chosen has %d data codewords (table row %d); the first permitted symbol that holds them has %d (row %d) - a smaller symbol is skipped because of what was chosen before", shape, n, syms[got].data, got, syms[want].data, want)
				break
			}
		}
		if bad != "" {
			break
		}
	}
	reportFold(r, c, "M-FIRSTFIT-DM", key, fd.Pos(), bad)
}
