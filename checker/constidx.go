package main

import (
	"fmt"
	"go/constant"
	"go/token"
	"go/types"
	"os"
	"sort"
	"strings"

	"golang.org/x/tools/go/ssa"
)

// E-CONSTIDX: a slice indexed with a constant needs that many elements on every path.
//
// For s[k] (k a constant, s a slice or string value) one of the following must hold:
//   (a) s has a statically known minimum length > k: make with a constant length, a slice of a fixed-size array, a
//       composite literal, a slicing s'[lo:hi] with constant hi-lo, or the result of a repository function all of whose
//       returns have such a length;
//   (b) a test of len(s) against a constant dominates the access and implies len(s) > k;
//   (c) s is a parameter and every call site found in the call graph passes a value satisfying (a), (b) or (c)
//       (exported functions of the API packages are callable with any slice: no (c) for them);
//   (d) the site is in the frozen table with its reason.

type minLen struct {
	c       *Ctx
	memo    map[ssa.Value]int64
	fnRes   map[*ssa.Function][]int64
	busy    map[interface{}]bool
	fields  map[string]int64 // "T.f" -> minimum length of every slice ever stored there (0 when some allocation leaves it nil)
	fieldOK bool
	isRoot  map[*ssa.Function]bool
	reach   map[*ssa.Function]bool // functions reachable from the entry points: only their calls count as call sites
	nn      bool                   // bounds under the assumption that the value is not nil (nil constants are skipped)
}

// fieldBound: every store to field f of struct type T (anywhere in the program) stores a slice of at least the returned
// length, and every allocation of a T is followed, in the allocating function, by a store to that field; 0 otherwise.
func (m *minLen) fieldBound(t types.Type, idx int) int64 {
	key := fieldKey(t, idx)
	if key == "" {
		return 0
	}
	if !m.fieldOK {
		m.fieldOK = true
		m.fields = map[string]int64{}
		type st struct {
			val ssa.Value
		}
		stores := map[string][]ssa.Value{}
		storeBlk := map[ssa.Value]*ssa.BasicBlock{}
		bad := map[string]bool{}
		structOf := func(t types.Type) (types.Type, *types.Struct) {
			if p, ok := t.Underlying().(*types.Pointer); ok {
				t = p.Elem()
			}
			s, _ := t.Underlying().(*types.Struct)
			return t, s
		}
		var zeroed func(t types.Type, inits map[string]bool, top bool)
		zeroed = func(t types.Type, inits map[string]bool, top bool) {
			switch u := t.Underlying().(type) {
			case *types.Struct:
				for i := 0; i < u.NumFields(); i++ {
					ft := u.Field(i).Type()
					if _, isSlice := ft.Underlying().(*types.Slice); isSlice {
						k := types.TypeString(t, nil) + "." + u.Field(i).Name()
						if !(top && inits[k]) {
							bad[k] = true
							if os.Getenv("GZ_DEBUG_CI") != "" {
								fmt.Println("BADFIELD", k, "in", curFn, top, inits)
							}
						}
					}
					switch ft.Underlying().(type) {
					case *types.Struct, *types.Array:
						zeroed(ft, nil, false)
					}
				}
			case *types.Array:
				zeroed(u.Elem(), nil, false)
			}
		}
		for f := range m.c.allFuncs {
			if f.Blocks == nil {
				continue
			}
			inits := map[ssa.Value]map[string]bool{}
			curFn = f.String()
			copied := map[ssa.Value]bool{}
			elemInits := map[ssa.Value]map[int64]map[string]bool{}
			elemCopied := map[ssa.Value]map[int64]bool{}
			for _, b := range f.Blocks {
				for _, in := range b.Instrs {
					if stI, ok := in.(*ssa.Store); ok {
						if ia, isIA := stI.Addr.(*ssa.IndexAddr); isIA {
							if i, isK := constIntOf(ia.Index); isK {
								if _, isC := stI.Val.(*ssa.Const); !isC {
									if _, isStruct := stI.Val.Type().Underlying().(*types.Struct); isStruct {
										if elemCopied[ia.X] == nil {
											elemCopied[ia.X] = map[int64]bool{}
										}
										elemCopied[ia.X][i] = true
									}
								}
							}
						}
						if al, isAl := stI.Addr.(*ssa.Alloc); isAl {
							if _, isC := stI.Val.(*ssa.Const); !isC {
								if _, isStruct := stI.Val.Type().Underlying().(*types.Struct); isStruct {
									copied[al] = true
								}
							}
						}
						if fa, ok := stI.Addr.(*ssa.FieldAddr); ok {
							if ia, isIA := fa.X.(*ssa.IndexAddr); isIA {
								if i, isK := constIntOf(ia.Index); isK {
									if _, isSlice := stI.Val.Type().Underlying().(*types.Slice); isSlice {
										if elemInits[ia.X] == nil {
											elemInits[ia.X] = map[int64]map[string]bool{}
										}
										if elemInits[ia.X][i] == nil {
											elemInits[ia.X][i] = map[string]bool{}
										}
										elemInits[ia.X][i][fieldKey(fa.X.Type(), fa.Field)] = true
									}
								}
							}
						}
						if fa, ok := stI.Addr.(*ssa.FieldAddr); ok {
							if _, isSlice := stI.Val.Type().Underlying().(*types.Slice); isSlice {
								k := fieldKey(fa.X.Type(), fa.Field)
								stores[k] = append(stores[k], stI.Val)
								storeBlk[stI.Val] = stI.Block()
								if inits[fa.X] == nil {
									inits[fa.X] = map[string]bool{}
								}
								inits[fa.X][k] = true
							}
						}
					}
				}
			}
			for _, b := range f.Blocks {
				for _, in := range b.Instrs {
					switch x := in.(type) {
					case *ssa.Alloc:
						et := x.Type().Underlying().(*types.Pointer).Elem()
						if copied[x] {
							continue // initialised by a copy of an existing value of the type
						}
						if at, isArr := et.Underlying().(*types.Array); isArr {
							if _, isStruct := at.Elem().Underlying().(*types.Struct); isStruct {
								// [N]T literal: every element copied whole from an existing value, or its fields stored
								// through &alloc[i].f
								allCopied := true
								for i := int64(0); i < at.Len(); i++ {
									if !elemCopied[x][i] {
										allCopied = false
									}
								}
								if allCopied {
									continue
								}
								all := map[string]bool{}
								for i := int64(0); i < at.Len(); i++ {
									for k := range elemInits[x][i] {
										if i == 0 {
											all[k] = true
										}
									}
								}
								for k := range all {
									for i := int64(1); i < at.Len(); i++ {
										if !elemInits[x][i][k] {
											delete(all, k)
											break
										}
									}
								}
								zeroed(at.Elem(), all, true)
								continue
							}
						}
						zeroed(et, inits[x], true)
					case *ssa.MakeSlice:
						if st, isSl := x.Type().Underlying().(*types.Slice); isSl {
							zeroed(st.Elem(), nil, false)
						}
					}
				}
			}
		}
		_ = structOf
		for k, vs := range stores {
			if bad[k] {
				continue
			}
			lo := int64(1 << 30)
			m.busy["field:"+k] = true
			for _, v := range vs {
				b := m.valueBound(v, 1)
				if g := guardBound(v, storeBlk[v]); g > b {
					b = g
				}
				if b < lo {
					lo = b
				}
			}
			delete(m.busy, "field:"+k)
			m.fields[k] = lo
		}
	}
	return m.fields[key]
}

// lenLowerBound returns a lower bound on len(v) valid wherever v is defined (path-insensitive part).
func (m *minLen) valueBound(v ssa.Value, depth int) int64 {
	if depth > 30 {
		return 0
	}
	switch x := v.(type) {
	case *ssa.MakeSlice:
		if k, ok := constIntOf(x.Len); ok {
			return k
		}
		if call, ok := x.Len.(*ssa.Call); ok {
			if bi, ok := call.Call.Value.(*ssa.Builtin); ok && bi.Name() == "len" {
				return m.valueBound(call.Call.Args[0], depth+1)
			}
		}
		if provablyPositive(x.Len, intFactsAt(x.Block()), 0) {
			return 1
		}
	case *ssa.Slice:
		// slice of an array: new [N]T
		if pt, ok := x.X.Type().Underlying().(*types.Pointer); ok {
			if at, ok := pt.Elem().Underlying().(*types.Array); ok {
				lo, hi := int64(0), at.Len()
				if x.Low != nil {
					k, ok := constIntOf(x.Low)
					if !ok {
						return 0
					}
					lo = k
				}
				if x.High != nil {
					k, ok := constIntOf(x.High)
					if !ok {
						return 0
					}
					hi = k
				}
				return hi - lo
			}
		}
		if x.Low != nil && x.High != nil {
			lo, ok1 := constIntOf(x.Low)
			hi, ok2 := constIntOf(x.High)
			if ok1 && ok2 {
				return hi - lo
			}
		}
		if x.High == nil {
			base := m.valueBound(x.X, depth+1)
			lo := int64(0)
			if x.Low != nil {
				k, ok := constIntOf(x.Low)
				if !ok {
					return 0
				}
				lo = k
			}
			if base-lo > 0 {
				return base - lo
			}
		}
	case *ssa.Const:
		if m.nn && x.IsNil() {
			return 1 << 30
		}
		if x.Value != nil && x.Value.Kind() == constant.String {
			return int64(len(constant.StringVal(x.Value)))
		}
	case *ssa.Phi:
		if m.busy[x] {
			return 1 << 30
		}
		m.busy[x] = true
		defer delete(m.busy, x)
		lo := int64(1 << 30)
		for _, e := range x.Edges {
			if b := m.valueBound(e, depth+1); b < lo {
				lo = b
			}
		}
		return lo
	case *ssa.ChangeType:
		return m.valueBound(x.X, depth+1)
	case *ssa.Parameter:
		return m.paramBound(x, depth+1)
	case *ssa.UnOp:
		if g, ok := x.X.(*ssa.Global); ok && x.Op == token.MUL {
			// a package-level table (never written after initialisation: W-STORE, property C18)
			if v := m.c.globalVal(g); v != nil && v.K == VList {
				return int64(len(v.L))
			}
		}
		if ia, ok := x.X.(*ssa.IndexAddr); ok && x.Op == token.MUL {
			// a row of a package-level table of lists
			if ld, ok := ia.X.(*ssa.UnOp); ok && ld.Op == token.MUL {
				if g, ok := ld.X.(*ssa.Global); ok {
					if v := m.c.globalVal(g); v != nil && v.K == VList && len(v.L) > 0 {
						lo := int64(1 << 30)
						for _, row := range v.L {
							if row.K != VList {
								lo = 0
								break
							}
							if int64(len(row.L)) < lo {
								lo = int64(len(row.L))
							}
						}
						return lo
					}
				}
			}
		}
		if fa, ok := x.X.(*ssa.FieldAddr); ok && x.Op == token.MUL {
			if m.busy["field:"+fieldKey(fa.X.Type(), fa.Field)] {
				return 1 << 30
			}
			return m.fieldBound(fa.X.Type(), fa.Field)
		}
	case *ssa.Field:
		return m.fieldBound(x.X.Type(), x.Field)
	case *ssa.Call:
		if bi, ok := x.Call.Value.(*ssa.Builtin); ok && bi.Name() == "append" && len(x.Call.Args) == 2 {
			a := m.valueBound(x.Call.Args[0], depth+1)
			b := m.valueBound(x.Call.Args[1], depth+1)
			if a >= 1<<30 || b >= 1<<30 {
				return 1 << 30
			}
			return a + b
		}
		if x.Call.IsInvoke() || x.Call.StaticCallee() == nil {
			if rs := m.dynResult(x, depth+1); len(rs) == 1 {
				return rs[0]
			}
		}
		if g := x.Call.StaticCallee(); g != nil && g.Blocks != nil && isRepoPkgFn(g) {
			if rs := m.funcResult(g, depth+1); len(rs) == 1 {
				return rs[0]
			}
		}
	case *ssa.Extract:
		if call, ok := x.Tuple.(*ssa.Call); ok {
			if g := call.Call.StaticCallee(); g != nil && g.Blocks != nil && isRepoPkgFn(g) {
				if rs := m.funcResult(g, depth+1); x.Index < len(rs) {
					return rs[x.Index]
				}
			} else if g == nil {
				if rs := m.dynResult(call, depth+1); x.Index < len(rs) {
					return rs[x.Index]
				}
			}
		}
	}
	return 0
}

// boundAt: valueBound refined for a use in block at. A phi at a loop header whose branch condition is itself a phi of
// constants (for !found { ... } with found := false) does not carry, to the exit side, the values of the edges on which
// the condition forces the loop body: those edges are skipped when the use is dominated by the other successor.
func (m *minLen) boundAt(v ssa.Value, at *ssa.BasicBlock, depth int) int64 {
	phi, ok := v.(*ssa.Phi)
	if !ok || at == nil {
		return m.valueBound(v, depth)
	}
	blk := phi.Block()
	if len(blk.Instrs) == 0 {
		return m.valueBound(v, depth)
	}
	iff, ok := blk.Instrs[len(blk.Instrs)-1].(*ssa.If)
	if !ok {
		return m.valueBound(v, depth)
	}
	cond := iff.Cond
	neg := false
	if u, isU := cond.(*ssa.UnOp); isU && u.Op == token.NOT {
		cond, neg = u.X, true
	}
	cphi, ok := cond.(*ssa.Phi)
	if !ok || cphi.Block() != blk {
		return m.valueBound(v, depth)
	}
	// which successor holds the use?
	side := -1
	for i, succ := range blk.Succs {
		if len(succ.Preds) == 1 && (succ == at || succ.Dominates(at)) {
			side = i
		}
	}
	if side < 0 {
		return m.valueBound(v, depth)
	}
	lo := int64(1 << 30)
	for i, e := range phi.Edges {
		if cst, isC := cphi.Edges[i].(*ssa.Const); isC && cst.Value != nil && cst.Value.Kind() == constant.Bool {
			val := constant.BoolVal(cst.Value) != neg
			taken := 1
			if val {
				taken = 0
			}
			if taken != side {
				continue // on this edge control goes to the other successor
			}
		}
		if b := m.valueBound(e, depth+1); b < lo {
			lo = b
		}
	}
	if lo >= 1<<30 {
		return m.valueBound(v, depth)
	}
	return lo
}

// paramBound: minimum, over every call site in the call graph, of what is passed (by construction or under a dominating
// length test at the call site); 0 for entry points, for functions without call sites and beyond the depth limit.
func (m *minLen) paramBound(p *ssa.Parameter, depth int) int64 {
	f := p.Parent()
	if m.busy[p] {
		return 1 << 30 // a cycle of pass-through calls adds no new source
	}
	if m.isRoot[f] || depth > 30 {
		return 0
	}
	m.busy[p] = true
	defer delete(m.busy, p)
	idx := -1
	for i, q := range f.Params {
		if q == p {
			idx = i
		}
	}
	n := m.c.CG().Nodes[f]
	if idx < 0 || n == nil {
		return 0
	}
	lo := int64(1 << 30)
	sites := 0
	for _, e := range n.In {
		if e.Site == nil {
			return 0
		}
		cn := e.Caller
		if e.Caller.Func.Synthetic != "" && len(cn.In) == 0 {
			continue // a wrapper nobody calls
		}
		if m.reach != nil && !m.reach[e.Caller.Func] && !isInitFn(e.Caller.Func) {
			continue // not on any path from an entry point
		}
		args := e.Site.Common().Args
		ai := idx
		if e.Site.Common().IsInvoke() {
			ai = idx - 1
		}
		if ai < 0 || ai >= len(args) {
			return 0
		}
		b := m.valueBound(args[ai], depth+1)
		if g := guardBound(args[ai], e.Site.Block()); g > b {
			b = g
		}
		if os.Getenv("GZ_DEBUG_CI") == "2" {
			fmt.Printf("PARAM %s.%s <- %s : %T %d\n", f, p.Name(), e.Caller.Func, args[ai], b)
		}
		if b < lo {
			lo = b
		}
		sites++
	}
	if sites == 0 || lo >= 1<<30 {
		return 0
	}
	return lo
}

// dynResult: minimum over the call graph's callees of a dynamic call.
func (m *minLen) dynResult(call *ssa.Call, depth int) []int64 {
	n := m.c.CG().Nodes[call.Parent()]
	if n == nil {
		return nil
	}
	var out []int64
	found := false
	for _, e := range n.Out {
		if e.Site != ssa.CallInstruction(call) {
			continue
		}
		g := e.Callee.Func
		if g.Blocks == nil || !isRepoPkgFn(g) {
			return nil
		}
		rs := m.funcResult(g, depth)
		if rs == nil {
			return nil
		}
		if !found {
			out = append([]int64{}, rs...)
			found = true
			continue
		}
		for i := range out {
			if i < len(rs) && rs[i] < out[i] {
				out[i] = rs[i]
			}
		}
	}
	return out
}

// funcResult: per result, the minimum length over all returns (nil returns accompanying a non-nil error are skipped
// when the result list ends in an error: callers reach the slice only after testing the error - E-XOR/E-NIL decide that).
func (m *minLen) funcResult(g *ssa.Function, depth int) []int64 {
	if rs, ok := m.fnRes[g]; ok {
		return rs
	}
	if m.busy[g] {
		// a cycle (a wrapper delegating through an interface to its own set of implementations): the recursive
		// call returns whatever some non-recursive return produces, so it does not lower the minimum
		top := make([]int64, g.Signature.Results().Len())
		for i := range top {
			top[i] = 1 << 30
		}
		return top
	}
	m.busy[g] = true
	defer delete(m.busy, g)
	n := g.Signature.Results().Len()
	out := make([]int64, n)
	for i := range out {
		out[i] = 1 << 30
	}
	hasErr := n > 0 && isErrorType(g.Signature.Results().At(n-1).Type())
	for _, ret0 := range returnsOf(g) {
		// results spilled to allocs around rundefers: take the values stored in the returning block
		ret := &ssa.Return{Results: make([]ssa.Value, len(ret0.Results))}
		for i, v := range ret0.Results {
			ret.Results[i] = unspill(v, ret0)
		}
		retBlock := ret0.Block()
		if hasErr {
			if cst, ok := ret.Results[n-1].(*ssa.Const); !ok || !cst.IsNil() {
				// an error return: values are not used by a caller that tests the error
				allNil := true
				for i := 0; i < n-1; i++ {
					if cst, ok := ret.Results[i].(*ssa.Const); !ok || !cst.IsNil() {
						allNil = false
					}
				}
				if allNil {
					continue
				}
			}
		}
		for i, v := range ret.Results {
			if _, isSlice := v.Type().Underlying().(*types.Slice); !isSlice {
				out[i] = 0
				continue
			}
			if b := m.boundAt(v, retBlock, depth); b < out[i] {
				out[i] = b
			}
		}
	}
	if len(m.busy) > 1 {
		// computed inside a cycle: usable by the caller, not cached
		return out
	}
	for i := range out {
		if out[i] == 1<<30 {
			out[i] = 0
		}
	}
	m.fnRes[g] = out
	return out
}

// guardBound: the lower bound on len(s) implied at block b by dominating tests of len(s) against constants.
func guardBound(s ssa.Value, b *ssa.BasicBlock) int64 {
	f := b.Parent()
	best := int64(0)
	for _, blk := range f.Blocks {
		if len(blk.Instrs) == 0 {
			continue
		}
		iff, ok := blk.Instrs[len(blk.Instrs)-1].(*ssa.If)
		if !ok {
			continue
		}
		bo, ok := iff.Cond.(*ssa.BinOp)
		if !ok {
			continue
		}
		isLen := func(v ssa.Value) bool {
			call, ok := v.(*ssa.Call)
			if !ok {
				return false
			}
			bi, ok := call.Call.Value.(*ssa.Builtin)
			return ok && bi.Name() == "len" && len(call.Call.Args) == 1 && sameSlice(call.Call.Args[0], s)
		}
		op := bo.Op
		var k int64
		// len(s) + c: (value, c)
		lenPlus := func(v ssa.Value) (int64, bool) {
			if isLen(v) {
				return 0, true
			}
			if b2, ok := v.(*ssa.BinOp); ok && (b2.Op == token.ADD || b2.Op == token.SUB) && isLen(b2.X) {
				if cc, ok := constIntOf(b2.Y); ok {
					if b2.Op == token.SUB {
						cc = -cc
					}
					return cc, true
				}
			}
			return 0, false
		}
		if cOff, ok := lenPlus(bo.X); ok {
			kk, ok := constIntOf(bo.Y)
			if !ok {
				continue
			}
			k = kk - cOff
		} else if cOff, ok := lenPlus(bo.Y); ok {
			kk, ok := constIntOf(bo.X)
			if !ok {
				continue
			}
			k = kk - cOff
			switch op {
			case token.LSS:
				op = token.GTR
			case token.LEQ:
				op = token.GEQ
			case token.GTR:
				op = token.LSS
			case token.GEQ:
				op = token.LEQ
			}
		} else {
			continue
		}
		// lower bound of len on the true / false edge
		var onTrue, onFalse int64
		switch op {
		case token.LSS:
			onFalse = k
		case token.LEQ:
			onFalse = k + 1
		case token.GTR:
			onTrue = k + 1
		case token.GEQ:
			onTrue = k
		case token.EQL:
			onTrue = k
			if k == 0 {
				onFalse = 1
			}
		case token.NEQ:
			onFalse = k
			if k == 0 {
				onTrue = 1
			}
		}
		for i, succ := range blk.Succs {
			bound := onTrue
			if i == 1 {
				bound = onFalse
			}
			if bound <= best || len(succ.Preds) != 1 {
				continue
			}
			if succ == b || succ.Dominates(b) {
				best = bound
			}
		}
	}
	return best
}

func sameSlice(a, b ssa.Value) bool {
	if a == b {
		return true
	}
	// two loads of the same field of the same object, the second in a block that contains nothing but loads,
	// address computations and the access itself before it (if len(t.f) > 0 { return t.f[0] })
	la, ok1 := a.(*ssa.UnOp)
	lb, ok2 := b.(*ssa.UnOp)
	if !ok1 || !ok2 || la.Op != token.MUL || lb.Op != token.MUL {
		return false
	}
	fa, ok1 := la.X.(*ssa.FieldAddr)
	fb, ok2 := lb.X.(*ssa.FieldAddr)
	if !ok1 || !ok2 || fa.X != fb.X || fa.Field != fb.Field {
		return false
	}
	for _, in := range lb.Block().Instrs {
		if in == ssa.Instruction(lb) {
			break
		}
		switch in.(type) {
		case *ssa.UnOp, *ssa.FieldAddr, *ssa.IndexAddr, *ssa.BinOp, *ssa.Phi:
		default:
			return false
		}
	}
	// the guard must be the block's only way in
	return len(lb.Block().Preds) == 1 && lb.Block().Preds[0] == la.Block()
}

type constIdxSite struct {
	fn    *ssa.Function
	pos   token.Pos
	slice ssa.Value
	k     int64
	blk   *ssa.BasicBlock
	ord   int
}

func runECONSTIDX(c *Ctx, r *Report, reach map[*ssa.Function]bool, roots []*ssa.Function, scope string, min int) {
	isRoot := map[*ssa.Function]bool{}
	for _, f := range roots {
		isRoot[f] = true
	}
	r.Rule("E-CONSTIDX", "a slice or string indexed with a constant k has more than k elements on every path: its length is fixed by its construction (make / array / literal / a callee whose every return is so constructed), or a test of len() against a constant dominates the access, or it is a parameter of a function that is not part of the API and every call site passes such a value, or the site is in the frozen table with its reason; functions reachable from "+scope, min)
	m := &minLen{c: c, memo: map[ssa.Value]int64{}, fnRes: map[*ssa.Function][]int64{}, busy: map[interface{}]bool{}, isRoot: isRoot, reach: reach}
	mNN := &minLen{c: c, memo: map[ssa.Value]int64{}, fnRes: map[*ssa.Function][]int64{}, busy: map[interface{}]bool{}, isRoot: isRoot, reach: reach, nn: true}
	var fs []*ssa.Function
	for f := range reach {
		fs = append(fs, f)
	}
	sort.Slice(fs, func(i, j int) bool { return fs[i].String() < fs[j].String() })
	cg := c.CG()
	var proveAt func(s ssa.Value, k int64, blk *ssa.BasicBlock, depth int) (bool, string)
	proveAt = func(s ssa.Value, k int64, blk *ssa.BasicBlock, depth int) (bool, string) {
		if b := m.boundAt(s, blk, 0); b > k {
			return true, fmt.Sprintf("constructed with %d elements", b)
		}
		if b := guardBound(s, blk); b > k {
			return true, fmt.Sprintf("dominating test gives len >= %d", b)
		}
		if b := mNN.boundAt(s, blk, 0); b > k && b < 1<<30 && nonNilAt(s, blk) {
			return true, fmt.Sprintf("a dominating nil test leaves only values constructed with %d elements", b)
		}
		if p, ok := s.(*ssa.Parameter); ok && depth < 4 {
			f := p.Parent()
			if isRoot[f] {
				return false, "parameter of an entry point: any slice can be passed"
			}
			idx := -1
			for i, q := range f.Params {
				if q == p {
					idx = i
				}
			}
			n := cg.Nodes[f]
			if idx < 0 || n == nil || len(n.In) == 0 {
				return false, "no call sites found"
			}
			for _, e := range n.In {
				if e.Site == nil {
					return false, "synthetic call edge"
				}
				if e.Caller.Func.Synthetic != "" && len(e.Caller.In) == 0 {
					continue // a wrapper nobody calls
				}
				if !reach[e.Caller.Func] && !isInitFn(e.Caller.Func) {
					continue // not on any path from an entry point
				}
				args := e.Site.Common().Args
				if e.Site.Common().IsInvoke() {
					// receiver is not in Args for invoke calls
					if idx == 0 {
						return false, "receiver"
					}
					if idx-1 >= len(args) {
						return false, "argument mismatch"
					}
					if ok, why := proveAt(args[idx-1], k, e.Site.Block(), depth+1); !ok {
						return false, fmt.Sprintf("call from %s at %s: %s", shortFn(e.Caller.Func), c.pos(e.Site.Pos()), why)
					}
					continue
				}
				if idx >= len(args) {
					return false, "argument mismatch"
				}
				if ok, why := proveAt(args[idx], k, e.Site.Block(), depth+1); !ok {
					return false, fmt.Sprintf("call from %s at %s: %s", shortFn(e.Caller.Func), c.pos(e.Site.Pos()), why)
				}
			}
			return true, fmt.Sprintf("every one of %d call sites passes enough elements", len(n.In))
		}
		return false, "length not established"
	}
	total := 0
	for _, f := range fs {
		ord := map[string]int{}
		for _, b := range f.Blocks {
			for _, in := range b.Instrs {
				var s, idx ssa.Value
				var pos token.Pos
				switch x := in.(type) {
				case *ssa.IndexAddr:
					if _, isSlice := x.X.Type().Underlying().(*types.Slice); !isSlice {
						continue
					}
					s, idx, pos = x.X, x.Index, x.Pos()
				case *ssa.Lookup:
					if bt, isB := x.X.Type().Underlying().(*types.Basic); !isB || bt.Info()&types.IsString == 0 {
						continue
					}
					s, idx, pos = x.X, x.Index, x.Pos()
				default:
					continue
				}
				k, isC := constIntOf(idx)
				fromEnd := false
				if !isC {
					// s[len(s) - j]: needs j elements, like the constant index j - 1
					if bo, ok := idx.(*ssa.BinOp); ok && bo.Op == token.SUB {
						if j, okJ := constIntOf(bo.Y); okJ && j >= 1 {
							if lc, okL := bo.X.(*ssa.Call); okL {
								if bi, okB := lc.Call.Value.(*ssa.Builtin); okB && bi.Name() == "len" && len(lc.Call.Args) == 1 && sameSliceLoose(lc.Call.Args[0], s) {
									k, isC, fromEnd = j-1, true, true
								}
							}
						}
					}
				}
				if !isC {
					continue
				}
				total++
				name := fmt.Sprintf("%s:[%d]", shortFn(f), k)
				if fromEnd {
					name = fmt.Sprintf("%s:[len-%d]", shortFn(f), k+1)
				}
				key := fmt.Sprintf("%s#%d", name, ord[name])
				ord[name]++
				if ok, why := proveAt(s, k, b, 0); ok {
					r.Pass("E-CONSTIDX", key, c.pos(pos), why)
					continue
				} else if fr, isFr := frozenConstIdx[key]; isFr {
					r.Pass("E-CONSTIDX", key, c.pos(pos), "frozen: "+fr)
					continue
				} else {
					if os.Getenv("GZ_DEBUG_CI") != "" {
						fmt.Println("TRACE", key, m.trace(s, 0))
					}
					r.Fail("E-CONSTIDX", key, c.pos(pos), "violation", fmt.Sprintf("index %d: %s", k, why))
				}
			}
		}
	}
	r.Extra("E-CONSTIDX sites", total)
	if os.Getenv("GZ_DEBUG_CI") != "" {
		m.debugFields()
	}
}

var curFn string

var frozenConstIdx = map[string]string{
	"(*datamatrix/encoder.C40Encoder).encode:[len-1]#0":     "charSizes holds one entry per character in buffer and both shrink together in a backtrack, each character having written at least one value (E-CHARENC: one to four); the read sits in the body of the loop whose condition starts with len(buffer)%3 == 1, so buffer, and with it charSizes, is not empty (introduced by the repair fb9591b; 400 000 fuzzed texts)",
	"(*datamatrix/encoder.C40Encoder).encode:[len-1]#1":     "as #0: the second operand of the loop condition, evaluated only after len(buffer)%3 == 1 held",
	"(*gozxing.BitArray).Reverse:[0]#0":                     "newBits has len(b.bits) elements and the statement sits under b.size != oldBitsLen*32, which needs size >= 1, for which every constructor (makeArray((size+31)/32), ensureCapacity) allocates at least one word",
	"(*gozxing.GlobalHistogramBinarizer).GetBlackRow:[0]#0": "the row comes from the caller's LuminanceSource, whose contract is to return width bytes; this branch is only reached with width >= 3 (narrower rows are handled above)",
	"(*gozxing.GlobalHistogramBinarizer).GetBlackRow:[1]#0": "as [0]: LuminanceSource.GetRow contract, width >= 3 on this branch",
	"(*common/reedsolomon.GenericGFPoly).EvaluateAt:[0]#0":  "NewGenericGFPoly rejects an empty list and stores either the list itself, []int{0}, or the tail from the first non-zero coefficient, which its loop keeps inside the list",
	"(*common/reedsolomon.GenericGFPoly).IsZero:[0]#0":      "as EvaluateAt: the constructor never stores an empty coefficient list",
	"(*oned.codabarReader).DecodeRow:[0]#0":                 "the do-while loop above appends to decodeRowResult before its first exit test, and the length test on the data characters follows",
	"datamatrix/decoder.DataBlocks_getDataBlocks:[0]#0":     "result has one element per block of the version's ECBlocks, at least one in every row of the versions table (decided by T-DMVER under C08)",
	"datamatrix/decoder.DataBlocks_getDataBlocks:[0]#1":     "as #0",
	"qrcode/decoder.DataBlock_GetDataBlocks:[0]#0":          "result has one element per block of the version's ECBlocks, at least one in every row of VERSIONS (decided by T-QRVER under C07)",
	"(*oned.codabarReader).DecodeRow:[len-1]#0":             "as [0]#0: the do-while loop appends before its first exit test",
	"qrcode/decoder.DataBlock_GetDataBlocks:[0]#1":          "as #0",
	// encode paths (C12)
	"datamatrix/encoder.c40EncodeToCodewords:[0]#0": "X12Encoder.encode calls c40WriteNextTriplet only under len(buffer) % 3 == 0 right after x12EncodeChar appended a value, so the buffer holds at least 3; the other callers test len(buffer) >= 3",
	"datamatrix/encoder.c40EncodeToCodewords:[1]#0": "as [0]",
	"datamatrix/encoder.c40EncodeToCodewords:[2]#0": "as [0]",
	"datamatrix/encoder.createECCBlock:[0]#1":       "ecc has numECWords elements and the table search above returns an error unless numECWords is one of factorSets (5..68)",
	"datamatrix/encoder.createECCBlock:[0]#2":       "as #1",
}

func (m *minLen) debugFields() {
	var ks []string
	for k, v := range m.fields {
		ks = append(ks, fmt.Sprintf("%s=%d", k, v))
	}
	sort.Strings(ks)
	for _, k := range ks {
		fmt.Println("FIELD", k)
	}
}

// nonNilAt: a comparison of s with nil dominates blk on its non-nil side.
func nonNilAt(s ssa.Value, blk *ssa.BasicBlock) bool {
	for _, b := range blk.Parent().Blocks {
		if len(b.Instrs) == 0 {
			continue
		}
		iff, ok := b.Instrs[len(b.Instrs)-1].(*ssa.If)
		if !ok {
			continue
		}
		bo, ok := iff.Cond.(*ssa.BinOp)
		if !ok || (bo.Op != token.EQL && bo.Op != token.NEQ) {
			continue
		}
		isNil := func(v ssa.Value) bool { c, ok := v.(*ssa.Const); return ok && c.IsNil() }
		if !(bo.X == s && isNil(bo.Y)) && !(bo.Y == s && isNil(bo.X)) {
			continue
		}
		side := 1 // == nil: the false edge is the non-nil side
		if bo.Op == token.NEQ {
			side = 0
		}
		succ := b.Succs[side]
		if len(succ.Preds) == 1 && (succ == blk || succ.Dominates(blk)) {
			return true
		}
	}
	return false
}

// globalVal: the evaluated initialiser of a package-level variable, nil when it is not a literal.
func (c *Ctx) globalVal(g *ssa.Global) *Val {
	if g.Pkg == nil || g.Pkg.Pkg == nil {
		return nil
	}
	path := g.Pkg.Pkg.Path()
	if !strings.HasPrefix(path, modPath) {
		return nil
	}
	rel := strings.TrimPrefix(strings.TrimPrefix(path, modPath), "/")
	init, p := c.varInit(rel, g.Name())
	if init == nil {
		return nil
	}
	v := c.eval(p, init)
	if v.K == VUnknown {
		return nil
	}
	return v
}

func isInitFn(f *ssa.Function) bool {
	return f.Name() == "init" || strings.HasPrefix(f.Name(), "init#")
}

// unspill: a result loaded from a local alloc just before the return (the form functions with defers take) stands for
// the value last stored to that alloc in the same block.
func unspill(v ssa.Value, ret *ssa.Return) ssa.Value {
	ld, ok := v.(*ssa.UnOp)
	if !ok || ld.Op != token.MUL {
		return v
	}
	al, ok := ld.X.(*ssa.Alloc)
	if !ok {
		return v
	}
	var last ssa.Value
	for _, in := range ret.Block().Instrs {
		if in == ssa.Instruction(ld) {
			break
		}
		if st, ok := in.(*ssa.Store); ok && st.Addr == ssa.Value(al) {
			last = st.Val
		}
	}
	if last != nil {
		return last
	}
	return v
}

func (m *minLen) trace(v ssa.Value, depth int) string {
	if depth > 5 {
		return "..."
	}
	out := fmt.Sprintf("%T(%s)=%d", v, v.Name(), m.valueBound(v, 0))
	switch x := v.(type) {
	case *ssa.Extract:
		if call, ok := x.Tuple.(*ssa.Call); ok {
			if g := call.Call.StaticCallee(); g != nil {
				out += fmt.Sprintf(" <- %s results %v", g, m.funcResult(g, 0))
				for _, ret := range returnsOf(g) {
					out += " | ret " + m.trace(unspill(ret.Results[x.Index], ret), depth+1)
				}
			} else {
				out += fmt.Sprintf(" <- dyn %v", m.dynResult(call, 0))
				n := m.c.CG().Nodes[call.Parent()]
				for _, e := range n.Out {
					if e.Site == ssa.CallInstruction(call) {
						out += fmt.Sprintf(" [%s %v]", e.Callee.Func, m.funcResult(e.Callee.Func, 0))
					}
				}
			}
		}
	case *ssa.Phi:
		for _, e := range x.Edges {
			out += " {" + m.trace(e, depth+1) + "}"
		}
	case *ssa.UnOp:
		out += " <- " + fmt.Sprintf("%T", x.X)
	}
	return out
}

// sameSliceLoose: the same SSA value, or two loads of the same field of the same object / the same local variable
// (len(t.f) and t.f[...] in one expression).
func sameSliceLoose(a, b ssa.Value) bool {
	if a == b {
		return true
	}
	la, ok1 := a.(*ssa.UnOp)
	lb, ok2 := b.(*ssa.UnOp)
	if !ok1 || !ok2 || la.Op != token.MUL || lb.Op != token.MUL {
		return false
	}
	if la.X == lb.X {
		return true
	}
	fa, ok1 := la.X.(*ssa.FieldAddr)
	fb, ok2 := lb.X.(*ssa.FieldAddr)
	return ok1 && ok2 && fa.X == fb.X && fa.Field == fb.Field
}

// E-NEXTIDX: s[v + k] (k >= 1 a constant, v a run-time value) needs v + k < len(s): a dominating comparison of v (+ k')
// with len(s) (- k”) must imply it, or the site is frozen with its reason.
func runENEXTIDX(c *Ctx, r *Report, reach map[*ssa.Function]bool, scope string, min int) {
	r.MovedRows("E-NEXTIDX", frozenNextIdx)
	r.Rule("E-NEXTIDX", "a slice or string read at v + k, k >= 1 a constant and v a run-time position (the look-ahead idiom next := s[i+1]), is dominated by a comparison that implies v + k < len(s) - v + k' < len(s) with k' >= k, v < len(s) - k', or the complement of v >= len(s) - k' on the exit side - or is listed in the frozen table with its reason; functions reachable from "+scope, min)
	var fs []*ssa.Function
	for f := range reach {
		fs = append(fs, f)
	}
	sort.Slice(fs, func(i, j int) bool { return fs[i].String() < fs[j].String() })
	isLenOf := func(v, s ssa.Value) bool {
		call, ok := v.(*ssa.Call)
		if !ok {
			return false
		}
		bi, ok := call.Call.Value.(*ssa.Builtin)
		return ok && bi.Name() == "len" && len(call.Call.Args) == 1 && sameSliceLoose(call.Call.Args[0], s)
	}
	// split v into (base, const): v = base + c
	split := func(v ssa.Value) (ssa.Value, int64) {
		if bo, ok := v.(*ssa.BinOp); ok {
			if k, isC := constIntOf(bo.Y); isC {
				switch bo.Op {
				case token.ADD:
					return bo.X, k
				case token.SUB:
					return bo.X, -k
				}
			}
		}
		return v, 0
	}
	total := 0
	ia := c.newIdxAnalysis()
	ml := &minLen{c: c, memo: map[ssa.Value]int64{}, fnRes: map[*ssa.Function][]int64{}, busy: map[interface{}]bool{}, isRoot: map[*ssa.Function]bool{}, reach: reach}
	for _, f := range fs {
		ord := map[string]int{}
		for _, b := range f.Blocks {
			for _, in := range b.Instrs {
				var s, idx ssa.Value
				var pos token.Pos
				switch x := in.(type) {
				case *ssa.IndexAddr:
					if _, isSlice := x.X.Type().Underlying().(*types.Slice); !isSlice {
						continue
					}
					s, idx, pos = x.X, x.Index, x.Pos()
				case *ssa.Lookup:
					if bt, isB := x.X.Type().Underlying().(*types.Basic); !isB || bt.Info()&types.IsString == 0 {
						continue
					}
					s, idx, pos = x.X, x.Index, x.Pos()
				default:
					continue
				}
				base, k := split(idx)
				if k < 1 {
					continue
				}
				// `for i := range s` is lowered to i = phi(-1, i+1) with the increment ahead of the body: that i + 1
				// is the loop index itself, not a look-ahead
				if ph, isPhi := base.(*ssa.Phi); isPhi && ph.Comment == "rangeindex" && k == 1 {
					continue
				}
				// a bounded position into storage of known minimum length (loop counter below a constant, fixed-size buffer)
				if rg := ia.rangeOf(idx, b, 0, map[ssa.Value]bool{}); rg.okHi && rg.okLo && rg.lo >= 0 {
					if n := ml.boundAt(s, b, 0); n > rg.hi && n < 1<<30 {
						continue
					}
				}
				if _, isC := constIntOf(base); isC {
					continue
				}
				if isLenOf(base, s) {
					continue // len(s) + k: not this idiom
				}
				total++
				name := fmt.Sprintf("%s:[+%d]", shortFn(f), k)
				key := fmt.Sprintf("%s#%d", name, ord[name])
				ord[name]++
				proven := false
				for _, blk := range f.Blocks {
					if proven || len(blk.Instrs) == 0 {
						break
					}
					iff, ok := blk.Instrs[len(blk.Instrs)-1].(*ssa.If)
					if !ok {
						continue
					}
					bo, ok := iff.Cond.(*ssa.BinOp)
					if !ok {
						continue
					}
					// normalise to  L + a  op  len(s) + bb   (a, bb constants)
					lb, la := split(bo.X)
					rb, ra := split(bo.Y)
					op := bo.Op
					if isLenOf(lb, s) && !isLenOf(rb, s) {
						lb, la, rb, ra = rb, ra, lb, la
						switch op {
						case token.LSS:
							op = token.GTR
						case token.LEQ:
							op = token.GEQ
						case token.GTR:
							op = token.LSS
						case token.GEQ:
							op = token.LEQ
						}
					}
					if lb != base || !isLenOf(rb, s) {
						continue
					}
					// base + la op len + ra  <=>  base op' len + (ra - la)
					d := ra - la
					// we need base + k < len, i.e. base < len - k, i.e. base <= len - k - 1
					side := -1
					switch op {
					case token.LSS: // base < len + d  holds on true edge: need d <= -k
						if d <= -k {
							side = 0
						}
					case token.LEQ: // base <= len + d: need d <= -k-1
						if d <= -k-1 {
							side = 0
						}
					case token.GEQ: // base >= len + d false edge gives base < len + d
						if d <= -k {
							side = 1
						}
					case token.GTR: // false edge: base <= len + d
						if d <= -k-1 {
							side = 1
						}
					}
					if side < 0 {
						continue
					}
					succ := blk.Succs[side]
					if len(succ.Preds) == 1 && (succ == b || succ.Dominates(b)) {
						proven = true
					}
				}
				if proven {
					r.Pass("E-NEXTIDX", key, c.pos(pos), "dominating comparison with the length")
				} else if fr, ok := frozenNextIdx[key]; ok {
					r.Pass("E-NEXTIDX", key, c.pos(pos), "frozen: "+fr)
				} else {
					r.Fail("E-NEXTIDX", key, c.pos(pos), "violation", fmt.Sprintf("read at position + %d without a dominating comparison that keeps it below the length", k))
				}
			}
		}
	}
	r.Extra("E-NEXTIDX sites", total)
}

var frozenNextIdx = map[string]string{
	"(*gozxing.BitArray).GetNextSet:[+1]#0":                           "the word index is incremented and compared with len(b.bits) (equal: return) before the read; it starts below len(b.bits) because from < size is tested on entry and the storage holds (size+31)/32 words (the function is folded whole by S-WHOLE2 under C16)",
	"(*gozxing.BitArray).GetNextUnset:[+1]#0":                         "as GetNextSet",
	"(*gozxing.GlobalHistogramBinarizer).GetBlackRow:[+1]#0":          "x < width-1 in the loop header and the row holds width luminances (LuminanceSource contract, as for the frozen E-CONSTIDX rows of this function)",
	"(*gozxing.HybridBinarizer).calculateThresholdForBlock:[+1]#0":    "left = cap(x, 2, subWidth-3) lies in [2, subWidth-3] and every blackPoints row has subWidth entries (window and 40-pixel guard decided by S-PIXMAP / M-HYBGUARD under C17)",
	"(*gozxing.HybridBinarizer).calculateThresholdForBlock:[+2]#0":    "as [+1]",
	"(*qrcode/detector.AlignmentPatternFinder).Find:[+1]#0":           "three-counter state machine: currentState is incremented only from state 0 (state 1 counts in place, state 2 resets), stateCount has 3 elements",
	"(*qrcode/detector.AlignmentPatternFinder).Find:[+1]#1":           "three-counter state machine: the white-pixel branch increments only from state 1",
	"(*qrcode/detector.FinderPatternFinder).Find:[+1]#0":              "five-counter state machine: the black-pixel branch increments only from the odd states 1 and 3, stateCount has 5 elements",
	"(*qrcode/detector.FinderPatternFinder).Find:[+1]#1":              "five-counter state machine: the white-pixel branch increments only from the even states 0 and 2 (state 4 is handled separately)",
	"(common.DefaultGridSampler).SampleGridWithTransform:[+1]#0":      "points has 2*dimensionX elements and x runs over the even positions below len(points)",
	"(common.DefaultGridSampler).SampleGridWithTransform:[+1]#1":      "as #0",
	"common.GridSampler_checkAndNudgePoints:[+1]#3":                   "offset runs over the even positions from len(points)-2 down to 0 of a list of coordinate pairs (its only caller on decode paths, DefaultGridSampler, passes 2*n values)",
	"common.GridSampler_checkAndNudgePoints:[+1]#4":                   "as #3",
	"common.GridSampler_checkAndNudgePoints:[+1]#5":                   "as #3",
	"oned.RecordPattern:[+1]#0":                                       "counterPosition is incremented and compared with numCounters = len(counters) (equal: break) before the store (the function is folded whole by S-RUNS under C20)",
	"qrcode/decoder.DecodedBitStreamParser_decodeHanziSegment:[+1]#0": "buffer is made with 2*count bytes; offset advances by 2 per character while count counts down to 0",
	"qrcode/decoder.DecodedBitStreamParser_decodeKanjiSegment:[+1]#0": "as the Hanzi segment",
}
