package main

import (
	"fmt"
	"go/ast"
	"go/token"
	"go/types"
	"sort"
	"strings"

	"golang.org/x/tools/go/packages"
	"golang.org/x/tools/go/ssa"
	"golang.org/x/tools/go/types/typeutil"
)

// E-DROP: an error-typed result must not be discarded unless the discard is discharged:
//   (b1) BitArray.AppendBits(v, c) with constant 0 <= c <= 32 (its only failure is a width outside that range)
//   (b2) NewGenericGFPoly(field, non-empty literal) (its only failure is an empty coefficient list)
//   (b3) the callee, folded on the site's constant arguments (or on the full finite domain of `x % C` / `x & C`
//        arguments), returns a nil error on every element
//   (c)  a frozen row (caller, callee, ordinal) with its one-line reason, confirmed by reading
// Anything else is reported.

var errorIface = types.Universe.Lookup("error").Type().Underlying().(*types.Interface)

func isErrorType(t types.Type) bool {
	if t == nil {
		return false
	}
	if _, ok := t.Underlying().(*types.Interface); !ok {
		return false
	}
	return types.Implements(t, errorIface)
}

type dropSite struct {
	Key    string
	Caller string
	Callee types.Object
	Call   *ast.CallExpr
	Pkg    *packages.Package
	Fd     *ast.FuncDecl
	Pos    token.Pos
}

// findDrops lists every discarded error-typed result in the given packages.
func findDrops(c *Ctx, pkgs []*packages.Package) []dropSite {
	var out []dropSite
	for _, p := range pkgs {
		if strings.HasSuffix(p.PkgPath, "/testutil") {
			continue
		}
		for _, f := range p.Syntax {
			for _, d := range f.Decls {
				if gd, isG := d.(*ast.GenDecl); isG && gd.Tok == token.VAR {
					ordsG := map[string]int{}
					for _, sp := range gd.Specs {
						vs := sp.(*ast.ValueSpec)
						if len(vs.Values) != 1 || len(vs.Names) < 2 {
							continue
						}
						call, isC := vs.Values[0].(*ast.CallExpr)
						if !isC {
							continue
						}
						tup, isT := p.TypesInfo.TypeOf(call).(*types.Tuple)
						if !isT {
							continue
						}
						for i := 0; i < tup.Len() && i < len(vs.Names); i++ {
							if isErrorType(tup.At(i).Type()) && vs.Names[i].Name == "_" {
								callee := typeutil.Callee(p.TypesInfo, call)
								name := shortObj(callee)
								rel := strings.TrimPrefix(strings.TrimPrefix(p.PkgPath, modPath), "/")
								if rel == "" {
									rel = "gozxing"
								}
								k := fmt.Sprintf("%s.<package var %s>:%s#0", rel, vs.Names[0].Name, name)
								ordsG[name]++
								out = append(out, dropSite{Key: k, Caller: rel + ".<package var>", Callee: callee, Call: call, Pkg: p, Pos: call.Pos()})
							}
						}
					}
				}
				fd, ok := d.(*ast.FuncDecl)
				if !ok || fd.Body == nil {
					continue
				}
				ords := map[string]int{}
				add := func(call *ast.CallExpr) {
					callee := typeutil.Callee(p.TypesInfo, call)
					name := "<dynamic>"
					if callee != nil {
						name = shortObj(callee)
					} else if sel, ok := call.Fun.(*ast.SelectorExpr); ok {
						name = "<dynamic>." + sel.Sel.Name
					}
					k := fmt.Sprintf("%s:%s#%d", fdKey(p, fd), name, ords[name])
					ords[name]++
					out = append(out, dropSite{Key: k, Caller: fdKey(p, fd), Callee: callee, Call: call, Pkg: p, Fd: fd, Pos: call.Pos()})
				}
				errIdx := func(call *ast.CallExpr) []int {
					tv, ok := p.TypesInfo.Types[call]
					if !ok {
						return nil
					}
					var idx []int
					switch t := tv.Type.(type) {
					case *types.Tuple:
						for i := 0; i < t.Len(); i++ {
							if isErrorType(t.At(i).Type()) {
								idx = append(idx, i)
							}
						}
					default:
						if isErrorType(tv.Type) {
							idx = append(idx, 0)
						}
					}
					return idx
				}
				ast.Inspect(fd.Body, func(n ast.Node) bool {
					switch x := n.(type) {
					case *ast.FuncLit:
						return true
					case *ast.ExprStmt:
						if call, ok := x.X.(*ast.CallExpr); ok && len(errIdx(call)) > 0 {
							add(call)
						}
					case *ast.AssignStmt:
						if len(x.Rhs) == 1 {
							if call, ok := x.Rhs[0].(*ast.CallExpr); ok {
								for _, i := range errIdx(call) {
									if i < len(x.Lhs) {
										if id, ok := x.Lhs[i].(*ast.Ident); ok && id.Name == "_" {
											add(call)
										}
									}
								}
							}
						} else {
							for i, rhs := range x.Rhs {
								if call, ok := rhs.(*ast.CallExpr); ok && len(errIdx(call)) > 0 && i < len(x.Lhs) {
									if id, ok := x.Lhs[i].(*ast.Ident); ok && id.Name == "_" {
										add(call)
									}
								}
							}
						}
					case *ast.DeferStmt:
						if len(errIdx(x.Call)) > 0 {
							add(x.Call)
						}
					case *ast.GoStmt:
						if len(errIdx(x.Call)) > 0 {
							add(x.Call)
						}
					}
					return true
				})
			}
		}
	}
	sort.Slice(out, func(i, j int) bool { return out[i].Key < out[j].Key })
	return out
}

// dischargeDrop returns the class that discharges the site, or "".
func dischargeDrop(c *Ctx, s dropSite) string {
	p := s.Pkg
	call := s.Call
	if isMethodNamed(s.Callee, "", "BitArray", "AppendBits") && len(call.Args) == 2 {
		if w, ok := constInt(p, call.Args[1]); ok && w >= 0 && w <= 32 {
			return "b1: constant width " + fmt.Sprint(w)
		}
	}
	if isFuncNamed(s.Callee, "common/reedsolomon", "NewGenericGFPoly") && len(call.Args) == 2 {
		if cl, ok := call.Args[1].(*ast.CompositeLit); ok && len(cl.Elts) > 0 {
			return "b2: non-empty literal coefficient list"
		}
	}
	// b3: fold
	fn, ok := s.Callee.(*types.Func)
	if !ok {
		return ""
	}
	fd := c.funcDecl[fn]
	if fd == nil || fd.Recv != nil || s.Fd == nil {
		return ""
	}
	// argument domains
	var domains [][]int64
	for _, a := range call.Args {
		if v, ok := constInt(p, a); ok {
			domains = append(domains, []int64{v})
			continue
		}
		if be, ok := ast.Unparen(a).(*ast.BinaryExpr); ok {
			if k, isC := constInt(p, be.Y); isC && k > 0 && k <= 64 && (be.Op == token.REM || be.Op == token.AND) {
				// x % k for x >= 0 and x & k: values in 0..k-1 / 0..k. A negative dividend would leave the domain:
				// only unsigned or provably non-negative operands are accepted (unsigned type or shifted/masked value).
				if isUnsignedOrMasked(p, be.X) || be.Op == token.AND || assignedOnlyFromReadBits(p, s.Fd, be.X) {
					n := k
					if be.Op == token.AND {
						n = k + 1
					}
					var d []int64
					for i := int64(0); i < n; i++ {
						d = append(d, i)
					}
					domains = append(domains, d)
					continue
				}
			}
		}
		return ""
	}
	total := 1
	for _, d := range domains {
		total *= len(d)
	}
	if total == 0 || total > 4096 {
		return ""
	}
	idx := make([]int, len(domains))
	for n := 0; n < total; n++ {
		args := make([]*Val, len(domains))
		for i, d := range domains {
			args[i] = vint(d[idx[i]])
		}
		res, err := c.rpfCall(fd, c.declPkg[fd], args, &rpf{callHook: func(rr *rpf, cl *ast.CallExpr, callee types.Object) (*Val, bool) {
			// error constructors yield a non-nil marker
			if f, ok := callee.(*types.Func); ok && (strings.Contains(f.Name(), "Exception") || f.Name() == "New" || f.Name() == "Errorf") {
				return vstr("error"), true
			}
			return nil, false
		}})
		if err != nil || len(res) == 0 || res[len(res)-1].K != VNil {
			return ""
		}
		for i := range idx {
			idx[i]++
			if idx[i] < len(domains[i]) {
				break
			}
			idx[i] = 0
		}
	}
	return fmt.Sprintf("b3: callee folds to a nil error on all %d argument combinations of this site", total)
}

func isUnsignedOrMasked(p *packages.Package, e ast.Expr) bool {
	t := p.TypesInfo.TypeOf(e)
	if b, ok := t.Underlying().(*types.Basic); ok && b.Info()&types.IsUnsigned != 0 {
		return true
	}
	switch x := ast.Unparen(e).(type) {
	case *ast.BinaryExpr:
		if x.Op == token.AND || x.Op == token.SHR {
			return true
		}
	}
	return false
}

// assignedOnlyFromReadBits: the identifier's only definition in fd is `x, e := <BitSource>.ReadBits(k)`; ReadBits
// assembles its result from masked bytes, so the value is non-negative.
func assignedOnlyFromReadBits(p *packages.Package, fd *ast.FuncDecl, e ast.Expr) bool {
	obj := identObj(p, e)
	if obj == nil {
		return false
	}
	defs, good := 0, 0
	ast.Inspect(fd.Body, func(n ast.Node) bool {
		switch x := n.(type) {
		case *ast.AssignStmt:
			for i, l := range x.Lhs {
				if identObj(p, l) != obj {
					continue
				}
				defs++
				if len(x.Rhs) == 1 && i == 0 {
					if call, ok := x.Rhs[0].(*ast.CallExpr); ok && isMethodNamed(typeutil.Callee(p.TypesInfo, call), "common", "BitSource", "ReadBits") {
						good++
					}
				}
			}
		case *ast.IncDecStmt:
			if identObj(p, x.X) == obj {
				defs++
			}
		}
		return true
	})
	return defs > 0 && defs == good
}

// frozenDrops: (caller:callee#ordinal) -> reason. Confirmed by reading the pinned tree; one line each.
var frozenDrops = func() map[string]string {
	m := map[string]string{}
	fz := func(reason string, keys ...string) {
		for _, k := range keys {
			m[k] = reason
		}
	}
	rb := "ReadBits fails closed (returns 0 and an error, never panics); the enclosing loop/guard re-tests Available() before the value matters, and a short read ends the segment"
	fz(rb,
		"datamatrix/decoder.decodeAnsiX12Segment:(*common.BitSource).ReadBits#0", "datamatrix/decoder.decodeAnsiX12Segment:(*common.BitSource).ReadBits#1",
		"datamatrix/decoder.decodeAsciiSegment:(*common.BitSource).ReadBits#0",
		"datamatrix/decoder.decodeBase256Segment:(*common.BitSource).ReadBits#0", "datamatrix/decoder.decodeBase256Segment:(*common.BitSource).ReadBits#1", "datamatrix/decoder.decodeBase256Segment:(*common.BitSource).ReadBits#2",
		"datamatrix/decoder.decodeC40Segment:(*common.BitSource).ReadBits#0", "datamatrix/decoder.decodeC40Segment:(*common.BitSource).ReadBits#1",
		"datamatrix/decoder.decodeEdifactSegment:(*common.BitSource).ReadBits#0", "datamatrix/decoder.decodeEdifactSegment:(*common.BitSource).ReadBits#1",
		"datamatrix/decoder.decodeTextSegment:(*common.BitSource).ReadBits#0", "datamatrix/decoder.decodeTextSegment:(*common.BitSource).ReadBits#1")
	fz("guarded: `count*13 > Available()` / `8*count > Available()` / `Available() < 4` exits before the counted reads (rule M-READGUARD checks these guards)",
		"qrcode/decoder.DecodedBitStreamParser_Decode:(*common.BitSource).ReadBits#0",
		"qrcode/decoder.DecodedBitStreamParser_decodeByteSegment:(*common.BitSource).ReadBits#0",
		"qrcode/decoder.DecodedBitStreamParser_decodeHanziSegment:(*common.BitSource).ReadBits#0",
		"qrcode/decoder.DecodedBitStreamParser_decodeKanjiSegment:(*common.BitSource).ReadBits#0")
	fz("the rectangles lie inside the dimension x dimension matrix for every version 1..40 (their values are checked by T-FUNCPAT under C07); SetRegion only fails outside the matrix",
		"qrcode/decoder.Version.buildFunctionPattern:(*gozxing.BitMatrix).SetRegion#0", "qrcode/decoder.Version.buildFunctionPattern:(*gozxing.BitMatrix).SetRegion#1",
		"qrcode/decoder.Version.buildFunctionPattern:(*gozxing.BitMatrix).SetRegion#2", "qrcode/decoder.Version.buildFunctionPattern:(*gozxing.BitMatrix).SetRegion#3",
		"qrcode/decoder.Version.buildFunctionPattern:(*gozxing.BitMatrix).SetRegion#4", "qrcode/decoder.Version.buildFunctionPattern:(*gozxing.BitMatrix).SetRegion#5",
		"qrcode/decoder.Version.buildFunctionPattern:(*gozxing.BitMatrix).SetRegion#6", "qrcode/decoder.Version.buildFunctionPattern:(*gozxing.BitMatrix).SetRegion#7")
	fz("block (pad + i*multiple, multiple) lies inside the output by the scaling arithmetic checked by engine_render under C14; multiple >= 1 because output >= input size",
		"qrcode.renderResult:(*gozxing.BitMatrix).SetRegion#0", "oned.onedWriter_renderResult:(*gozxing.BitMatrix).SetRegion#0", "datamatrix.convertByteMatrixToBitMatrix:(*gozxing.BitMatrix).SetRegion#0")
	fz("dimensions are >= 1: a preceding guard returns NotFound for non-positive sizes",
		"qrcode.QRCodeReader.extractPureBits:gozxing.NewBitMatrix#0", "datamatrix.extractPureBits:gozxing.NewBitMatrix#0", "common.DefaultGridSampler.SampleGridWithTransform:gozxing.NewBitMatrix#0")
	fz("dimensions are >= 1: max(requested, natural symbol size) with natural >= 8",
		"datamatrix.convertByteMatrixToBitMatrix:gozxing.NewBitMatrix#0", "datamatrix.convertByteMatrixToBitMatrix:gozxing.NewBitMatrix#1")
	fz("dimensions come from the positive entries of the versions table (checked by T-DMVER)",
		"datamatrix/decoder.extractDataRegion:gozxing.NewBitMatrix#0", "datamatrix/decoder.NewBitMatrixParser:gozxing.NewBitMatrix#0")
	fz("extractDataRegion fails only when the matrix height differs from the version's rows, and the version was just looked up by this matrix's dimensions",
		"datamatrix/decoder.NewBitMatrixParser:datamatrix/decoder.extractDataRegion#0")
	fz("the image has width, height >= 1 (the properties' quantifier: every image has at least one pixel)",
		"gozxing.HybridBinarizer.GetBlackMatrix:gozxing.NewBitMatrix#0")
	fz("row index height*y/5 for y = 1..4 lies in 0..height-1; GetRow only fails outside that range",
		"gozxing.GlobalHistogramBinarizer.GetBlackMatrix:(gozxing.LuminanceSource).GetRow#0")
	fz("debug String(): loop variable y < height",
		"gozxing.LuminanceSourceString:(gozxing.LuminanceSource).GetRow#0")
	fz("IsRange fails only for end < start, start < 0 or end > size: start is clamped by max(0, .) and end is the pattern start inside the row",
		"oned.code128FindStartPattern:(*gozxing.BitArray).IsRange#0", "oned.code39FindAsteriskPattern:(*gozxing.BitArray).IsRange#0")
	fz("IsRange arguments: start = GetNextUnset(.) <= size and end = min(size, .) >= start",
		"oned.code128Reader.DecodeRow:(*gozxing.BitArray).IsRange#0")
	fz("guarded by `quietStart >= 0` and quietStart <= start <= size",
		"oned.upceanReader_findStartGuardPattern:(*gozxing.BitArray).IsRange#0")
	fz("guarded by `quietEnd >= row.GetSize()` -> NotFound just before; end <= quietEnd",
		"oned.upceanReader.decodeRowWithStartRange:(*gozxing.BitArray).IsRange#0")
	fz("the two bytes are '0'+digit values produced by the decoder itself, Atoi cannot fail",
		"oned.UPCEANExtension2Support.decodeMiddle:strconv.Atoi#0")
	fz("deviation from upstream (which propagates NotFound): on failure the counters stay zero/partial and the following module-sum / parity checks reject the pair; floating-point arithmetic only, no crash path",
		"oned/rss.rss14Reader.decodeDataCharacter:oned.RecordPattern#0", "oned/rss.rss14Reader.decodeDataCharacter:oned.RecordPatternInReverse#0")
	fz("a malformed hint string leaves versionNumber 0, which Version_GetVersionForNumber rejects on the next line",
		"qrcode/encoder.Encoder_encode:strconv.Atoi#0")
	fz("a malformed GS1 hint string leaves appendGS1 false (hint ignored)",
		"qrcode/encoder.Encoder_encode:strconv.ParseBool#0")
	fz("buildMatrix fails only on an internal inconsistency between the bit count and the version tables (both checked under C07); with automatic mask choice it already succeeded for this mask inside chooseMaskPattern",
		"qrcode/encoder.Encoder_encode:qrcode/encoder.MatrixUtil_buildMatrix#0")
	fz("numBits comes from Mode.GetCharacterCountBits: table values <= 16 (T-MODE)",
		"qrcode/encoder.appendLengthInfo:(*gozxing.BitArray).AppendBits#0")
	fz("loop variable versionNum runs over 1..40, the accepted range",
		"qrcode/encoder.chooseVersion:qrcode/decoder.Version_GetVersionForNumber#0")
	fz("both arrays hold exactly 15 bits (5 + 10 appended above, 15 appended to the mask); Xor only fails on a size mismatch",
		"qrcode/encoder.makeTypeInfoBits:(*gozxing.BitArray).Xor#0")
	fz("calculateBCHCode fails only for a zero polynomial; the argument is a non-zero constant (T-BCHCONST)",
		"qrcode/encoder.makeTypeInfoBits:qrcode/encoder.calculateBCHCode#0", "qrcode/encoder.makeVersionInfoBits:qrcode/encoder.calculateBCHCode#0")
	fz("product has aLength + bLength - 1 >= 1 coefficients; NewGenericGFPoly fails only on an empty list",
		"common/reedsolomon.GenericGFPoly.MultiplyBy:common/reedsolomon.NewGenericGFPoly#0")
	fz("debug String(): coefficient != 0 on this branch, Log fails only for 0",
		"common/reedsolomon.GenericGFPoly.String:(*common/reedsolomon.GenericGF).Log#0")
	fz("dataBytes > 0 is checked above, so infoCoefficients is non-empty; MultiplyByMonomial fails only for a negative degree and ecBytes > 0 is checked above",
		"common/reedsolomon.ReedSolomonEncoder.Encode:common/reedsolomon.NewGenericGFPoly#0", "common/reedsolomon.ReedSolomonEncoder.Encode:(*common/reedsolomon.GenericGFPoly).MultiplyByMonomial#0")
	fz("Multiply fails only when the two polynomials belong to different fields; both are built on this.field",
		"common/reedsolomon.ReedSolomonEncoder.buildGenerator:(*common/reedsolomon.GenericGFPoly).Multiply#0")
	fz("an encoding unknown to the IANA index yields the empty name, which is then registered as an unused alias",
		"common.newCharsetECI:(*golang.org/x/text/encoding/ianaindex.Index).Name#0")
	fz("constant registered IANA names",
		"common.<package var asciiEnc>:(*golang.org/x/text/encoding/ianaindex.Index).Encoding#0", "common.<package var utf16beEnc>:(*golang.org/x/text/encoding/ianaindex.Index).Encoding#0")
	fz("the same lookup (same shape and size hints, codeword count <= len(encoded)) succeeded inside EncodeHighLevel, which padded the codewords to that symbol's capacity",
		"datamatrix.DataMatrixWriter.Encode:datamatrix/encoder.SymbolInfo_Lookup#0")
	fz("fails only when len(codewords) != capacity or the EC length is not in factorSets; EncodeHighLevel pads to the capacity and every table row's EC length is listed (T-DMSYM, T-DMGEN)",
		"datamatrix.DataMatrixWriter.Encode:datamatrix/encoder.ErrorCorrection_EncodeECC200#0", "datamatrix/encoder.ErrorCorrection_EncodeECC200:datamatrix/encoder.createECCBlock#0")
	fz("the traversal is data-independent and fills exactly totalCodewords for each of the 48 sizes of the versions table (confirmed on the pinned tree); getDataBlocks fails only on a length mismatch with the same table",
		"datamatrix/decoder.Decoder.Decode:(*datamatrix/decoder.BitMatrixParser).readCodewords#0", "datamatrix/decoder.Decoder.Decode:datamatrix/decoder.DataBlocks_getDataBlocks#0")
	fz("called only after determineConsecutiveDigitCount >= 2, so both characters are digits",
		"datamatrix/encoder.ASCIIEncoder.encode:datamatrix/encoder.encodeASCIIDigits#0")
	fz("fails only on an empty buffer; reached with count == 4 characters buffered",
		"datamatrix/encoder.EdifactEncoder.encode:datamatrix/encoder.edifactEncodeToCodewords#0")
	fz("fails only on an empty buffer; count == 0 returned earlier (`if count == 0 { return nil }`)",
		"datamatrix/encoder.edifactHandleEOD:datamatrix/encoder.edifactEncodeToCodewords#0")
	return m
}()

func runEDrop(c *Ctx, r *Report, rels []string, min int) {
	r.Rule("E-DROP", "no error-typed result is discarded, except (b1) AppendBits with a constant width 0..32, (b2) NewGenericGFPoly on a non-empty literal, (b3) callees that fold to a nil error on the site's constant / finite-domain arguments, (c) the frozen (caller, callee, ordinal) rows each carrying its reason", min)
	var pkgs []*packages.Package
	if rels == nil {
		pkgs = c.PkgList
	} else {
		for _, rel := range rels {
			if p := c.pkg(rel); p != nil {
				pkgs = append(pkgs, p)
			} else {
				r.AnchorLost("E-DROP", rel, "package not found")
			}
		}
	}
	drops := findDrops(c, pkgs)
	classes := map[string]int{}
	for _, s := range drops {
		r.Analysed("drop site " + s.Key)
		if why := dischargeDrop(c, s); why != "" {
			classes[why[:2]]++
			r.Pass("E-DROP", s.Key, c.pos(s.Pos), why)
			continue
		}
		if why, ok := frozenDrops[s.Key]; ok {
			// rows whose reason is "dimensions are >= 1: ..." are re-checked: both size arguments of the call must be
			// provably positive at the call (dominating tests on the SSA form)
			if strings.HasPrefix(why, "dimensions are >= 1: a preceding guard") {
				if bad := positiveArgsAt(c, s); bad != "" {
					r.Fail("E-DROP", s.Key, c.pos(s.Pos), "violation", "the dropped error rests on \""+why+"\", but "+bad)
					continue
				}
			}
			classes["c"]++
			r.Pass("E-DROP", s.Key, c.pos(s.Pos), "c: "+why)
			continue
		}
		// a drop that moved, with its statement, into an unexported helper called from one function only: the row
		// frozen for that function and callee, if the site it names is no longer there, goes with it
		if row, why := movedDropRow(c, s, drops); row != "" {
			classes["c"]++
			r.Pass("E-DROP", s.Key, c.pos(s.Pos), "c: (row "+row+", whose site now lies in this helper of that function) "+why)
			continue
		}
		name := "<dynamic call>"
		if s.Callee != nil {
			name = shortObj(s.Callee)
		}
		r.Fail("E-DROP", s.Key, c.pos(s.Pos), "violation", fmt.Sprintf("the error result of %s is discarded in %s and nothing discharges it: a failure here is silently ignored", name, s.Caller))
	}
	r.Extra("edrop_classes", classes)
	runEUnused(c, r, rels, drops)
}

// E-UNUSED: an error value that is bound to a name but never looked at (overwritten or abandoned before any test).
// On SSA form such a value has no referrers; sites already listed by E-DROP (blank identifier, bare call) are skipped.
func runEUnused(c *Ctx, r *Report, rels []string, drops []dropSite) {
	r.Rule("E-UNUSED", "no error-typed call result is bound to a variable and then never read (overwritten or left behind before any test): on SSA form every error result of a call has at least one use, apart from the discards E-DROP already lists", 0)
	listed := map[token.Pos]bool{}
	for _, d := range drops {
		listed[d.Call.Lparen] = true
	}
	relSet := map[string]bool{}
	for _, rel := range rels {
		relSet[rel] = true
	}
	n := 0
	for _, f := range c.repoFuncs() {
		if f.Pkg == nil || f.Blocks == nil {
			continue
		}
		rel := strings.TrimPrefix(strings.TrimPrefix(f.Pkg.Pkg.Path(), modPath), "/")
		if rels != nil && !relSet[rel] {
			continue
		}
		ord := map[string]int{}
		for _, b := range f.Blocks {
			for _, in := range b.Instrs {
				var call *ssa.Call
				unused := false
				switch x := in.(type) {
				case *ssa.Call:
					if isErrorType(x.Type()) && liveRefs(x.Referrers()) == 0 {
						call, unused = x, true
					}
				case *ssa.Extract:
					if cl, ok := x.Tuple.(*ssa.Call); ok && isErrorType(x.Type()) && liveRefs(x.Referrers()) == 0 {
						call, unused = cl, true
					}
				}
				if !unused || call == nil || !call.Pos().IsValid() || listed[call.Pos()] {
					continue
				}
				n++
				name := "<dynamic>"
				if cal := call.Common().StaticCallee(); cal != nil {
					name = shortFn(cal)
				} else if call.Common().Method != nil {
					name = call.Common().Method.Name()
				}
				key := fmt.Sprintf("%s:%s#%d", shortFn(f), name, ord[name])
				ord[name]++
				r.Fail("E-UNUSED", key, c.pos(call.Pos()), "violation", "the error returned here is stored but never examined: a failure is silently ignored")
			}
		}
	}
	if n == 0 {
		r.Pass("E-UNUSED", "all error results", "", "every named error result is read")
	}
}

func liveRefs(refs *[]ssa.Instruction) int {
	if refs == nil {
		return 0
	}
	n := 0
	for _, x := range *refs {
		if _, dbg := x.(*ssa.DebugRef); !dbg {
			n++
		}
	}
	return n
}

// positiveArgsAt: the first two arguments of the dropped call are provably >= 1 where it is made.
func positiveArgsAt(c *Ctx, s dropSite) string {
	fn, _ := s.Pkg.TypesInfo.Defs[s.Fd.Name].(*types.Func)
	if fn == nil {
		return "the enclosing function was not found in the SSA program"
	}
	f := c.Prog.FuncValue(fn)
	if f == nil {
		return "the enclosing function was not found in the SSA program"
	}
	for _, b := range f.Blocks {
		for _, in := range b.Instrs {
			call, ok := in.(*ssa.Call)
			if !ok || call.Pos() != s.Call.Lparen || len(call.Call.Args) < 2 {
				continue
			}
			facts := intFactsAt(b)
			for i := 0; i < 2; i++ {
				if !provablyPositive(call.Call.Args[i], facts, 0) {
					return fmt.Sprintf("argument %d is not kept positive by a dominating test", i+1)
				}
			}
			return ""
		}
	}
	return "the call was not found in the SSA form"
}

// movedDropRow finds the frozen row that covered a dropped error before its statement was moved into a helper: the
// site's function must be unexported and called from exactly one other function of its package (which may in turn be
// such a helper, up to three levels), and that function must own a frozen row for the same callee whose site no
// longer exists there.
func movedDropRow(c *Ctx, s dropSite, drops []dropSite) (string, string) {
	if s.Fd == nil || s.Pkg == nil || s.Callee == nil {
		return "", ""
	}
	present := map[string]bool{}
	for _, d := range drops {
		present[d.Key] = true
	}
	name := s.Key[strings.Index(s.Key, ":")+1:]
	name = name[:strings.LastIndex(name, "#")]
	cur := s.Fd
	for depth := 0; depth < 3; depth++ {
		if cur.Name.IsExported() {
			return "", ""
		}
		helper := s.Pkg.TypesInfo.Defs[cur.Name]
		if helper == nil {
			return "", ""
		}
		var callers []*ast.FuncDecl
		for _, f := range s.Pkg.Syntax {
			for _, d := range f.Decls {
				fd, ok := d.(*ast.FuncDecl)
				if !ok || fd.Body == nil || fd == cur {
					continue
				}
				uses := false
				ast.Inspect(fd.Body, func(n ast.Node) bool {
					if id, ok := n.(*ast.Ident); ok && s.Pkg.TypesInfo.Uses[id] == helper {
						uses = true
					}
					return true
				})
				if uses {
					callers = append(callers, fd)
				}
			}
		}
		if len(callers) != 1 {
			return "", ""
		}
		caller := fdKey(s.Pkg, callers[0])
		for k := 0; k < 8; k++ {
			row := fmt.Sprintf("%s:%s#%d", caller, name, k)
			if why, ok := frozenDrops[row]; ok && !present[row] && !strings.HasPrefix(why, "dimensions are >= 1: a preceding guard") {
				return row, why
			}
		}
		cur = callers[0]
	}
	return "", ""
}
