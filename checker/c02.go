package main

import (
	"fmt"
	"go/ast"
	"go/token"
	"go/types"
	"strings"

	"golang.org/x/tools/go/packages"
	"golang.org/x/tools/go/ssa"
	"golang.org/x/tools/go/types/typeutil"
)

func init() {
	registerProp("C02", "Data Matrix: what is written is what is read", checkC02)
}

func checkC02(c *Ctx, r *Report) {
	// the tables, generators, randomisation, placement and interleave both sides rest on (same obligations as C08)
	if msg := refDMSelfCheck(); msg != "" {
		r.Fail("CHECKER", "refdata", "", "checker-failure", msg)
		return
	}
	checkDMTables(c, r)
	checkDMGenerators(c, r)
	checkDMECCBlock(c, r)
	checkDMRandomize(c, r)
	checkDMPlacement(c, r)
	checkDMRegionSwitches(c, r)
	checkDMBlockInterleave(c, r)
	checkDMEccOrder(c, r)
	checkDMFrame(c, r)
	checkDMSweep(c, r)
	checkDMDeinterleave(c, r)
	checkDecodePipelines(c, r)
	// codeword-level agreement of the mode encoders with the bit-stream parser
	checkDMAscii(c, r)
	checkDMLatches(c, r)
	checkDMShiftSets(c, r)
	checkDMX12Edifact(c, r)
	checkDMTriples(c, r)
	checkDMBase256(c, r)
	checkDMMacros(c, r)
	checkDMX12EOD(c, r)
	checkDMEdifactEOD(c, r)
	checkDMEdifactDecode(c, r)
	checkDMC40EOD(c, r)
	checkDMC40End(c, r)
	checkDMWholeEncode(c, r)
	checkWriterAcceptsContents(c, r, "datamatrix", "DataMatrixWriter.Encode", "BarcodeFormat_DATA_MATRIX") // "every non-empty text succeeds": the writer itself refuses only the empty one
	checkDMCharset(c, r)
	checkDMNativeChars(c, r)
	checkDMLookup(c, r) // the size hints: a text that fits a permitted symbol is not refused (same obligations as under C13)
	// the statement quantifies over the requested pixel size: the rendering terms (same obligations as under C14)
	declareRenderRules(r, 1)
	renderDM(c, r)
	checkPureAxis(c, r, [][2]string{{"datamatrix", "extractPureBits"}, {"datamatrix", "moduleSize"}})
	// error discipline
	runEDrop(c, r, []string{"datamatrix", "datamatrix/encoder", "datamatrix/decoder", "datamatrix/detector"}, 10)
	nf := c.newNilFlow()
	var roots []*ssa.Function
	for _, t := range [][2]string{
		{"datamatrix", "DataMatrixWriter.Encode"},
		{"datamatrix", "DataMatrixReader.Decode"}, {"datamatrix/decoder", "Decoder.Decode"}, {"datamatrix/decoder", "DecodedBitStreamParser_decode"},
	} {
		if f := c.ssaFunc(t[0], t[1]); f != nil {
			roots = append(roots, f)
		} else {
			r.AnchorLost("E-XOR", t[0]+"."+t[1], "entry point not found")
		}
	}
	runEXOR(c, r, nf, roots, 4)
	reach := nf.reachableFrom(roots)
	runENIL(c, r, nf, reach, 1)
	r.Note("decided: tables, generators, randomisation, placement, interleave (C08 rules); per-character / per-group agreement between each mode encoder and the parser over their whole finite domains (ASCII incl. upper shift and digit pairs, latch codewords, C40 / Text shift sets, X12, EDIFACT, the 16-bit triple packing, the Base 256 length field and data incl. the to-end-of-symbol form), with the decoded text compared as text (Latin-1 characters above 0x7F must come out as those characters); error discipline of the chain. End of data is decided for X12 and EDIFACT (unlatch omitted only where the parser leaves the mode by itself); finder / clock / data-region layout and the decoder's de-interleave for all 30 sizes. Not decided: look-ahead optimality, termination of the mode loop (needs a ranking argument over position, pending mode and rewinds), the end-of-data choices of C40 / Text, the round trip itself")
}

// ---------------------------------------------------------------------------------------------------------------
// a bit source model for folding the parser
// ---------------------------------------------------------------------------------------------------------------

type bitFeed struct {
	bytes []int64
	off   int64 // bit offset
}

func (bf *bitFeed) available() int64 { return int64(len(bf.bytes))*8 - bf.off }

func (bf *bitFeed) read(n int64) int64 {
	var v int64
	for i := int64(0); i < n; i++ {
		byteIx, bit := bf.off/8, 7-bf.off%8
		v = v<<1 | (bf.bytes[byteIx]>>uint(bit))&1
		bf.off++
	}
	return v
}

func latin1UTF8(bs []int64) []int64 {
	var out []int64
	for _, b := range bs {
		for _, x := range []byte(string(rune(b))) {
			out = append(out, int64(x))
		}
	}
	return out
}

// dmParserHooks folds functions of datamatrix/decoder over a concrete codeword stream.
func dmParserHooks(bf *bitFeed) *rpf {
	h := &rpf{unroll: 4096}
	h.callHook = func(rr *rpf, call *ast.CallExpr, callee types.Object) (*Val, bool) {
		fn, ok := callee.(*types.Func)
		if !ok {
			return nil, false
		}
		if isMethodNamed(callee, "common", "BitSource", "Available") {
			return vint(bf.available()), true
		}
		if isMethodNamed(callee, "common", "BitSource", "GetBitOffset") {
			return vint(bf.off % 8), true
		}
		if isMethodNamed(callee, "common", "BitSource", "GetByteOffset") {
			return vint(bf.off / 8), true
		}
		if isMethodNamed(callee, "common", "BitSource", "ReadBits") {
			// expression statement `bits.ReadBits(n)`
			n := rr.expr(call.Args[0])
			if n.K != VInt || n.I > bf.available() {
				rpfFail("read past the end of the codewords")
			}
			bf.read(n.I)
			return &Val{K: VNil}, true
		}
		if fn.Name() == "add" || fn.Name() == "contains" {
			return vbool(false), true
		}
		if fn.Pkg() != nil && fn.Pkg().Path() == "strconv" && fn.Name() == "Itoa" {
			v := rr.expr(call.Args[0])
			if v.K != VInt {
				rpfFail("Itoa of a non-constant")
			}
			return vstr(fmt.Sprint(v.I)), true
		}
		return errCtorHook(rr, call, callee)
	}
	h.multiHook = func(call *ast.CallExpr, callee types.Object) ([]*Val, bool) {
		if isMethodNamed(callee, "common", "BitSource", "ReadBits") {
			return nil, false // needs the evaluator: handled in foldParser
		}
		return nil, false
	}
	return h
}

// foldParser folds a datamatrix/decoder function on a codeword stream. args: values for the parameters after `bits`.
func foldParser(c *Ctx, fn string, codewords []int64, args []*Val) (res []*Val, bf *bitFeed, err error) {
	fd, p := c.funcDeclOf("datamatrix/decoder", fn)
	if fd == nil {
		return nil, nil, fmt.Errorf("function %s not found", fn)
	}
	bf = &bitFeed{bytes: codewords}
	h := dmParserHooks(bf)
	h.multiHook = func(call *ast.CallExpr, callee types.Object) ([]*Val, bool) {
		if isMethodNamed(callee, "common", "BitSource", "ReadBits") {
			n := rpfCurrent.expr(call.Args[0])
			if n.K != VInt {
				rpfFail("ReadBits with a non-constant width")
			}
			if n.I > bf.available() {
				return []*Val{vint(0), vstr("error")}, true
			}
			return []*Val{vint(bf.read(n.I)), {K: VNil}}, true
		}
		if fnc, ok := callee.(*types.Func); ok && fnc.Name() == "Bytes" && fnc.Pkg() != nil && strings.Contains(fnc.Pkg().Path(), "golang.org/x/text") && len(call.Args) == 1 {
			bs, ok := listInts(rpfCurrent.expr(call.Args[0]))
			if !ok {
				rpfFail("Latin-1 decoder applied to a non-constant buffer")
			}
			out := &Val{K: VList}
			for _, b := range latin1UTF8(bs) {
				out.L = append(out.L, vint(b))
			}
			return []*Val{out, {K: VNil}}, true
		}
		return nil, false
	}
	all := append([]*Val{{K: VNil}}, args...)
	res, err = c.rpfCall(fd, p, all, h)
	return res, bf, err
}

// ---------------------------------------------------------------------------------------------------------------
// S-DMASCII
// ---------------------------------------------------------------------------------------------------------------

func emptyBytes() *Val { return &Val{K: VList, Local: true} }

// charClasses sorts the per-character outcomes of a write/read fold into three obligations, so that a finding about
// the text form of upper-shifted characters does not hide anything else:
//
//	<key>/ascii            characters 0x00..0x7F come back as themselves
//	<key>/upper-shift value   characters 0x80..0xFF come back with the right character value (as text, or as a raw byte)
//	<key>/upper-shift text    ... and in the text buffer's own form (UTF-8), so that string(result) is the character
type charClasses struct {
	ascii, value, text string
}

func (cc *charClasses) add(ch int64, how string, got []int64) {
	want := latin1UTF8([]int64{ch})
	if fmt.Sprint(got) == fmt.Sprint(want) {
		return
	}
	if ch < 0x80 {
		if cc.ascii == "" {
			cc.ascii = fmt.Sprintf("character U+%04X is written as %s and read back as text bytes %v", ch, how, got)
		}
		return
	}
	if len(got) == 1 && got[0] == ch {
		if cc.text == "" {
			cc.text = fmt.Sprintf("characters above 0x7F are appended to the text buffer as single raw bytes (U+%04X, written as %s, comes back as %v); the buffer is turned into the result with string(...) and elsewhere holds UTF-8 (the Base 256 path decodes ISO-8859-1 into it), so %q is returned as the invalid sequence %q", ch, how, got, string(rune(ch)), string([]byte{byte(ch)}))
		}
		return
	}
	if cc.value == "" {
		cc.value = fmt.Sprintf("character U+%04X is written as %s and read back as text bytes %v", ch, how, got)
	}
}

func (cc *charClasses) report(r *Report, c *Ctx, rule, key string, pos token.Pos) {
	r.Check(cc.ascii == "", rule, key+"/ascii", c.pos(pos), cc.ascii)
	r.Check(cc.value == "", rule, key+"/upper-shift value", c.pos(pos), cc.value)
	r.Check(cc.text == "", rule, key+"/upper-shift text", c.pos(pos), cc.text)
}

func checkDMAscii(c *Ctx, r *Report) {
	r.Rule("S-DMASCII", "for every byte value c, the codewords ASCIIEncoder.encode writes for the single character c (c+1, or UPPER_SHIFT then c-127 above 0x7F) are read back by decodeAsciiSegment as exactly the text character c (for c above 0x7F the character U+00xx, i.e. its UTF-8 form in the text buffer, not a raw byte); every digit pair dd is written as 130+dd by encodeASCIIDigits and read back as the two digits", 2)
	fd, p := c.funcDeclOf("datamatrix/encoder", "ASCIIEncoder.encode")
	key := "datamatrix ASCII characters"
	if fd == nil {
		r.AnchorLost("S-DMASCII", key, "ASCIIEncoder.encode not found")
	} else {
		r.Analysed(key)
		// the `else if isExtendedASCII(c) {...} else {...}` tail
		var tail *ast.IfStmt
		ast.Inspect(fd.Body, func(n ast.Node) bool {
			if ifs, ok := n.(*ast.IfStmt); ok {
				if call, isC := ast.Unparen(ifs.Cond).(*ast.CallExpr); isC && isFuncNamed(typeutil.Callee(p.TypesInfo, call), "datamatrix/encoder", "HighLevelEncoder_isExtendedASCII") {
					tail = ifs
				}
			}
			return true
		})
		var cObj types.Object // the current character: what the extended-ASCII test looks at
		if tail != nil {
			cObj = identObj(p, ast.Unparen(tail.Cond).(*ast.CallExpr).Args[0])
		}
		bad := ""
		cls := &charClasses{}
		if tail == nil || cObj == nil {
			bad = "?the plain-character tail of ASCIIEncoder.encode was not found"
		}
		for ch := int64(0); ch < 256 && bad == ""; ch++ {
			var written []int64
			h := &rpf{stHook: func(rr *rpf, lhs ast.Expr, v *Val) bool { return true }}
			h.callHook = func(rr *rpf, call *ast.CallExpr, callee types.Object) (*Val, bool) {
				if fn, ok := callee.(*types.Func); ok && fn.Name() == "WriteCodeword" {
					v := rr.expr(call.Args[0])
					if v.K != VInt {
						rpfFail("WriteCodeword of a non-constant")
					}
					written = append(written, v.I)
					return &Val{K: VNil}, true
				}
				return nil, false
			}
			h.selHook = func(rr *rpf, sel *ast.SelectorExpr) (*Val, bool) {
				if sel.Sel.Name == "pos" {
					return vint(0), true
				}
				return nil, false
			}
			rr := &rpf{c: c, p: p, env: map[types.Object]*Val{cObj: vint(ch)}, callHook: h.callHook, stHook: h.stHook, selHook: h.selHook}
			func() {
				defer func() {
					if y := recover(); y != nil {
						if re, ok := y.(*rpfErr); ok {
							bad = "?encoder: " + re.Error()
							return
						}
						panic(y)
					}
				}()
				rr.stmtC(tail)
			}()
			if bad != "" {
				break
			}
			for _, w := range written {
				if w < 1 || w > 255 || (w > 128 && w != 235) {
					bad = fmt.Sprintf("character 0x%02X is written as codewords %v: %d is not an ASCII-encodation data codeword", ch, written, w)
				}
			}
			if bad != "" {
				break
			}
			res, _, err := foldParser(c, "decodeAsciiSegment", written, []*Val{emptyBytes(), emptyBytes(), {K: VNil}})
			if err != nil {
				bad = "?decoder: " + err.Error()
				break
			}
			got, ok := listInts(res[1])
			if len(res) != 4 || !ok || res[3].K != VNil {
				bad = fmt.Sprintf("character 0x%02X (codewords %v) is rejected by decodeAsciiSegment", ch, written)
				break
			}
			cls.add(ch, fmt.Sprintf("codewords %v", written), got)
		}
		if bad != "" {
			reportFold(r, c, "S-DMASCII", key, fd.Pos(), bad)
		} else {
			cls.report(r, c, "S-DMASCII", key, fd.Pos())
		}
	}
	// digit pairs
	dfd, dp := c.funcDeclOf("datamatrix/encoder", "encodeASCIIDigits")
	key = "datamatrix ASCII digit pairs"
	if dfd == nil {
		r.AnchorLost("S-DMASCII", key, "encodeASCIIDigits not found")
		return
	}
	r.Analysed(key)
	bad := ""
	for v := int64(0); v < 100 && bad == ""; v++ {
		d1, d2 := '0'+v/10, '0'+v%10
		res, err := c.rpfCall(dfd, dp, []*Val{vint(d1), vint(d2)}, &rpf{callHook: errCtorHook})
		if err != nil {
			bad = "?encoder: " + err.Error()
			break
		}
		if len(res) != 2 || res[0].K != VInt || res[1].K != VNil {
			bad = fmt.Sprintf("digit pair %02d is rejected", v)
			break
		}
		out, _, err := foldParser(c, "decodeAsciiSegment", []int64{res[0].I, 129}, []*Val{emptyBytes(), emptyBytes(), {K: VNil}})
		if err != nil {
			bad = "?decoder: " + err.Error()
			break
		}
		got, _ := listInts(out[1])
		if fmt.Sprint(got) != fmt.Sprint([]int64{d1, d2}) {
			bad = fmt.Sprintf("digit pair %02d is written as codeword %d and read back as %v", v, res[0].I, got)
		}
	}
	reportFold(r, c, "S-DMASCII", key, dfd.Pos(), bad)
}

// ---------------------------------------------------------------------------------------------------------------
// S-DMLATCH
// ---------------------------------------------------------------------------------------------------------------

func checkDMLatches(c *Ctx, r *Report) {
	r.Rule("S-DMLATCH", "the latch, pad and shift codewords of the encoder (LATCH_TO_C40 230, LATCH_TO_BASE256 231, UPPER_SHIFT 235, MACRO_05 236, MACRO_06 237, LATCH_TO_ANSIX12 238, LATCH_TO_TEXT 239, LATCH_TO_EDIFACT 240, PAD 129, unlatch 254) are the ISO 16022 values, decodeAsciiSegment switches to the matching mode on each, and ASCIIEncoder writes LATCH_TO_X exactly with SignalEncoderChange(X)", 3)
	ep := c.pkg("datamatrix/encoder")
	if ep == nil {
		r.AnchorLost("S-DMLATCH", "datamatrix/encoder", "package not found")
		return
	}
	want := map[string]int64{"HighLevelEncoder_PAD": 129, "HighLevelEncoder_LATCH_TO_C40": 230, "HighLevelEncoder_LATCH_TO_BASE256": 231, "HighLevelEncoder_UPPER_SHIFT": 235,
		"HighLevelEncoder_MACRO_05": 236, "HighLevelEncoder_MACRO_06": 237, "HighLevelEncoder_LATCH_TO_ANSIX12": 238, "HighLevelEncoder_LATCH_TO_TEXT": 239, "HighLevelEncoder_LATCH_TO_EDIFACT": 240,
		"HighLevelEncoder_C40_UNLATCH": 254, "HighLevelEncoder_X12_UNLATCH": 254}
	bad := ""
	for n, w := range want {
		v, ok := constVal(ep, n)
		if !ok {
			r.AnchorLost("S-DMLATCH", n, "constant not found")
			continue
		}
		if v != w {
			bad = fmt.Sprintf("%s = %d, ISO 16022 Table 2 gives %d", n, v, w)
		}
	}
	r.Check(bad == "", "S-DMLATCH", "datamatrix/encoder codeword constants", c.pos(ep.Types.Scope().Lookup("HighLevelEncoder_PAD").Pos()), bad)
	// parser side
	dp := c.pkg("datamatrix/decoder")
	key := "datamatrix/decoder.decodeAsciiSegment/modes"
	r.Analysed(key)
	bad = ""
	for _, t := range []struct {
		cw   int64
		mode string
	}{{230, "Mode_C40_ENCODE"}, {231, "Mode_BASE256_ENCODE"}, {238, "Mode_ANSIX12_ENCODE"}, {239, "Mode_TEXT_ENCODE"}, {240, "Mode_EDIFACT_ENCODE"}, {129, "Mode_PDA_ENCODE"}} {
		res, _, err := foldParser(c, "decodeAsciiSegment", []int64{t.cw, 66}, []*Val{emptyBytes(), emptyBytes(), {K: VNil}})
		if err != nil {
			bad = "?" + err.Error()
			break
		}
		wantMode, ok := constVal(dp, t.mode)
		if !ok {
			bad = "?" + t.mode + " not found"
			break
		}
		if len(res) != 4 || res[0].K != VInt || res[0].I != wantMode || res[3].K != VNil {
			bad = fmt.Sprintf("codeword %d must switch the parser to %s; it returns mode %s", t.cw, t.mode, valString(res[0]))
			break
		}
	}
	pos := ""
	if fd, _ := c.funcDeclOf("datamatrix/decoder", "decodeAsciiSegment"); fd != nil {
		pos = c.pos(fd.Pos())
	}
	if bad != "" && bad[0] == '?' {
		r.Undecided("S-DMLATCH", key, pos, bad[1:])
	} else {
		r.Check(bad == "", "S-DMLATCH", key, pos, bad)
	}
	// the dispatch of the parser: each mode constant goes to its own segment decoder
	if fd, p := c.funcDeclOf("datamatrix/decoder", "DecodedBitStreamParser_decode"); fd != nil {
		k := "datamatrix/decoder.DecodedBitStreamParser_decode/dispatch"
		r.Analysed(k)
		pairs := map[string]string{"Mode_C40_ENCODE": "decodeC40Segment", "Mode_TEXT_ENCODE": "decodeTextSegment", "Mode_ANSIX12_ENCODE": "decodeAnsiX12Segment", "Mode_EDIFACT_ENCODE": "decodeEdifactSegment", "Mode_BASE256_ENCODE": "decodeBase256Segment"}
		found := 0
		badD := ""
		ast.Inspect(fd.Body, func(n ast.Node) bool {
			cc, ok := n.(*ast.CaseClause)
			if !ok || len(cc.List) != 1 {
				return true
			}
			id, isI := cc.List[0].(*ast.Ident)
			if !isI || pairs[id.Name] == "" {
				return true
			}
			calls := findCalls(p, cc, func(o types.Object) bool {
				fn, ok := o.(*types.Func)
				return ok && strings.HasPrefix(fn.Name(), "decode") && strings.HasSuffix(fn.Name(), "Segment")
			})
			if len(calls) != 1 || typeutil.Callee(p.TypesInfo, calls[0]).Name() != pairs[id.Name] {
				badD = "case " + id.Name + " must call " + pairs[id.Name]
			} else {
				found++
			}
			return true
		})
		if badD == "" && found != len(pairs) {
			badD = fmt.Sprintf("%d of %d mode cases found", found, len(pairs))
		}
		r.Check(badD == "", "S-DMLATCH", k, c.pos(fd.Pos()), badD)
	} else {
		r.AnchorLost("S-DMLATCH", "datamatrix/decoder.DecodedBitStreamParser_decode", "function not found")
	}
	// encoder side pairing
	if fd, p := c.funcDeclOf("datamatrix/encoder", "ASCIIEncoder.encode"); fd != nil {
		k := "datamatrix/encoder.ASCIIEncoder.encode/latch-pairs"
		r.Analysed(k)
		pairs := map[string]string{"HighLevelEncoder_BASE256_ENCODATION": "HighLevelEncoder_LATCH_TO_BASE256", "HighLevelEncoder_C40_ENCODATION": "HighLevelEncoder_LATCH_TO_C40", "HighLevelEncoder_X12_ENCODATION": "HighLevelEncoder_LATCH_TO_ANSIX12", "HighLevelEncoder_TEXT_ENCODATION": "HighLevelEncoder_LATCH_TO_TEXT", "HighLevelEncoder_EDIFACT_ENCODATION": "HighLevelEncoder_LATCH_TO_EDIFACT"}
		found := 0
		badE := ""
		ast.Inspect(fd.Body, func(n ast.Node) bool {
			cc, ok := n.(*ast.CaseClause)
			if !ok || len(cc.List) != 1 {
				return true
			}
			id, isI := cc.List[0].(*ast.Ident)
			if !isI || pairs[id.Name] == "" {
				return true
			}
			okW, okS := false, false
			for _, call := range findCalls(p, cc, func(o types.Object) bool { return true }) {
				fn, isF := typeutil.Callee(p.TypesInfo, call).(*types.Func)
				if !isF || len(call.Args) != 1 {
					continue
				}
				arg, _ := call.Args[0].(*ast.Ident)
				if fn.Name() == "WriteCodeword" && arg != nil && arg.Name == pairs[id.Name] {
					okW = true
				}
				if fn.Name() == "SignalEncoderChange" && arg != nil && arg.Name == id.Name {
					okS = true
				}
			}
			if okW && okS {
				found++
			} else {
				badE = "case " + id.Name + " must write " + pairs[id.Name] + " and signal the change to the same mode"
			}
			return true
		})
		if badE == "" && found != len(pairs) {
			badE = fmt.Sprintf("%d of %d latch cases found", found, len(pairs))
		}
		r.Check(badE == "", "S-DMLATCH", k, c.pos(fd.Pos()), badE)
	} else {
		r.AnchorLost("S-DMLATCH", "datamatrix/encoder.ASCIIEncoder.encode", "method not found")
	}
}

// ---------------------------------------------------------------------------------------------------------------
// S-DMSHIFT: C40 and Text value sequences
// ---------------------------------------------------------------------------------------------------------------

// dmSegmentVars finds, by their roles, the state variables of a C40 / Text / X12 segment decoder: the three-value
// buffer (the slice made with make([]int, 3)), the upper-shift flag (a local initialised with false) and the shift
// state (the tag of the switch inside the value loop).
func dmSegmentVars(p *packages.Package, fd *ast.FuncDecl) (values, upper, shift types.Object) {
	for _, st := range fd.Body.List {
		as, ok := st.(*ast.AssignStmt)
		if !ok || as.Tok != token.DEFINE || len(as.Lhs) != 1 || len(as.Rhs) != 1 {
			continue
		}
		o := p.TypesInfo.Defs[as.Lhs[0].(*ast.Ident)]
		switch rhs := ast.Unparen(as.Rhs[0]).(type) {
		case *ast.CallExpr:
			if b, isB := typeutil.Callee(p.TypesInfo, rhs).(*types.Builtin); isB && b.Name() == "make" && values == nil {
				if sl, isS := p.TypesInfo.TypeOf(rhs).Underlying().(*types.Slice); isS && isIntT(sl.Elem()) {
					values = o
				}
			}
		case *ast.Ident:
			if c, isC := p.TypesInfo.Uses[rhs].(*types.Const); isC && c.Val().String() == "false" && upper == nil {
				upper = o
			}
		}
	}
	ast.Inspect(fd.Body, func(n ast.Node) bool {
		if sw, ok := n.(*ast.SwitchStmt); ok && sw.Tag != nil && shift == nil {
			shift = identObj(p, sw.Tag)
		}
		return true
	})
	return
}

// foldShiftValues runs the per-value switch of decodeC40Segment / decodeTextSegment over a value sequence.
func foldShiftValues(c *Ctx, fn string, values []int64) (out []int64, shift int64, upper bool, err string) {
	fd, p := c.funcDeclOf("datamatrix/decoder", fn)
	if fd == nil {
		return nil, 0, false, "?function not found"
	}
	// the innermost for loop (over the three values) and its body
	var inner *ast.ForStmt
	ast.Inspect(fd.Body, func(n ast.Node) bool {
		if l, ok := n.(*ast.ForStmt); ok {
			inner = l
		}
		return true
	})
	valuesObj, upperObj, shiftObj := dmSegmentVars(p, fd)
	resObj := paramObjs(p, fd)[1]
	if inner == nil || shiftObj == nil || upperObj == nil {
		return nil, 0, false, "?value loop / shift state not found"
	}
	env := map[types.Object]*Val{shiftObj: vint(0), upperObj: vbool(false), resObj: emptyBytes(), paramObjs(p, fd)[2]: {K: VNil}}
	for _, v := range values {
		val := v
		h := &rpf{idxHook: func(rr *rpf, ix *ast.IndexExpr) (*Val, bool) {
			if valuesObj != nil && identObj(p, ix.X) == valuesObj {
				return vint(val), true
			}
			return nil, false
		}, callHook: func(rr *rpf, call *ast.CallExpr, callee types.Object) (*Val, bool) {
			if fnc, ok := callee.(*types.Func); ok && (fnc.Name() == "add" || fnc.Name() == "contains") {
				return vbool(false), true
			}
			return errCtorHook(rr, call, callee)
		}}
		if e := foldStmts(c, p, inner.Body.List, env, h, &bitTraffic{}); e != nil {
			return nil, 0, false, e.Error()
		}
	}
	got, _ := listInts(env[resObj])
	return got, env[shiftObj].I, env[upperObj].B, ""
}

func checkDMShiftSets(c *Ctx, r *Report) {
	r.Rule("S-DMSHIFT", "for every byte value c, the value sequence c40EncodeChar / textEncodeChar produces (basic value, or shift 1/2/3 + value, preceded by shift 2 + upper shift above 0x7F) is read back by the parser's per-value switch as exactly the text character c, ending in shift state 0 with the upper shift consumed; every value is below 40", 2)
	for _, t := range []struct{ enc, dec, key string }{
		{"c40EncodeChar", "decodeC40Segment", "datamatrix C40 characters"},
		{"textEncodeChar", "decodeTextSegment", "datamatrix Text characters"},
	} {
		efd, ep := c.funcDeclOf("datamatrix/encoder", t.enc)
		if efd == nil {
			r.AnchorLost("S-DMSHIFT", t.key, t.enc+" not found")
			continue
		}
		r.Analysed(t.key)
		bad := ""
		cls := &charClasses{}
		for ch := int64(0); ch < 256 && bad == ""; ch++ {
			res, err := c.rpfCall(efd, ep, []*Val{vint(ch), emptyBytes()}, nil)
			if err != nil {
				bad = "?encoder: " + err.Error()
				break
			}
			vals, ok := listInts(res[1])
			if len(res) != 2 || !ok || res[0].K != VInt || res[0].I != int64(len(vals)) {
				bad = fmt.Sprintf("%s(0x%02X) returns a length that differs from the values it appended", t.enc, ch)
				break
			}
			for _, v := range vals {
				if v < 0 || v >= 40 {
					bad = fmt.Sprintf("%s(0x%02X) produces value %d, outside 0..39", t.enc, ch, v)
				}
			}
			if bad != "" {
				break
			}
			got, shift, upper, e := foldShiftValues(c, t.dec, vals)
			if e != "" {
				if e[0] != '?' {
					e = "?decoder: " + e
				}
				bad = e
				break
			}
			if shift != 0 || upper {
				bad = fmt.Sprintf("after character 0x%02X (values %v) the parser is left in shift %d, upper shift %v", ch, vals, shift, upper)
				break
			}
			cls.add(ch, fmt.Sprintf("values %v", vals), got)
		}
		if bad != "" {
			reportFold(r, c, "S-DMSHIFT", t.key, efd.Pos(), bad)
		} else {
			cls.report(r, c, "S-DMSHIFT", t.key, efd.Pos())
		}
	}
}

// ---------------------------------------------------------------------------------------------------------------
// S-DMX12 / EDIFACT
// ---------------------------------------------------------------------------------------------------------------

func checkDMX12Edifact(c *Ctx, r *Report) {
	r.Rule("S-DMX12", "x12EncodeChar accepts exactly CR * > space 0-9 A-Z and the parser's value switch maps each value back to its character; edifactEncodeChar accepts exactly 0x20..0x5E and the parser's 6-bit rule (set bit 6 when bit 5 is clear) maps each value back; edifactEncodeToCodewords packs four 6-bit values into the three bytes the parser reads them from", 3)
	// X12
	if efd, ep := c.funcDeclOf("datamatrix/encoder", "x12EncodeChar"); efd != nil {
		key := "datamatrix X12 characters"
		r.Analysed(key)
		dfd, dp := c.funcDeclOf("datamatrix/decoder", "decodeAnsiX12Segment")
		bad := ""
		var inner *ast.ForStmt
		if dfd != nil {
			ast.Inspect(dfd.Body, func(n ast.Node) bool {
				if l, ok := n.(*ast.ForStmt); ok {
					inner = l
				}
				return true
			})
		}
		if inner == nil {
			bad = "?decodeAnsiX12Segment value loop not found"
		}
		for ch := int64(0); ch < 256 && bad == ""; ch++ {
			res, err := c.rpfCall(efd, ep, []*Val{vint(ch), emptyBytes()}, &rpf{callHook: errCtorHook})
			if err != nil {
				bad = "?encoder: " + err.Error()
				break
			}
			native := ch == '\r' || ch == '*' || ch == '>' || ch == ' ' || (ch >= '0' && ch <= '9') || (ch >= 'A' && ch <= 'Z')
			accepted := len(res) == 2 && res[1].K == VNil
			if accepted != native {
				bad = fmt.Sprintf("x12EncodeChar(0x%02X): accepted=%v, but the X12 set %s this character", ch, accepted, map[bool]string{true: "contains", false: "does not contain"}[native])
				break
			}
			if !native {
				continue
			}
			vals, _ := listInts(res[0])
			if len(vals) != 1 {
				bad = fmt.Sprintf("x12EncodeChar(0x%02X) appends %d values", ch, len(vals))
				break
			}
			resObj := paramObjs(dp, dfd)[1]
			env := map[types.Object]*Val{resObj: emptyBytes()}
			val := vals[0]
			x12Values, _, _ := dmSegmentVars(dp, dfd)
			h := &rpf{idxHook: func(rr *rpf, ix *ast.IndexExpr) (*Val, bool) {
				if x12Values != nil && identObj(dp, ix.X) == x12Values {
					return vint(val), true
				}
				return nil, false
			}, callHook: errCtorHook}
			if e := foldStmts(c, dp, inner.Body.List, env, h, &bitTraffic{}); e != nil {
				bad = "?decoder: " + e.Error()
				break
			}
			got, _ := listInts(env[resObj])
			if len(got) != 1 || got[0] != ch {
				bad = fmt.Sprintf("X12 character %q is written as value %d and read back as %v", rune(ch), val, got)
			}
		}
		reportFold(r, c, "S-DMX12", key, efd.Pos(), bad)
	} else {
		r.AnchorLost("S-DMX12", "datamatrix X12 characters", "x12EncodeChar not found")
	}
	// EDIFACT values
	efd, ep := c.funcDeclOf("datamatrix/encoder", "edifactEncodeChar")
	pfd, pp := c.funcDeclOf("datamatrix/encoder", "edifactEncodeToCodewords")
	if efd == nil || pfd == nil {
		r.AnchorLost("S-DMX12", "datamatrix EDIFACT", "edifactEncodeChar / edifactEncodeToCodewords not found")
		return
	}
	key := "datamatrix EDIFACT characters"
	r.Analysed(key)
	bad := ""
	var natives []int64
	for ch := int64(0); ch < 256 && bad == ""; ch++ {
		res, err := c.rpfCall(efd, ep, []*Val{vint(ch), emptyBytes()}, &rpf{callHook: errCtorHook})
		if err != nil {
			bad = "?encoder: " + err.Error()
			break
		}
		native := ch >= 0x20 && ch <= 0x5E
		accepted := len(res) == 2 && res[1].K == VNil
		if accepted != native {
			bad = fmt.Sprintf("edifactEncodeChar(0x%02X): accepted=%v, but the EDIFACT set %s this character", ch, accepted, map[bool]string{true: "contains", false: "does not contain"}[native])
			break
		}
		if native {
			natives = append(natives, ch)
		}
	}
	reportFold(r, c, "S-DMX12", key, efd.Pos(), bad)
	// packing + parser: quadruples sampled so that every character appears in every position
	key = "datamatrix EDIFACT packing"
	r.Analysed(key)
	bad = ""
	n := len(natives)
	for i := 0; i < n && bad == "" && n > 0; i++ {
		quad := []int64{natives[i], natives[(i*7+3)%n], natives[(i*11+5)%n], natives[(n-1-i+n)%n]}
		var vals []*Val
		for _, ch := range quad {
			res, err := c.rpfCall(efd, ep, []*Val{vint(ch), emptyBytes()}, &rpf{callHook: errCtorHook})
			if err != nil {
				bad = "?encoder: " + err.Error()
				break
			}
			vals = append(vals, res[0].L...)
		}
		if bad != "" {
			break
		}
		res, err := c.rpfCall(pfd, pp, []*Val{{K: VList, L: vals}}, &rpf{callHook: errCtorHook})
		if err != nil {
			bad = "?encoder: " + err.Error()
			break
		}
		cws, ok := listInts(res[0])
		if !ok || len(cws) != 3 || res[1].K != VNil {
			bad = fmt.Sprintf("four EDIFACT values %v are packed into %v", vals, valString(res[0]))
			break
		}
		// three more bytes so that the parser does not stop for "two or less bytes left"
		out, _, err := foldParser(c, "decodeEdifactSegment", append(append([]int64{}, cws...), 0x7C, 0, 0), []*Val{emptyBytes()})
		if err != nil {
			bad = "?decoder: " + err.Error()
			break
		}
		got, _ := listInts(out[0])
		if len(got) < 4 || fmt.Sprint(got[:4]) != fmt.Sprint(quad) {
			bad = fmt.Sprintf("EDIFACT characters %q are written as codewords %v and read back as %q", runesOf(quad), cws, runesOf(got))
		}
	}
	reportFold(r, c, "S-DMX12", key, pfd.Pos(), bad)
}

func runesOf(xs []int64) string {
	s := ""
	for _, x := range xs {
		s += string(rune(x))
	}
	return s
}

// ---------------------------------------------------------------------------------------------------------------
// S-DMTRIPLE
// ---------------------------------------------------------------------------------------------------------------

func checkDMTriples(c *Ctx, r *Report) {
	r.Rule("S-DMTRIPLE", "c40EncodeToCodewords packs three values (each 0..39) as 1600*c1 + 40*c2 + c3 + 1 into two bytes and parseTwoBytes recovers exactly those three values (sampled grid of 11^3 triples in the quick tier, all 64000 in the thorough tier)", 1)
	efd, ep := c.funcDeclOf("datamatrix/encoder", "c40EncodeToCodewords")
	dfd, dp := c.funcDeclOf("datamatrix/decoder", "parseTwoBytes")
	key := "datamatrix C40/Text/X12 triple packing"
	if efd == nil || dfd == nil {
		r.AnchorLost("S-DMTRIPLE", key, "c40EncodeToCodewords / parseTwoBytes not found")
		return
	}
	r.Analysed(key)
	set := []int64{0, 1, 2, 3, 4, 13, 14, 26, 27, 30, 39}
	if c.Tier == "thorough" {
		set = nil
		for i := int64(0); i < 40; i++ {
			set = append(set, i)
		}
	}
	bad := ""
	n := 0
	for _, c1 := range set {
		for _, c2 := range set {
			for _, c3 := range set {
				if bad != "" {
					continue
				}
				n++
				res, err := c.rpfCall(efd, ep, []*Val{{K: VList, L: []*Val{vint(c1), vint(c2), vint(c3)}}}, nil)
				if err != nil {
					bad = "?encoder: " + err.Error()
					continue
				}
				cws, ok := listInts(res[0])
				if !ok || len(cws) != 2 {
					bad = "?unexpected result of c40EncodeToCodewords"
					continue
				}
				got := map[int64]int64{}
				h := &rpf{stHook: func(rr *rpf, lhs ast.Expr, v *Val) bool {
					if ix, ok := lhs.(*ast.IndexExpr); ok && v.K == VInt {
						i := rr.expr(ix.Index)
						got[i.I] = v.I
						return true
					}
					return false
				}}
				if _, err := c.rpfCall(dfd, dp, []*Val{vint(cws[0]), vint(cws[1]), {K: VNil}}, h); err != nil {
					bad = "?decoder: " + err.Error()
					continue
				}
				if got[0] != c1 || got[1] != c2 || got[2] != c3 {
					bad = fmt.Sprintf("values (%d,%d,%d) are packed as bytes %v and unpacked as (%d,%d,%d)", c1, c2, c3, cws, got[0], got[1], got[2])
				}
			}
		}
	}
	r.Extra("dm_triples_folded", n)
	reportFold(r, c, "S-DMTRIPLE", key, efd.Pos(), bad)
}

// ---------------------------------------------------------------------------------------------------------------
// S-DMB256
// ---------------------------------------------------------------------------------------------------------------

func checkDMBase256(c *Ctx, r *Report) {
	r.Rule("S-DMB256", "Base256Encoder.encode writes, after its character loop, exactly a length field followed by the data bytes - one byte n for 1..249 bytes, two bytes (n/250 + 249, n%250) for 250..1555, and the single byte 0 when the data runs to the end of the symbol (no further characters and no padding) - and decodeBase256Segment reads each of these forms back as exactly the data bytes (as Latin-1 text): the tail of the encoder and the whole parser function are folded for data lengths 1..5, 249, 250, 251, 1555 in all three situations; the length the encoder looks the symbol up for never exceeds the codeword count the run really reaches (an over-estimate would cache a larger symbol than needed)", 2)
	fd, p := c.funcDeclOf("datamatrix/encoder", "Base256Encoder.encode")
	key := "datamatrix Base 256 length field"
	if fd == nil {
		r.AnchorLost("S-DMB256", key, "Base256Encoder.encode not found")
		return
	}
	r.Analysed(key)
	// the statements after the character loop
	var tail []ast.Stmt
	var bufObj types.Object
	seenLoop := false
	for _, st := range fd.Body.List {
		if _, ok := st.(*ast.ForStmt); ok && !seenLoop {
			seenLoop = true
			continue
		}
		if seenLoop {
			tail = append(tail, st)
		} else if as, ok := st.(*ast.AssignStmt); ok && as.Tok == token.DEFINE && len(as.Lhs) == 1 && bufObj == nil {
			bufObj = identObj(p, as.Lhs[0])
		}
	}
	if len(tail) == 0 || bufObj == nil {
		r.Undecided("S-DMB256", key, c.pos(fd.Pos()), "buffer variable / tail after the character loop not found")
		return
	}
	// what the buffer looks like after the loop: fold the statements before the loop
	prefix := func() (*Val, string) {
		rr := &rpf{c: c, p: p, env: map[types.Object]*Val{}}
		bad := ""
		func() {
			defer func() {
				if y := recover(); y != nil {
					if re, ok := y.(*rpfErr); ok {
						bad = re.Error()
						return
					}
					panic(y)
				}
			}()
			for _, st := range fd.Body.List {
				if _, ok := st.(*ast.ForStmt); ok {
					break
				}
				rr.stmt(st)
			}
		}()
		return rr.env[bufObj], bad
	}
	bad := ""
	type situation struct {
		name          string
		more, mustPad bool
	}
	for _, n := range []int64{1, 2, 3, 5, 249, 250, 251, 1555} {
		for _, sit := range []situation{{"more characters follow", true, false}, {"the symbol needs padding", false, true}, {"the data ends the symbol exactly", false, false}} {
			if bad != "" {
				continue
			}
			buf, e := prefix()
			if e != "" || buf == nil || buf.K != VList {
				bad = "?encoder prefix: " + e
				continue
			}
			buf = &Val{K: VList, Local: true, L: append([]*Val{}, buf.L...)}
			placeholders := int64(len(buf.L))
			var data []int64
			for i := int64(0); i < n; i++ {
				d := (i*37 + 0x41) % 256
				data = append(data, d)
				buf.L = append(buf.L, vint(d))
			}
			var written []int64
			const before = 3 // codewords already in the symbol
			capacity := int64(0)
			requested := int64(-1)
			h := &rpf{}
			h.callHook = func(rr *rpf, call *ast.CallExpr, callee types.Object) (*Val, bool) {
				fn, ok := callee.(*types.Func)
				if !ok {
					return nil, false
				}
				switch fn.Name() {
				case "HasMoreCharacters":
					return vbool(sit.more), true
				case "GetCodewordCount":
					return vint(before + int64(len(written))), true
				case "UpdateSymbolInfoByLength":
					cur := rr.expr(call.Args[0])
					capacity = cur.I
					requested = cur.I
					if sit.mustPad {
						capacity = cur.I + 2
					}
					return &Val{K: VNil}, true
				case "GetSymbolInfo":
					return &Val{K: VStruct, Fields: map[string]*Val{}}, true
				case "GetDataCapacity":
					return vint(capacity), true
				case "WriteCodeword":
					v := rr.expr(call.Args[0])
					if v.K != VInt {
						rpfFail("WriteCodeword of a non-constant")
					}
					written = append(written, v.I)
					return &Val{K: VNil}, true
				case "base256Randomize255State":
					// identity here: the randomisation pair is decided by S-RAND
					return rr.expr(call.Args[0]), true
				}
				return errCtorHook(rr, call, callee)
			}
			h.unroll = 4096
			rr := &rpf{c: c, p: p, env: map[types.Object]*Val{bufObj: buf}, callHook: h.callHook, unroll: 4096}
			func() {
				defer func() {
					if y := recover(); y != nil {
						if re, ok := y.(*rpfErr); ok {
							bad = "?encoder: " + re.Error()
							return
						}
						panic(y)
					}
				}()
				for _, st := range tail {
					if ret := rr.stmt(st); ret != nil {
						if len(ret.vals) == 1 && ret.vals[0].K != VNil {
							bad = fmt.Sprintf("%d data bytes, %s: the encoder reports an error", n, sit.name)
						}
						return
					}
				}
			}()
			if bad != "" {
				continue
			}
			var header []int64
			switch {
			case !sit.more && !sit.mustPad:
				header = []int64{0}
			case n <= 249:
				header = []int64{n}
			default:
				header = []int64{n/250 + 249, n % 250}
			}
			want := append(append([]int64{}, header...), data...)
			if requested > before+int64(len(written)) {
				// the symbol is looked up (and cached) for the requested length: asking for more than the run takes can
				// select a larger symbol than the content needs (C13)
				bad = fmt.Sprintf("%d data bytes, %s: the symbol is looked up for %d codewords although the run brings the count to %d only - a larger symbol than needed may be cached", n, sit.name, requested, before+int64(len(written)))
				continue
			}
			if fmt.Sprint(written) != fmt.Sprint(want) {
				show := func(xs []int64) string {
					if len(xs) > 8 {
						return fmt.Sprintf("%v... (%d bytes)", xs[:8], len(xs))
					}
					return fmt.Sprint(xs)
				}
				bad = fmt.Sprintf("%d data bytes, %s (buffer starts with %d placeholder bytes): the encoder writes %s, ISO 16022 5.2.9 needs the length field %v followed by the data %s", n, sit.name, placeholders, show(written), header, show(data))
			}
		}
	}
	reportFold(r, c, "S-DMB256", key, fd.Pos(), bad)
	// ---- parser
	key = "datamatrix Base 256 parser"
	r.Analysed(key)
	dfd, dp := c.funcDeclOf("datamatrix/decoder", "decodeBase256Segment")
	if dfd == nil {
		r.AnchorLost("S-DMB256", key, "decodeBase256Segment not found")
		return
	}
	bad = ""
	for _, n := range []int64{1, 2, 5, 249, 250, 251, 1555} {
		for _, toEnd := range []bool{false, true} {
			if bad != "" {
				continue
			}
			var data []int64
			for i := int64(0); i < n; i++ {
				data = append(data, (i*37+0x41)%256)
			}
			var header []int64
			switch {
			case toEnd:
				header = []int64{0}
			case n <= 249:
				header = []int64{n}
			default:
				header = []int64{n/250 + 249, n % 250}
			}
			stream := append(append([]int64{}, header...), data...)
			if !toEnd {
				stream = append(stream, 129) // a pad after the segment
			}
			bf := &bitFeed{bytes: stream}
			h := dmParserHooks(bf)
			base := h.callHook
			h.callHook = func(rr *rpf, call *ast.CallExpr, callee types.Object) (*Val, bool) {
				if fn, ok := callee.(*types.Func); ok && fn.Name() == "unrandomize255State" {
					return rr.expr(call.Args[0]), true // identity: see S-RAND
				}
				return base(rr, call, callee)
			}
			h.multiHook = func(call *ast.CallExpr, callee types.Object) ([]*Val, bool) {
				if isMethodNamed(callee, "common", "BitSource", "ReadBits") {
					if bf.available() < 8 {
						return []*Val{vint(0), vstr("error")}, true
					}
					return []*Val{vint(bf.read(8)), {K: VNil}}, true
				}
				return nil, false
			}
			res, err := foldWithBytesDecoder(c, dfd, dp, []*Val{{K: VNil}, emptyBytes(), {K: VList, Local: true}}, h)
			if err != nil {
				bad = "?decoder: " + err.Error()
				continue
			}
			got, _ := listInts(res[0])
			if len(res) != 3 || res[2].K != VNil {
				bad = fmt.Sprintf("a Base 256 segment of %d bytes (to end of symbol: %v) is rejected", n, toEnd)
				continue
			}
			if want := latin1UTF8(data); fmt.Sprint(got) != fmt.Sprint(want) {
				bad = fmt.Sprintf("a Base 256 segment of %d bytes (to end of symbol: %v) with length field %v is read back as %d text bytes, expected the %d data bytes as Latin-1 text", n, toEnd, header, len(got), n)
				continue
			}
			if !toEnd && bf.available() != 8 {
				bad = fmt.Sprintf("after a Base 256 segment of %d bytes the parser has %d bits left instead of the following codeword", n, bf.available())
			}
		}
	}
	reportFold(r, c, "S-DMB256", key, dfd.Pos(), bad)
}

// foldWithBytesDecoder folds fd with the x/text Latin-1 decoder call modelled (Bytes(b) -> UTF-8 of b).
func foldWithBytesDecoder(c *Ctx, fd *ast.FuncDecl, p *packages.Package, args []*Val, h *rpf) ([]*Val, error) {
	inner := h.multiHook
	h2 := *h
	h2.multiHook = func(call *ast.CallExpr, callee types.Object) ([]*Val, bool) {
		if fn, ok := callee.(*types.Func); ok && fn.Name() == "Bytes" && fn.Pkg() != nil && strings.Contains(fn.Pkg().Path(), "golang.org/x/text") && len(call.Args) == 1 {
			bs, ok := listInts(rpfCurrent.expr(call.Args[0]))
			if !ok {
				rpfFail("Latin-1 decoder applied to a non-constant buffer")
			}
			out := &Val{K: VList}
			for _, b := range latin1UTF8(bs) {
				out.L = append(out.L, vint(b))
			}
			return []*Val{out, {K: VNil}}, true
		}
		if inner != nil {
			return inner(call, callee)
		}
		return nil, false
	}
	return c.rpfCall(fd, p, args, &h2)
}

// ---------------------------------------------------------------------------------------------------------------
// S-DMMACRO, S-DMEOD
// ---------------------------------------------------------------------------------------------------------------

func checkDMMacros(c *Ctx, r *Report) {
	r.Rule("S-DMMACRO", "EncodeHighLevel replaces an envelope by the macro codeword only when the text both starts with that macro's header and ends with the trailer (then: WriteCodeword(MACRO_0x), two characters skipped at the end, the cursor moved past the header), and the parser expands 236 / 237 to exactly those header and trailer strings", 3)
	fd, p := c.funcDeclOf("datamatrix/encoder", "EncodeHighLevel")
	if fd == nil {
		r.AnchorLost("S-DMMACRO", "datamatrix/encoder.EncodeHighLevel", "function not found")
		return
	}
	msgObj := paramObjs(p, fd)[0]
	trailer, _ := strConst(c, "datamatrix/encoder", "HighLevelEncoder_MACRO_TRAILER")
	for _, m := range []string{"05", "06"} {
		key := "datamatrix/encoder.EncodeHighLevel/macro " + m
		r.Analysed(key)
		var site *ast.CallExpr
		for _, call := range findCalls(p, fd.Body, func(o types.Object) bool { fn, ok := o.(*types.Func); return ok && fn.Name() == "WriteCodeword" }) {
			if id, ok := call.Args[0].(*ast.Ident); ok && id.Name == "HighLevelEncoder_MACRO_"+m {
				site = call
			}
		}
		if site == nil {
			r.Fail("S-DMMACRO", key, c.pos(fd.Pos()), "violation", "the macro codeword is never written")
			continue
		}
		// the conditions under which the site is reached (this arm true)
		gi, _ := guardsOf(fd.Body, enclosingStmt(fd.Body, site))
		var conjuncts []ast.Expr
		var collect func(e ast.Expr)
		collect = func(e ast.Expr) {
			e = ast.Unparen(e)
			if be, ok := e.(*ast.BinaryExpr); ok && be.Op == token.LAND {
				collect(be.X)
				collect(be.Y)
				return
			}
			// a boolean variable defined from an expression
			if id := identObj(p, e); id != nil {
				ast.Inspect(fd.Body, func(n ast.Node) bool {
					if as, ok := n.(*ast.AssignStmt); ok && as.Tok == token.DEFINE && len(as.Lhs) == 1 && identObj(p, as.Lhs[0]) == id {
						collect(as.Rhs[0])
					}
					return true
				})
				return
			}
			conjuncts = append(conjuncts, e)
		}
		var arm *ast.IfStmt
		for _, e := range gi.Enclosing {
			if ifs, ok := e.Node.(*ast.IfStmt); ok && e.Branch {
				collect(ifs.Cond)
				arm = ifs
			}
		}
		hasPrefix, hasSuffix := false, false
		for _, cj := range conjuncts {
			call, ok := cj.(*ast.CallExpr)
			if !ok || len(call.Args) != 2 || identObj(p, call.Args[0]) != msgObj {
				continue
			}
			fn, _ := typeutil.Callee(p.TypesInfo, call).(*types.Func)
			if fn == nil || fn.Pkg() == nil || fn.Pkg().Path() != "strings" {
				continue
			}
			arg, _ := call.Args[1].(*ast.Ident)
			if fn.Name() == "HasPrefix" && arg != nil && arg.Name == "HighLevelEncoder_MACRO_"+m+"_HEADER" {
				hasPrefix = true
			}
			if fn.Name() == "HasSuffix" && arg != nil && arg.Name == "HighLevelEncoder_MACRO_TRAILER" {
				hasSuffix = true
			}
		}
		bad := ""
		switch {
		case !hasPrefix:
			bad = "macro " + m + " is written without testing that the text starts with HighLevelEncoder_MACRO_" + m + "_HEADER"
		case !hasSuffix:
			bad = "macro " + m + " is written without testing that the text ends with the macro trailer: the last two characters are then dropped and the reader appends a trailer that was never there"
		}
		if bad == "" && arm != nil {
			skip, adv := false, false
			for _, call := range findCalls(p, arm.Body, func(o types.Object) bool { fn, ok := o.(*types.Func); return ok && fn.Name() == "SetSkipAtEnd" }) {
				if v, isK := constInt(p, call.Args[0]); isK && v == int64(len(trailer)) {
					skip = true
				}
			}
			ast.Inspect(arm.Body, func(n ast.Node) bool {
				if as, ok := n.(*ast.AssignStmt); ok && as.Tok == token.ADD_ASSIGN && len(as.Lhs) == 1 {
					if sel, isS := as.Lhs[0].(*ast.SelectorExpr); isS && sel.Sel.Name == "pos" && strings.Contains(exprString(as.Rhs[0]), "HighLevelEncoder_MACRO_"+m+"_HEADER") {
						adv = true
					}
				}
				return true
			})
			if !skip || !adv {
				bad = fmt.Sprintf("macro %s: trailer characters skipped at the end = %v (need %d), cursor moved past the header = %v", m, skip, len(trailer), adv)
			}
		}
		r.Check(bad == "", "S-DMMACRO", key, c.pos(site.Pos()), bad)
	}
	// parser: strings equal the encoder's constants
	key := "datamatrix/decoder.decodeAsciiSegment/macros"
	r.Analysed(key)
	bad := ""
	for _, t := range []struct {
		cw int64
		m  string
	}{{236, "05"}, {237, "06"}} {
		header, okH := strConst(c, "datamatrix/encoder", "HighLevelEncoder_MACRO_"+t.m+"_HEADER")
		if !okH {
			bad = "?macro header constants not found"
			break
		}
		res, _, err := foldParser(c, "decodeAsciiSegment", []int64{t.cw, 66, 129}, []*Val{emptyBytes(), emptyBytes(), {K: VNil}})
		if err != nil {
			bad = "?" + err.Error()
			break
		}
		got, _ := listInts(res[1])
		tr, _ := listInts(res[2])
		if runesOf(got) != header+"A" || runesOf(tr) != trailer {
			bad = fmt.Sprintf("codeword %d followed by 'A' is read as text %q with trailer %q; the writer removed header %q and trailer %q", t.cw, runesOf(got), runesOf(tr), header, trailer)
		}
	}
	pos := ""
	if dfd, _ := c.funcDeclOf("datamatrix/decoder", "decodeAsciiSegment"); dfd != nil {
		pos = c.pos(dfd.Pos())
	}
	if bad != "" && bad[0] == '?' {
		r.Undecided("S-DMMACRO", key, pos, bad[1:])
	} else {
		r.Check(bad == "", "S-DMMACRO", key, pos, bad)
	}
}

func checkDMX12EOD(c *Ctx, r *Report) {
	r.Rule("S-DMEOD", "x12HandleEOD leaves out the unlatch codeword only when the parser will leave X12 mode by itself - at most one codeword of the symbol remains and what is left of the text fits it (remaining characters, symbol space) in {(0,0), (1,1), (0,1)} - folded over message lengths, cursor positions, buffered characters and free codewords; the rewind of the buffered characters happens before the count is taken", 1)
	fd, p := c.funcDeclOf("datamatrix/encoder", "x12HandleEOD")
	key := "datamatrix/encoder.x12HandleEOD"
	if fd == nil {
		r.AnchorLost("S-DMEOD", key, "function not found")
		return
	}
	r.Analysed(key)
	ps := paramObjs(p, fd)
	unlatch, _ := constValIn(c, "datamatrix/encoder", "HighLevelEncoder_X12_UNLATCH")
	bad := ""
	n := 0
	for L := int64(0); L <= 6 && bad == ""; L++ {
		for pos := int64(0); pos <= L && bad == ""; pos++ {
			for count := int64(0); count <= 2 && count <= pos && bad == ""; count++ {
				for avail := int64(0); avail <= 3 && bad == ""; avail++ {
					n++
					curPos := pos
					var written []int64
					const cw = 5
					h := &rpf{}
					h.selHook = func(rr *rpf, sel *ast.SelectorExpr) (*Val, bool) {
						if sel.Sel.Name == "pos" {
							return vint(curPos), true
						}
						return nil, false
					}
					h.stHook = func(rr *rpf, lhs ast.Expr, v *Val) bool {
						if sel, ok := lhs.(*ast.SelectorExpr); ok && sel.Sel.Name == "pos" && v.K == VInt {
							curPos = v.I
							return true
						}
						return false
					}
					h.callHook = func(rr *rpf, call *ast.CallExpr, callee types.Object) (*Val, bool) {
						fn, ok := callee.(*types.Func)
						if !ok {
							return nil, false
						}
						switch fn.Name() {
						case "UpdateSymbolInfo":
							return &Val{K: VNil}, true
						case "GetSymbolInfo":
							return &Val{K: VStruct, Fields: map[string]*Val{}}, true
						case "GetDataCapacity":
							return vint(cw + avail), true
						case "GetCodewordCount":
							return vint(cw + int64(len(written))), true
						case "GetRemainingCharacters":
							return vint(L - curPos), true
						case "HasMoreCharacters":
							return vbool(curPos < L), true
						case "GetNewEncoding":
							return vint(-1), true
						case "SignalEncoderChange":
							return &Val{K: VNil}, true
						case "WriteCodeword":
							v := rr.expr(call.Args[0])
							written = append(written, v.I)
							return &Val{K: VNil}, true
						}
						return errCtorHook(rr, call, callee)
					}
					buf := &Val{K: VList}
					for i := int64(0); i < count; i++ {
						buf.L = append(buf.L, vint(4))
					}
					res, err := c.rpfCall(fd, p, []*Val{{K: VNil}, buf}, h)
					_ = ps
					if err != nil {
						bad = "?" + err.Error()
						break
					}
					if len(res) != 1 || res[0].K != VNil {
						continue // an error is never a wrong symbol
					}
					remaining := L - (pos - count)
					wrote := false
					for _, w := range written {
						if w == unlatch {
							wrote = true
						}
					}
					if curPos != pos-count {
						bad = fmt.Sprintf("message of %d characters, cursor %d, %d buffered: the cursor is left at %d, the buffered characters must be handed back (cursor %d)", L, pos, count, curPos, pos-count)
						break
					}
					allowed := (remaining == 0 && avail == 0) || (remaining == 1 && avail == 1) || (remaining == 0 && avail == 1)
					if !wrote && !allowed {
						bad = fmt.Sprintf("message of %d characters, cursor %d, %d buffered, %d free codewords in the symbol: no unlatch is written although %d characters remain for %d free codewords - the parser stays in X12 mode and reads the following ASCII codewords as X12 pairs", L, pos, count, avail, remaining, avail)
					}
				}
			}
		}
	}
	r.Extra("x12_eod_states", n)
	reportFold(r, c, "S-DMEOD", key, fd.Pos(), bad)
}

// S-DMEDIEOD: EDIFACT end of data - the encoder's unlatch decision against the parser's implicit exit
func checkDMEdifactEOD(c *Ctx, r *Report) {
	r.Rule("S-DMEDIEOD", "edifactHandleEOD and decodeEdifactSegment agree on when EDIFACT mode ends without an unlatch: the parser's exit test at a group boundary is folded for 0..5 remaining codewords (it leaves the mode iff at most K remain), and edifactHandleEOD, folded on a model of the encoder context (real symbol capacities, cursor, codeword count) over message tails, buffered characters and free codewords, (a) leaves the unlatch out only when, in the symbol finally needed, at most K codewords remain after what it wrote and the rest of the text fits them, and (b) never starts a group with fewer than K+1 codewords left, which the parser would not read as EDIFACT", 1)
	efd, ep := c.funcDeclOf("datamatrix/encoder", "edifactHandleEOD")
	dfd, dp := c.funcDeclOf("datamatrix/decoder", "decodeEdifactSegment")
	key := "datamatrix/encoder.edifactHandleEOD"
	if efd == nil || dfd == nil {
		r.AnchorLost("S-DMEDIEOD", key, "edifactHandleEOD / decodeEdifactSegment not found")
		return
	}
	r.Analysed(key)
	r.Analysed("datamatrix/decoder.decodeEdifactSegment")
	// ---- parser: the first statement of the loop body is the exit test on bits.Available()
	var exitIf *ast.IfStmt
	ast.Inspect(dfd.Body, func(n ast.Node) bool {
		if f, ok := n.(*ast.ForStmt); ok && exitIf == nil && len(f.Body.List) > 0 {
			if ifs, ok := f.Body.List[0].(*ast.IfStmt); ok && ifs.Init == nil && ifs.Else == nil && len(ifs.Body.List) == 1 {
				if _, isRet := ifs.Body.List[0].(*ast.ReturnStmt); isRet {
					exitIf = ifs
				}
			}
		}
		return true
	})
	if exitIf == nil {
		r.AnchorLost("S-DMEDIEOD", "datamatrix/decoder.decodeEdifactSegment", "no exit test at the top of the group loop")
		return
	}
	K := int64(-1)
	monotone := true
	for cwLeft := int64(1); cwLeft <= 5; cwLeft++ {
		h := &rpf{}
		h.callHook = func(rr *rpf, call *ast.CallExpr, callee types.Object) (*Val, bool) {
			if isMethodNamed(callee, "common", "BitSource", "Available") {
				return vint(8 * cwLeft), true
			}
			return nil, false
		}
		rr := &rpf{c: c, p: dp, env: map[types.Object]*Val{}, callHook: h.callHook}
		v, err := rr.tryExpr(exitIf.Cond)
		if err != nil || v.K != VBool {
			r.Undecided("S-DMEDIEOD", "datamatrix/decoder.decodeEdifactSegment", c.pos(exitIf.Pos()), "exit test is not a function of bits.Available()")
			return
		}
		if v.B {
			if cwLeft != 1 && K != cwLeft-1 {
				monotone = false
			}
			K = cwLeft
		}
	}
	if K < 0 {
		K = 0
	}
	r.Check(monotone && K == 2, "S-DMEDIEOD", "datamatrix/decoder.decodeEdifactSegment exit", c.pos(exitIf.Pos()), fmt.Sprintf("the parser leaves EDIFACT mode at a group boundary when at most %d codewords remain; ISO 16022 5.2.8.2 says one or two", K))
	// ---- encoder
	caps := []int64{3, 5, 8, 12, 18, 22, 30, 36, 44}
	capFor := func(n int64) int64 {
		for _, cp := range caps {
			if cp >= n {
				return cp
			}
		}
		return -1
	}
	bad := ""
	states := 0
	for _, cw := range []int64{1, 2, 3, 4, 5, 6, 7, 8, 9, 10, 11, 12, 16, 17, 18} {
		for remX := int64(0); remX <= 9 && bad == ""; remX++ {
			// rem characters follow; ext: they are characters above 0x7F, which take two codewords each in ASCII encodation
			rem, ext := remX%5, remX >= 5
			if ext && rem == 0 {
				continue
			}
			for count := int64(1); count <= 4 && bad == ""; count++ {
				// cw codewords written so far; count-1 characters and the unlatch are buffered; rem characters follow
				states++
				L := int64(20)
				pos := L - rem
				curPos := pos
				var written []int64
				symCap := int64(-1)
				h := &rpf{unroll: 100}
				msgVal := &Val{K: VList}
				for i := int64(0); i < L; i++ {
					ch := int64('A')
					if i >= pos {
						ch = 'a'
						if ext {
							ch = 0xE9
						}
					}
					msgVal.L = append(msgVal.L, &Val{K: VInt, I: ch, T: types.Typ[types.Byte]})
				}
				h.selHook = func(rr *rpf, sel *ast.SelectorExpr) (*Val, bool) {
					switch sel.Sel.Name {
					case "pos":
						return vint(curPos), true
					case "msg":
						return msgVal, true
					case "skipAtEnd":
						return vint(0), true
					}
					return nil, false
				}
				h.stHook = func(rr *rpf, lhs ast.Expr, v *Val) bool {
					if sel, ok := lhs.(*ast.SelectorExpr); ok && sel.Sel.Name == "pos" && v.K == VInt {
						curPos = v.I
						return true
					}
					return false
				}
				h.callHook = func(rr *rpf, call *ast.CallExpr, callee types.Object) (*Val, bool) {
					fn, ok := callee.(*types.Func)
					if !ok {
						return nil, false
					}
					total := cw + int64(len(written))
					switch fn.Name() {
					case "GetMessage":
						return msgVal, true
					case "GetCurrentChar":
						if curPos < 0 || curPos >= L {
							rpfFail("GetCurrentChar outside the message")
						}
						return msgVal.L[curPos], true
					case "UpdateSymbolInfo":
						if symCap < total {
							symCap = capFor(total)
						}
						return &Val{K: VNil}, true
					case "UpdateSymbolInfoByLength":
						n := rr.expr(call.Args[0])
						if n.K != VInt {
							rpfFail("UpdateSymbolInfoByLength with a non-constant length")
						}
						if symCap < n.I {
							symCap = capFor(n.I)
						}
						if symCap < 0 {
							return vstr("error"), true
						}
						return &Val{K: VNil}, true
					case "ResetSymbolInfo":
						symCap = -1
						return &Val{K: VNil}, true
					case "GetSymbolInfo":
						return &Val{K: VStruct, Fields: map[string]*Val{}}, true
					case "GetDataCapacity":
						if symCap < 0 {
							rpfFail("symbol info read while unset")
						}
						return vint(symCap), true
					case "GetCodewordCount":
						return vint(total), true
					case "GetRemainingCharacters":
						return vint(L - curPos), true
					case "HasMoreCharacters":
						return vbool(curPos < L), true
					case "SignalEncoderChange":
						return &Val{K: VNil}, true
					case "WriteCodewords":
						v := rr.expr(call.Args[0])
						if v.K != VList {
							rpfFail("WriteCodewords with a non-constant argument")
						}
						for _, e := range v.L {
							written = append(written, e.I)
						}
						return &Val{K: VNil}, true
					}
					return errCtorHook(rr, call, callee)
				}
				buf := &Val{K: VList}
				for i := int64(0); i < count-1; i++ {
					buf.L = append(buf.L, vint(33+i)) // '!', '"', '#'
				}
				buf.L = append(buf.L, vint(31))
				res, err := c.rpfCall(efd, ep, []*Val{{K: VNil}, buf}, h)
				if err != nil {
					bad = "?" + err.Error()
					break
				}
				if len(res) != 1 || res[0].K != VNil {
					continue // an error is never a wrong symbol
				}
				after := cw + int64(len(written))
				remAfter := L - curPos
				// what follows is written in ASCII encodation: one codeword per character, two for a character above 0x7F (only
				// the rem characters after the cursor can be such; handed-back buffered characters are EDIFACT characters)
				need := remAfter
				if ext {
					need += rem
				}
				finalCap := capFor(after + need)
				if finalCap < 0 {
					continue
				}
				kind := "character(s)"
				if ext {
					kind = "character(s) above 0x7F (two codewords each)"
				}
				where := fmt.Sprintf("%d codewords written, %d character(s) and the unlatch buffered, %d %s to follow", cw, count-1, rem, kind)
				if len(written) == 0 {
					// nothing written: no unlatch in the stream, the parser must leave by itself at this group boundary
					if finalCap-after > K {
						bad = fmt.Sprintf("%s: no unlatch is written although the symbol finally needed (%d data codewords) leaves %d codewords after the EDIFACT groups - the parser leaves the mode by itself only for at most %d and reads what follows as EDIFACT characters", where, finalCap, finalCap-after, K)
					}
					continue
				}
				// a group was written: the parser must still be in EDIFACT mode when it starts
				if finalCap-cw <= K {
					bad = fmt.Sprintf("%s: a last group (with the unlatch) is written although only %d codeword(s) of the %d-codeword symbol are left - the parser has already left EDIFACT mode there and reads the group as ASCII", where, finalCap-cw, finalCap)
				}
			}
		}
	}
	r.Extra("edifact_eod_states", states)
	reportFold(r, c, "S-DMEDIEOD", key, efd.Pos(), bad)
}

// M-DMCHARSET: the message is transcoded with ISO-8859-1, the character set the parser's text model assumes
func checkDMCharset(c *Ctx, r *Report) {
	r.Rule("M-DMCHARSET", "NewEncoderContext converts the message with charmap.ISO8859_1.NewEncoder().Bytes - the very character set in which the parser hands the codewords back as text - returns an error, and no context, when that conversion fails (text outside ISO-8859-1 is refused, never written as other characters), and builds the context's message from the converted bytes only", 1)
	f := c.ssaFunc("datamatrix/encoder", "NewEncoderContext")
	key := "datamatrix/encoder.NewEncoderContext"
	if f == nil {
		r.AnchorLost("M-DMCHARSET", key, "function not found")
		return
	}
	r.Analysed(key)
	var conv *ssa.Call
	bad := ""
	for _, b := range f.Blocks {
		for _, in := range b.Instrs {
			call, ok := in.(*ssa.Call)
			if !ok {
				continue
			}
			g := call.Call.StaticCallee()
			if g == nil || g.Name() != "Bytes" || g.Pkg == nil || g.Pkg.Pkg.Path() != "golang.org/x/text/encoding" {
				continue
			}
			if conv != nil {
				bad = "more than one conversion of the message"
			}
			conv = call
		}
	}
	if conv == nil && bad == "" {
		bad = "the message is not converted with an encoding.Encoder's Bytes"
	}
	if bad == "" {
		// receiver: (*charmap.Charmap).NewEncoder() on the package variable charmap.ISO8859_1
		recv := conv.Call.Args[0]
		ne, ok := recv.(*ssa.Call)
		okEnc := false
		if ok {
			if g := ne.Call.StaticCallee(); g != nil && g.Name() == "NewEncoder" && len(ne.Call.Args) == 1 {
				if ld, ok := ne.Call.Args[0].(*ssa.UnOp); ok && ld.Op == token.MUL {
					if gl, ok := ld.X.(*ssa.Global); ok && gl.Name() == "ISO8859_1" && gl.Pkg != nil && gl.Pkg.Pkg.Path() == "golang.org/x/text/encoding/charmap" {
						okEnc = true
					} else if ok {
						bad = fmt.Sprintf("the message is converted with %s, the parser's text model is ISO-8859-1", gl.Name())
					}
				}
			}
		}
		if !okEnc && bad == "" {
			bad = "the encoder is not charmap.ISO8859_1.NewEncoder()"
		}
	}
	if bad == "" {
		// the conversion error leads to an error return without a context
		var errVal ssa.Value
		for _, ref := range *conv.Referrers() {
			if ex, ok := ref.(*ssa.Extract); ok && ex.Index == 1 {
				errVal = ex
			}
		}
		okErr := false
		if errVal != nil {
			for _, b := range f.Blocks {
				if len(b.Instrs) == 0 {
					continue
				}
				iff, ok := b.Instrs[len(b.Instrs)-1].(*ssa.If)
				if !ok {
					continue
				}
				bo, ok := iff.Cond.(*ssa.BinOp)
				if !ok || bo.Op != token.NEQ || bo.X != errVal {
					continue
				}
				for _, in := range b.Succs[0].Instrs {
					if ret, ok := in.(*ssa.Return); ok && len(ret.Results) == 2 {
						if cst, isC := ret.Results[0].(*ssa.Const); isC && cst.IsNil() {
							if cst2, isC2 := ret.Results[1].(*ssa.Const); !isC2 || !cst2.IsNil() {
								okErr = true
							}
						}
					}
				}
			}
		}
		if !okErr {
			bad = "a failed conversion does not lead to (nil, error)"
		}
	}
	r.Check(bad == "", "M-DMCHARSET", key, c.pos(f.Pos()), bad)
}

// M-DMNATIVE: a character outside the mode's set must not make the whole encoding fail
func checkDMNativeChars(c *Ctx, r *Report) {
	r.Rule("M-DMNATIVE", "the X12 and EDIFACT mode encoders can only write their own character sets; look-ahead may put them in charge although a later character of the current triplet / quadruple is outside the set. Such a character must be tested for before it is handed to x12EncodeChar / edifactEncodeChar (and the mode left), otherwise the character encoder's error becomes the result of the whole encoding and a text that fits is refused", 2)
	for _, t := range []struct{ recv, charFn string }{{"X12Encoder", "x12EncodeChar"}, {"EdifactEncoder", "edifactEncodeChar"}} {
		f := c.ssaFunc("datamatrix/encoder", t.recv+".encode")
		key := "datamatrix/encoder." + t.recv + ".encode"
		if f == nil {
			r.AnchorLost("M-DMNATIVE", key, "method not found")
			continue
		}
		r.Analysed(key)
		bad := ""
		for _, b := range f.Blocks {
			for _, in := range b.Instrs {
				call, ok := in.(*ssa.Call)
				if !ok {
					continue
				}
				g := call.Call.StaticCallee()
				if g == nil || g.Name() != t.charFn {
					continue
				}
				// is the character tested by a native-set predicate on a dominating branch?
				ch := call.Call.Args[0]
				guarded := false
				for _, blk := range f.Blocks {
					if len(blk.Instrs) == 0 {
						continue
					}
					iff, ok := blk.Instrs[len(blk.Instrs)-1].(*ssa.If)
					if !ok {
						continue
					}
					cond := iff.Cond
					if u, isU := cond.(*ssa.UnOp); isU && u.Op == token.NOT {
						cond = u.X
					}
					pc, ok := cond.(*ssa.Call)
					if !ok || len(pc.Call.Args) != 1 || pc.Call.Args[0] != ch {
						continue
					}
					if pg := pc.Call.StaticCallee(); pg == nil || !strings.Contains(strings.ToLower(pg.Name()), "native") {
						continue
					}
					for _, succ := range blk.Succs {
						if len(succ.Preds) == 1 && (succ == b || succ.Dominates(b)) {
							guarded = true
						}
					}
				}
				if guarded {
					continue
				}
				// does the call's error reach a return of encode?
				for _, ref := range *call.Referrers() {
					ex, ok := ref.(*ssa.Extract)
					if !ok || ex.Index != 1 {
						continue
					}
					for _, r2 := range *ex.Referrers() {
						if _, isRet := r2.(*ssa.Return); isRet {
							bad = fmt.Sprintf("the error of %s for a character outside the set is returned as the result of the encoding (%s); the character is not tested before", t.charFn, c.pos(call.Pos()))
						}
					}
				}
			}
		}
		r.Check(bad == "", "M-DMNATIVE", key, c.pos(f.Pos()), bad)
	}
}

// S-DMC40EOD: C40 / Text end of data against the parser's exit tests
func checkDMC40EOD(c *Ctx, r *Report) {
	r.Rule("S-DMC40EOD", "c40HandleEOD (shared by the C40 and Text encoders), folded on a model of the encoder context (real symbol capacities, cursor, codeword count) over the states its callers produce (buffered values 0..5 - a mode switch only on a triplet boundary; at the end of the text two pending values only with exactly two codewords free, one only with exactly one -, codewords written, characters to follow): whatever it leaves the parser can follow - with no unlatch written, at most one codeword of the symbol finally needed remains after the triplets (the parser leaves C40 mode by itself at the end of the symbol or with exactly one codeword left; a final unlatch codeword there is tolerated in ASCII mode); every buffered value is written or handed back; and no unlatch is written when the triplets fill the needed symbol exactly and nothing follows (it would force a larger symbol, or none when the largest permitted is already full)", 1)
	fd, p := c.funcDeclOf("datamatrix/encoder", "c40HandleEOD")
	key := "datamatrix/encoder.c40HandleEOD"
	if fd == nil {
		r.AnchorLost("S-DMC40EOD", key, "function not found")
		return
	}
	r.Analysed(key)
	unlatch, _ := constValIn(c, "datamatrix/encoder", "HighLevelEncoder_C40_UNLATCH")
	caps := []int64{3, 5, 8, 12, 18, 22, 30, 36, 44}
	capFor := func(n int64) int64 {
		for _, cp := range caps {
			if cp >= n {
				return cp
			}
		}
		return -1
	}
	bad := ""
	states := 0
	for _, cw := range []int64{1, 2, 3, 4, 5, 6, 7, 8, 9, 10, 11, 12, 16, 17, 18, 20, 21, 22} {
		for bufLen := int64(0); bufLen <= 5 && bad == ""; bufLen++ {
			for rem := int64(0); rem <= 2 && bad == ""; rem++ {
				// states the callers produce (C40Encoder.encode): a mode switch happens on triplet boundaries only, and at the
				// end of the text its backtracking leaves two pending values only with exactly two codewords free and one
				// pending value only with exactly one
				{
					rest := bufLen % 3
					cur := cw + bufLen/3*2
					capNow := capFor(cur)
					if capNow < 0 || (rem > 0 && rest != 0) || (rest == 2 && capNow-cur != 2) || (rest == 1 && capNow-cur != 1) {
						continue
					}
				}
				states++
				L := int64(30)
				pos := L - rem
				curPos := pos
				var written []int64
				symCap := int64(-1)
				h := &rpf{unroll: 100}
				h.selHook = func(rr *rpf, sel *ast.SelectorExpr) (*Val, bool) {
					if sel.Sel.Name == "pos" {
						return vint(curPos), true
					}
					return nil, false
				}
				h.stHook = func(rr *rpf, lhs ast.Expr, v *Val) bool {
					if sel, ok := lhs.(*ast.SelectorExpr); ok && sel.Sel.Name == "pos" && v.K == VInt {
						curPos = v.I
						return true
					}
					return false
				}
				h.callHook = func(rr *rpf, call *ast.CallExpr, callee types.Object) (*Val, bool) {
					fn, ok := callee.(*types.Func)
					if !ok {
						return nil, false
					}
					total := cw + int64(len(written))
					switch fn.Name() {
					case "UpdateSymbolInfo":
						if symCap < total {
							symCap = capFor(total)
						}
						return &Val{K: VNil}, true
					case "UpdateSymbolInfoByLength":
						n := rr.expr(call.Args[0])
						if n.K != VInt {
							rpfFail("UpdateSymbolInfoByLength with a non-constant length")
						}
						if symCap < n.I {
							symCap = capFor(n.I)
						}
						if symCap < 0 {
							return vstr("error"), true
						}
						return &Val{K: VNil}, true
					case "GetSymbolInfo":
						return &Val{K: VStruct, Fields: map[string]*Val{}}, true
					case "GetDataCapacity":
						if symCap < 0 {
							rpfFail("symbol info read while unset")
						}
						return vint(symCap), true
					case "GetCodewordCount":
						return vint(total), true
					case "GetRemainingCharacters":
						return vint(L - curPos), true
					case "HasMoreCharacters":
						return vbool(curPos < L), true
					case "SignalEncoderChange":
						return &Val{K: VNil}, true
					case "WriteCodeword":
						v := rr.expr(call.Args[0])
						if v.K != VInt {
							rpfFail("WriteCodeword of a non-constant")
						}
						written = append(written, v.I)
						return &Val{K: VNil}, true
					case "WriteCodewords":
						v := rr.expr(call.Args[0])
						xs, ok := listInts(v)
						if !ok {
							rpfFail("WriteCodewords of a non-constant list")
						}
						written = append(written, xs...)
						return &Val{K: VNil}, true
					}
					return errCtorHook(rr, call, callee)
				}
				buf := &Val{K: VList}
				for i := int64(0); i < bufLen; i++ {
					buf.L = append(buf.L, &Val{K: VInt, I: 14 + i, T: types.Typ[types.Byte]}) // C40 values of 'A', 'B', ...
				}
				res, err := c.rpfCall(fd, p, []*Val{{K: VNil}, buf}, h)
				if err != nil {
					bad = "?" + err.Error()
					break
				}
				if len(res) != 1 || res[0].K != VNil {
					continue // an error is never a wrong symbol
				}
				where := fmt.Sprintf("%d codewords written, %d C40 values buffered, %d character(s) to follow", cw, bufLen, rem)
				wroteUnlatch := len(written) > 0 && written[len(written)-1] == unlatch
				pairs := int64(len(written))
				if wroteUnlatch {
					pairs--
				}
				if pairs%2 != 0 {
					bad = where + ": an odd number of codewords is written for the triplets"
					break
				}
				handedBack := pos - curPos // characters returned to the cursor (re-encoded in ASCII)
				if handedBack < 0 || handedBack > 1 {
					bad = fmt.Sprintf("%s: the cursor moves from %d to %d", where, pos, curPos)
					break
				}
				// values accounted for: 3 per pair (a pad value may complete the last triplet), plus a handed-back character
				if pairs/2*3 < bufLen-handedBack {
					bad = fmt.Sprintf("%s: %d buffered values, only %d written and %d handed back", where, bufLen, pairs/2*3, handedBack)
					break
				}
				afterPairs := cw + pairs
				need := L - curPos // ASCII codewords for what follows (one per character here)
				if wroteUnlatch {
					finalCap := capFor(afterPairs + 1 + need)
					if finalCap < 0 {
						continue
					}
					// (an unlatch in the very last codeword is read in ASCII mode, where the parser tolerates a final 254)
					// was it needed? without it the symbol for afterPairs + need codewords:
					if without := capFor(afterPairs); need == 0 && without == afterPairs && without < finalCap {
						bad = fmt.Sprintf("%s: the triplets end the message and fill the %d-codeword symbol exactly, where the parser leaves C40 mode by itself; the unlatch that is written forces the %d-codeword symbol (or none, when the smaller one is the largest permitted)", where, without, finalCap)
						break
					}
					continue
				}
				finalCap := capFor(afterPairs + need)
				if finalCap < 0 {
					continue
				}
				if finalCap-afterPairs > 1 {
					bad = fmt.Sprintf("%s: no unlatch is written although the symbol finally needed (%d data codewords) leaves %d codewords after the triplets - the parser stays in C40 mode and reads what follows as C40 pairs", where, finalCap, finalCap-afterPairs)
				}
			}
		}
	}
	r.Extra("c40_eod_states", states)
	reportFold(r, c, "S-DMC40EOD", key, fd.Pos(), bad)
}

// S-DMEDIDEC: where the EDIFACT segment parser stops
func checkDMEdifactDecode(c *Ctx, r *Report) {
	r.Rule("S-DMEDIDEC", "decodeEdifactSegment, folded over a model bit source: for an unlatch (011111) in each of the four positions of a group, after 0, 1 and 2 complete groups, the parser returns exactly the characters before the unlatch and leaves the source at the next codeword boundary - the rest of the codeword the unlatch ends in is skipped, and when the unlatch ends on a boundary (fourth position) nothing more is consumed, so the codeword that follows (ASCII data, a latch, or the first pad) is read by the ASCII parser; with 16 or fewer bits left the segment ends without reading", 1)
	fd, p := c.funcDeclOf("datamatrix/decoder", "decodeEdifactSegment")
	key := "datamatrix/decoder.decodeEdifactSegment"
	if fd == nil {
		r.AnchorLost("S-DMEDIDEC", key, "function not found")
		return
	}
	r.Analysed(key)
	bad := ""
	folds := 0
	for groups := 0; groups <= 2 && bad == ""; groups++ {
		for pos := 0; pos < 4 && bad == ""; pos++ {
			// values: complete groups of data, then pos data values, the unlatch, zero fill to the boundary, then three
			// ASCII codewords
			var vals []int64
			var want []int64
			for i := 0; i < groups*4+pos; i++ {
				v := int64(1 + (i*7)%30) // 6-bit values 1..30: 'A'..
				if i%3 == 2 {
					v = 0x30 + int64(i%10) // a digit: values with the leading bit set stay as they are
				}
				vals = append(vals, v)
				ch := v
				if v&0x20 == 0 {
					ch |= 0x40
				}
				want = append(want, ch)
			}
			vals = append(vals, 0x1F)
			var bitsArr []bool
			for _, v := range vals {
				for b := 5; b >= 0; b-- {
					bitsArr = append(bitsArr, v>>uint(b)&1 == 1)
				}
			}
			for len(bitsArr)%8 != 0 {
				bitsArr = append(bitsArr, false)
			}
			boundary := len(bitsArr)
			for _, cw := range []int64{0x42, 0x43, 129} {
				for b := 7; b >= 0; b-- {
					bitsArr = append(bitsArr, cw>>uint(b)&1 == 1)
				}
			}
			at := 0
			h := &rpf{unroll: 64}
			h.callHook = func(rr *rpf, call *ast.CallExpr, callee types.Object) (*Val, bool) {
				switch {
				case isMethodNamed(callee, "common", "BitSource", "Available"):
					return vint(int64(len(bitsArr) - at)), true
				case isMethodNamed(callee, "common", "BitSource", "GetBitOffset"):
					return vint(int64(at % 8)), true
				case isMethodNamed(callee, "common", "BitSource", "GetByteOffset"):
					return vint(int64(at / 8)), true
				case isMethodNamed(callee, "common", "BitSource", "ReadBits"):
					// statement position: value and error dropped
					n := rr.expr(call.Args[0])
					if n.K != VInt || n.I < 1 || int(n.I) > len(bitsArr)-at {
						rpfFail("ReadBits(%v) with %d bits left", n.I, len(bitsArr)-at)
					}
					at += int(n.I)
					return &Val{K: VNil}, true
				}
				return nil, false
			}
			h.multiHook = func(call *ast.CallExpr, callee types.Object) ([]*Val, bool) {
				if isMethodNamed(callee, "common", "BitSource", "ReadBits") {
					n := rpfCurrent.expr(call.Args[0])
					if n.K != VInt || n.I < 1 || int(n.I) > len(bitsArr)-at {
						return []*Val{vint(0), vstr("error")}, true
					}
					v := int64(0)
					for k := 0; k < int(n.I); k++ {
						v <<= 1
						if bitsArr[at+k] {
							v |= 1
						}
					}
					at += int(n.I)
					return []*Val{vint(v), {K: VNil}}, true
				}
				return nil, false
			}
			res, err := c.rpfCall(fd, p, []*Val{{K: VStruct, Ptr: true, Fields: map[string]*Val{}}, {K: VList, Local: true}}, h)
			folds++
			what := fmt.Sprintf("%d EDIFACT characters, then the unlatch in position %d of its group, then codewords 66 67 129", len(want), pos+1)
			if err != nil {
				bad = "?" + what + ": " + err.Error()
				break
			}
			got, ok := listInts(res[0])
			if len(res) != 1 || !ok || fmt.Sprint(got) != fmt.Sprint(want) {
				bad = fmt.Sprintf("%s: the segment yields %q, expected %q", what, bytesOf(got), bytesOf(want))
				break
			}
			if at != boundary {
				bad = fmt.Sprintf("%s: the parser stops at bit %d of the stream; the next codeword starts at bit %d (%s)", what, at, boundary, map[bool]string{true: "codewords that belong to the ASCII parser are swallowed", false: "the fill bits of the unlatch's codeword are left for the ASCII parser"}[at > boundary])
			}
		}
	}
	r.Extra("S-DMEDIDEC folds", folds)
	reportFold(r, c, "S-DMEDIDEC", key, fd.Pos(), bad)
}

// S-DMC40END: the C40 / Text encoder's backtracking at the end of the text
func checkDMC40End(c *Ctx, r *Report) {
	r.Rule("S-DMC40END", "C40Encoder.encode, end of the text: (1) the number of values a backtrack removes from the buffer is the size of the character that is last in the buffer at that moment - it is never the size backtrackOneCharacter returned for the character it removed before (on the SSA form: no value flows from a result of backtrackOneCharacter into the size argument of a later call); (2) a last character that needs two ASCII codewords - above 0x7F, which both character encoders, folded for all 256 bytes, write with three or four values and everything else with one or two - is never left to the ending that has one codeword free: the backtracking condition, folded with one pending value, one codeword free and a last character of 3 or 4 values, holds (and does not hold for 1 or 2 values)", 2)
	key := "datamatrix/encoder.C40Encoder.encode"
	f := c.ssaFunc("datamatrix/encoder", "C40Encoder.encode")
	fd, p := c.funcDeclOf("datamatrix/encoder", "C40Encoder.encode")
	if f == nil || fd == nil {
		r.AnchorLost("S-DMC40END", key, "method not found")
		return
	}
	// (1) dataflow on SSA
	r.Analysed(key + "/backtrack-size")
	isBT := func(v ssa.Value) *ssa.Call {
		call, ok := v.(*ssa.Call)
		if ok {
			if g := call.Call.StaticCallee(); g != nil && g.Name() == "backtrackOneCharacter" {
				return call
			}
		}
		return nil
	}
	var fromBT func(v ssa.Value, seen map[ssa.Value]bool) bool
	fromBT = func(v ssa.Value, seen map[ssa.Value]bool) bool {
		if seen[v] {
			return false
		}
		seen[v] = true
		switch x := v.(type) {
		case *ssa.Extract:
			return isBT(x.Tuple) != nil && x.Index == 0
		case *ssa.Phi:
			for _, e := range x.Edges {
				if fromBT(e, seen) {
					return true
				}
			}
		}
		return false
	}
	bad := ""
	nCalls := 0
	for _, b := range f.Blocks {
		for _, in := range b.Instrs {
			if call := isBT(valueOf(in)); call != nil {
				nCalls++
				args := call.Call.Args
				if len(args) > 0 && fromBT(args[len(args)-1], map[ssa.Value]bool{}) {
					bad = "the size of the character to remove, at " + c.pos(call.Pos()) + ", can be the size the previous backtrack returned for the character it had removed: after two backtracks over characters of different sizes values of a third character are cut off and that character is lost"
				}
			}
		}
	}
	if nCalls == 0 {
		bad = "?no call of backtrackOneCharacter found"
	}
	reportFold(r, c, "S-DMC40END", key+"/backtrack-size", fd.Pos(), bad)
	// (2) the loop condition and the sizes of upper-shifted characters
	r.Analysed(key + "/two-codeword-character")
	bad = ""
	for _, name := range []string{"c40EncodeChar", "textEncodeChar"} {
		efd, ep := c.funcDeclOf("datamatrix/encoder", name)
		if efd == nil {
			bad = "?" + name + " not found"
			break
		}
		for ch := int64(0); ch < 256 && bad == ""; ch++ {
			res, err := c.rpfCall(efd, ep, []*Val{vint(ch), emptyBytes()}, nil)
			if err != nil || len(res) != 2 || res[0].K != VInt {
				bad = fmt.Sprintf("?%s(0x%02X): %v", name, ch, err)
				break
			}
			if (ch >= 128) != (res[0].I >= 3) {
				bad = fmt.Sprintf("?%s(0x%02X) takes %d values: the size no longer tells an upper-shifted character from the others", name, ch, res[0].I)
			}
		}
	}
	var loop *ast.ForStmt
	ast.Inspect(fd.Body, func(n ast.Node) bool {
		if fs, ok := n.(*ast.ForStmt); ok && fs.Init == nil && fs.Post == nil && fs.Cond != nil {
			if len(findCalls(p, fs.Body, func(o types.Object) bool {
				fn, ok := o.(*types.Func)
				return ok && fn.Name() == "backtrackOneCharacter"
			})) > 0 {
				loop = fs
			}
		}
		return true
	})
	if bad == "" && loop == nil {
		bad = "?the backtracking loop was not found"
	}
	if bad == "" {
		// free variables of the condition: the buffer (its length is taken), the size, the free codewords
		// the three quantities of the condition: the buffer whose length modulo 3 is taken, the free codewords
		// (compared with a constant for equality) and the size of the last character (ordered against a constant: a
		// variable, or an element of the list of sizes)
		var bufObj, availObj types.Object
		var sizeExpr ast.Expr
		ast.Inspect(loop.Cond, func(n ast.Node) bool {
			be, ok := n.(*ast.BinaryExpr)
			if !ok {
				return true
			}
			switch be.Op {
			case token.REM:
				if call, isC := ast.Unparen(be.X).(*ast.CallExpr); isC && isBuiltin(typeutil.Callee(p.TypesInfo, call), "len") && len(call.Args) == 1 {
					bufObj = identObj(p, call.Args[0])
				}
			case token.NEQ, token.EQL:
				if _, isK := constInt(p, be.Y); isK {
					if o := identObj(p, be.X); o != nil {
						availObj = o
					}
				}
			case token.LSS, token.LEQ:
				if _, isK := constInt(p, be.X); isK {
					sizeExpr = ast.Unparen(be.Y)
				} else if _, isK := constInt(p, be.Y); isK {
					sizeExpr = ast.Unparen(be.X)
				}
			}
			return true
		})
		if bufObj == nil || sizeExpr == nil || availObj == nil {
			bad = "?the backtracking condition does not have the shape pending values / size of the last character / free codewords"
		}
		sizeObj := identObj(p, sizeExpr)
		for size := int64(1); size <= 4 && bad == ""; size++ {
			buf := &Val{K: VList}
			for i := 0; i < 4; i++ {
				buf.L = append(buf.L, vint(5))
			}
			env := map[types.Object]*Val{bufObj: buf, availObj: vint(1)}
			if sizeObj != nil {
				env[sizeObj] = vint(size)
			}
			sz := size
			hk := &rpf{idxHook: func(rr *rpf, ix *ast.IndexExpr) (*Val, bool) {
				if ast.Expr(ix) == sizeExpr {
					return vint(sz), true
				}
				return nil, false
			}}
			v, err := c.rpfExpr(p, loop.Cond, env, hk)
			if err != nil || v.K != VBool {
				bad = fmt.Sprintf("?condition not foldable: %v", err)
				break
			}
			if v.B != (size >= 3) {
				if size >= 3 {
					bad = fmt.Sprintf("one pending value, one codeword free, last character of %d values (above 0x7F): no backtrack - the character is handed to the ASCII encoder, which needs two codewords for it; the symbol grows, the unlatch is missing and the parser reads the rest as C40 / Text data", size)
				} else {
					bad = fmt.Sprintf("one pending value, one codeword free, last character of %d values: backtracked although it fits the free codeword", size)
				}
			}
		}
	}
	reportFold(r, c, "S-DMC40END", key+"/two-codeword-character", fd.Pos(), bad)
}

func valueOf(in ssa.Instruction) ssa.Value {
	v, _ := in.(ssa.Value)
	return v
}
