package main

import (
	"fmt"
	"go/ast"
	"go/token"
	"go/types"
	"golang.org/x/tools/go/packages"
	"sort"
	"strings"

	"golang.org/x/tools/go/ssa"
	"golang.org/x/tools/go/types/typeutil"
)

func init() {
	registerProp("C11", "Aztec: conforming symbols of every size decode to their text", checkC11)
}

// ISO/IEC 24778 character tables (code value -> meaning), written from the standard's table: control codes are
// named P/S (punct shift), U/S, L/L, U/L, M/L, D/L, P/L, B/S; FLG(n) is punct code 0.
func refAztecTables() map[string][]string {
	upper := []string{"CTRL_PS", " "}
	lower := []string{"CTRL_PS", " "}
	for ch := 'A'; ch <= 'Z'; ch++ {
		upper = append(upper, string(ch))
		lower = append(lower, string(ch+32))
	}
	upper = append(upper, "CTRL_LL", "CTRL_ML", "CTRL_DL", "CTRL_BS")
	lower = append(lower, "CTRL_US", "CTRL_ML", "CTRL_DL", "CTRL_BS")
	mixed := []string{"CTRL_PS", " "}
	for ch := 1; ch <= 13; ch++ {
		mixed = append(mixed, string(rune(ch)))
	}
	for ch := 27; ch <= 31; ch++ {
		mixed = append(mixed, string(rune(ch)))
	}
	mixed = append(mixed, "@", "\\", "^", "_", "`", "|", "~", "\x7f", "CTRL_LL", "CTRL_UL", "CTRL_PL", "CTRL_BS")
	punct := []string{"FLG(n)", "\r", "\r\n", ". ", ", ", ": "}
	for _, ch := range "!\"#$%&'()*+,-./:;<=>?[]{}" {
		punct = append(punct, string(ch))
	}
	punct = append(punct, "CTRL_UL")
	digit := []string{"CTRL_PS", " "}
	for ch := '0'; ch <= '9'; ch++ {
		digit = append(digit, string(ch))
	}
	digit = append(digit, ",", ".", "CTRL_UL", "CTRL_US")
	return map[string][]string{"UPPER_TABLE": upper, "LOWER_TABLE": lower, "MIXED_TABLE": mixed, "PUNCT_TABLE": punct, "DIGIT_TABLE": digit}
}

func checkC11(c *Ctx, r *Report) {
	checkAztecTables(c, r)
	checkAztecDispatch(c, r)
	r.Rule("S-FIELD", "codeword size and field by layer count: <=2 -> 6 bits / GF(64), <=8 -> 8 bits / GF(256), <=22 -> 10 bits / GF(1024), else 12 bits / GF(4096) (ladder folded for 1..32 layers); mode message over GF(16)", 1)
	checkAztecFieldLadder(c, r, "S-FIELD")
	checkAztecGeometry(c, r)
	checkAztecRSBeforeUnstuff(c, r)
	checkAztecUnstuff(c, r)
	checkAztecUnstuffWhole(c, r)
	checkAztecModeMessage(c, r)
	checkAztecCut(c, r)
	checkAztecCorners(c, r)
	checkAztecRotation(c, r)
	checkAztecSidePacking(c, r)
	checkAztecIsValid(c, r)
	checkCallbackNilIn(c, r, "aztec", 1) // the result-point callback hint is tested before it is called (also C06)
	checkAztecCharset(c, r)
	checkAztecDecoderState(c, r)
	checkAztecDetectorState(c, r)
	checkAztecReadCode(c, r, "M-READCODE")
	// the six fields' constants (shared with C04)
	checkGFConstants(c, r)
	r.Note("not decided: the spiral read-out order of extractBits, the detector (bull's-eye location, orientation), rendering/scale tolerance; totality clauses (nil ECI, negative capacity, result pairing) are decided under C06")
}

func checkAztecTables(c *Ctx, r *Report) {
	r.Rule("T-AZTEC", "the five character tables equal ISO/IEC 24778 (32, 32, 32, 32 and 16 entries): code value -> character or control code", 5)
	for name, ref := range refAztecTables() {
		init, p := c.varInit("aztec/decoder", name)
		key := "aztec/decoder." + name
		if init == nil {
			r.AnchorLost("T-AZTEC", key, "table not found")
			continue
		}
		r.Analysed(key)
		v := c.eval(p, init)
		bad := ""
		if v.K != VList {
			bad = "?not a literal table"
		} else if len(v.L) != len(ref) {
			bad = fmt.Sprintf("%d entries, ISO 24778 has %d", len(v.L), len(ref))
		} else {
			for i, e := range v.L {
				if e.K != VStr {
					bad = "?non-constant entry"
					break
				}
				if e.S != ref[i] {
					bad = fmt.Sprintf("code %d is %q, ISO 24778 has %q", i, e.S, ref[i])
					break
				}
			}
		}
		if bad != "" && bad[0] == '?' {
			r.Undecided("T-AZTEC", key, c.pos(init.Pos()), bad[1:])
		} else {
			r.Check(bad == "", "T-AZTEC", key, c.pos(init.Pos()), bad)
		}
	}
}

func checkAztecDispatch(c *Ctx, r *Report) {
	r.Rule("T-AZTECSEL", "getTable folded for each latch/shift letter (L, P, M, D, B, U) and getCharacter folded for every (table, code) return the ISO 24778 table and entry; an out-of-range code is an error; latch codes end in 'L', shift codes in 'S' and the decoder latches exactly on 'L'", 6+5+1)
	// table constants
	tconst := map[string]int64{}
	for _, n := range []string{"TableUPPER", "TableLOWER", "TableMIXED", "TableDIGIT", "TablePUNCT", "TableBINARY"} {
		if cst, ok := c.lookupObj("aztec/decoder", n).(*types.Const); ok {
			if v, ok := constInt64(cst); ok {
				tconst[n] = v
			}
		}
	}
	if len(tconst) != 6 {
		r.AnchorLost("T-AZTECSEL", "aztec/decoder.Table constants", "table enumeration not found")
		return
	}
	if fd, p := c.funcDeclOf("aztec/decoder", "getTable"); fd != nil {
		r.Analysed("aztec/decoder.getTable")
		want := map[byte]string{'L': "TableLOWER", 'P': "TablePUNCT", 'M': "TableMIXED", 'D': "TableDIGIT", 'B': "TableBINARY", 'U': "TableUPPER"}
		for ch, tn := range want {
			res, err := c.rpfCall(fd, p, []*Val{vint(int64(ch))}, nil)
			key := fmt.Sprintf("aztec/decoder.getTable(%q)", string(ch))
			if err != nil {
				r.Undecided("T-AZTECSEL", key, c.pos(fd.Pos()), err.Error())
				continue
			}
			r.Check(len(res) == 1 && res[0].isInt() && res[0].I == tconst[tn], "T-AZTECSEL", key, c.pos(fd.Pos()), fmt.Sprintf("letter %q selects %v, expected %s", string(ch), res, tn))
		}
	} else {
		r.AnchorLost("T-AZTECSEL", "aztec/decoder.getTable", "function not found")
	}
	if fd, p := c.funcDeclOf("aztec/decoder", "getCharacter"); fd != nil {
		r.Analysed("aztec/decoder.getCharacter")
		refs := refAztecTables()
		hooks := &rpf{callHook: func(rr *rpf, call *ast.CallExpr, callee types.Object) (*Val, bool) {
			if isFuncNamed(callee, "", "NewFormatException") {
				return vstr("format-error"), true
			}
			return nil, false
		}}
		for tn, tbl := range map[string]string{"TableUPPER": "UPPER_TABLE", "TableLOWER": "LOWER_TABLE", "TableMIXED": "MIXED_TABLE", "TablePUNCT": "PUNCT_TABLE", "TableDIGIT": "DIGIT_TABLE"} {
			key := "aztec/decoder.getCharacter(" + tn + ")"
			bad := ""
			ref := refs[tbl]
			for code := 0; code <= len(ref); code++ {
				res, err := c.rpfCall(fd, p, []*Val{vint(tconst[tn]), vint(int64(code))}, hooks)
				if err != nil {
					bad = "?" + err.Error()
					break
				}
				if code < len(ref) {
					if len(res) != 2 || res[0].K != VStr || res[0].S != ref[code] || res[1].K != VNil {
						bad = fmt.Sprintf("code %d in %s gives %v, ISO 24778 has %q", code, tn, res, ref[code])
						break
					}
				} else if len(res) != 2 || res[1].K == VNil {
					bad = fmt.Sprintf("code %d is beyond %s but no error is returned", code, tn)
				}
			}
			if bad != "" && bad[0] == '?' {
				r.Undecided("T-AZTECSEL", key, c.pos(fd.Pos()), bad[1:])
			} else {
				r.Check(bad == "", "T-AZTECSEL", key, c.pos(fd.Pos()), bad)
			}
		}
	} else {
		r.AnchorLost("T-AZTECSEL", "aztec/decoder.getCharacter", "function not found")
	}
	// latch vs shift: in getEncodedData the branch for "CTRL_" codes: shiftTable = getTable(str[5]); if str[6] == 'L' { latchTable = shiftTable }
	if fd, p := c.funcDeclOf("aztec/decoder", "Decoder.getEncodedData"); fd != nil {
		ok := false
		// the table for the next read is what getCharacter is given; the latched table is what it is reset to after a shift
		var shiftObj, latchObj types.Object
		for _, call := range findCalls(p, fd.Body, func(o types.Object) bool { return isFuncNamed(o, "aztec/decoder", "getCharacter") }) {
			if len(call.Args) == 2 {
				shiftObj = identObj(p, call.Args[0])
			}
		}
		ast.Inspect(fd.Body, func(n ast.Node) bool {
			if as, isA := n.(*ast.AssignStmt); isA && as.Tok == token.ASSIGN && len(as.Lhs) == 1 && len(as.Rhs) == 1 && shiftObj != nil {
				if l, r2 := identObj(p, as.Lhs[0]), identObj(p, as.Rhs[0]); l == shiftObj && r2 != nil && r2 != shiftObj {
					latchObj = r2
				}
			}
			return true
		})
		ast.Inspect(fd.Body, func(n ast.Node) bool {
			ifs, isI := n.(*ast.IfStmt)
			if !isI {
				return true
			}
			be, isB := ast.Unparen(ifs.Cond).(*ast.BinaryExpr)
			if !isB || be.Op != token.EQL {
				return true
			}
			ix, isX := be.X.(*ast.IndexExpr)
			if !isX {
				return true
			}
			i6, isC := constInt(p, ix.Index)
			ch, isL := constInt(p, be.Y)
			if isC && isL && i6 == 6 && ch == 'L' && len(ifs.Body.List) == 1 {
				if as, isA := ifs.Body.List[0].(*ast.AssignStmt); isA && len(as.Lhs) == 1 {
					if l, r2 := identObj(p, as.Lhs[0]), identObj(p, as.Rhs[0]); l != nil && r2 != nil && l == latchObj && r2 == shiftObj {
						ok = true
					}
				}
			}
			return true
		})
		r.Check(ok, "T-AZTECSEL", "aztec/decoder.Decoder.getEncodedData.latch", c.pos(fd.Pos()), "a control code whose 7th character is 'L' must latch (latchTable = shiftTable); others only shift")
	} else {
		r.AnchorLost("T-AZTECSEL", "aztec/decoder.Decoder.getEncodedData", "method not found")
	}
}

func checkAztecGeometry(c *Ctx, r *Report) {
	r.Rule("T-AZTECGEO", "symbol geometry: totalBitsInLayer folded = (88 + 16 L) L for compact L = 1..4 and (112 + 16 L) L for full L = 1..32; extractBits' base size 4 L + 11 / 4 L + 14; the reference-grid map of full symbols (loop body folded for every layer count and index) sends data index d on either side of the centre to centre +- (d + d/15 + 1), with matrix size base + 1 + 2*((base/2 - 1)/15)", 36+36+32)
	if fd, p := c.funcDeclOf("aztec/decoder", "totalBitsInLayer"); fd != nil {
		r.Analysed("aztec/decoder.totalBitsInLayer")
		for _, compact := range []bool{true, false} {
			maxL := int64(32)
			if compact {
				maxL = 4
			}
			for L := int64(1); L <= maxL; L++ {
				res, err := c.rpfCall(fd, p, []*Val{vint(L), vbool(compact)}, nil)
				key := fmt.Sprintf("aztec/decoder.totalBitsInLayer(%d,compact=%v)", L, compact)
				if err != nil {
					r.Undecided("T-AZTECGEO", key, c.pos(fd.Pos()), err.Error())
					continue
				}
				want := (112 + 16*L) * L
				if compact {
					want = (88 + 16*L) * L
				}
				r.Check(len(res) == 1 && res[0].isInt() && res[0].I == want, "T-AZTECGEO", key, c.pos(fd.Pos()), fmt.Sprintf("%v bits, ISO 24778 geometry gives %d", res, want))
			}
		}
	} else {
		r.AnchorLost("T-AZTECGEO", "aztec/decoder.totalBitsInLayer", "function not found")
	}
	fd, p := c.funcDeclOf("aztec/decoder", "Decoder.extractBits")
	if fd == nil {
		r.AnchorLost("T-AZTECGEO", "aztec/decoder.Decoder.extractBits", "method not found")
		return
	}
	r.Analysed("aztec/decoder.Decoder.extractBits")
	// prefix statements up to the first make(): compact, layers, baseMatrixSize
	var baseObj types.Object
	var prefix []ast.Stmt
	for _, st := range fd.Body.List {
		if as, ok := st.(*ast.AssignStmt); ok && as.Tok == token.DEFINE {
			if call, ok := as.Rhs[0].(*ast.CallExpr); ok {
				if id, ok := call.Fun.(*ast.Ident); ok && id.Name == "make" {
					break
				}
			}
		}
		prefix = append(prefix, st)
	}
	for _, st := range prefix {
		if as, ok := st.(*ast.AssignStmt); ok && as.Tok == token.DEFINE && len(as.Lhs) == 1 {
			if be, ok := as.Rhs[0].(*ast.BinaryExpr); ok && be.Op == token.MUL {
				baseObj = identObj(p, as.Lhs[0])
			}
		}
	}
	foldPrefix := func(layers int64, compact bool) (map[types.Object]*Val, error) {
		env := map[types.Object]*Val{}
		rr := &rpf{c: c, p: p, env: env, callHook: func(x *rpf, call *ast.CallExpr, callee types.Object) (*Val, bool) {
			if f, ok := callee.(*types.Func); ok {
				switch f.Name() {
				case "IsCompact":
					return vbool(compact), true
				case "GetNbLayers":
					return vint(layers), true
				}
			}
			return nil, false
		}}
		var err error
		func() {
			defer func() {
				if y := recover(); y != nil {
					if re, ok := y.(*rpfErr); ok {
						err = re
						return
					}
					panic(y)
				}
			}()
			for _, st := range prefix {
				rr.stmt(st)
			}
		}()
		return env, err
	}
	if baseObj == nil {
		r.Undecided("T-AZTECGEO", "aztec/decoder.Decoder.extractBits.base", c.pos(fd.Pos()), "baseMatrixSize not found")
		return
	}
	for _, compact := range []bool{true, false} {
		maxL := int64(32)
		if compact {
			maxL = 4
		}
		for L := int64(1); L <= maxL; L++ {
			key := fmt.Sprintf("aztec/decoder.Decoder.extractBits.base(%d,compact=%v)", L, compact)
			env, err := foldPrefix(L, compact)
			if err != nil {
				r.Undecided("T-AZTECGEO", key, c.pos(fd.Pos()), err.Error())
				continue
			}
			want := 4*L + 14
			if compact {
				want = 4*L + 11
			}
			r.Check(env[baseObj] != nil && env[baseObj].isInt() && env[baseObj].I == want, "T-AZTECGEO", key, c.pos(fd.Pos()), fmt.Sprintf("base size %v, ISO 24778: %d", env[baseObj], want))
		}
	}
	// reference grid map: the else-branch loop of `if compact {...} else {...}`
	var mapIf *ast.IfStmt
	for _, st := range fd.Body.List {
		if ifs, ok := st.(*ast.IfStmt); ok && ifs.Else != nil && mapIf == nil {
			hasLoop := false
			ast.Inspect(ifs, func(n ast.Node) bool {
				if _, ok := n.(*ast.ForStmt); ok {
					hasLoop = true
				}
				return true
			})
			if hasLoop {
				mapIf = ifs
			}
		}
	}
	eb, _ := mapIf.Else.(*ast.BlockStmt)
	if mapIf == nil || eb == nil {
		r.Undecided("T-AZTECGEO", "aztec/decoder.Decoder.extractBits.grid", c.pos(fd.Pos()), "alignment-map construction not found")
		return
	}
	var loop *ast.ForStmt
	var pre []ast.Stmt
	for _, st := range eb.List {
		if f, ok := st.(*ast.ForStmt); ok {
			loop = f
			break
		}
		pre = append(pre, st)
	}
	if loop == nil {
		r.Undecided("T-AZTECGEO", "aztec/decoder.Decoder.extractBits.grid", c.pos(eb.Pos()), "grid loop not found")
		return
	}
	lv, _ := loop.Init.(*ast.AssignStmt)
	for L := int64(1); L <= 32; L++ {
		key := fmt.Sprintf("aztec/decoder.Decoder.extractBits.grid(%d layers)", L)
		env, err := foldPrefix(L, false)
		bad := ""
		if err != nil {
			bad = "?" + err.Error()
		}
		base := 4*L + 14
		size := base + 1 + 2*((base/2-1)/15)
		center := size / 2
		orig := base / 2
		if bad == "" {
			rr := &rpf{c: c, p: p, env: env}
			func() {
				defer func() {
					if y := recover(); y != nil {
						if re, ok := y.(*rpfErr); ok {
							bad = "?" + re.Error()
							return
						}
						panic(y)
					}
				}()
				for _, st := range pre {
					rr.stmt(st)
				}
			}()
		}
		for i := int64(0); i < orig && bad == ""; i++ {
			e2 := map[types.Object]*Val{}
			for k, v := range env {
				e2[k] = v
			}
			e2[identObj(p, lv.Lhs[0])] = vint(i)
			got := map[int64]int64{}
			hooks := &rpf{stHook: func(x *rpf, lhs ast.Expr, v *Val) bool {
				ix, ok := lhs.(*ast.IndexExpr)
				if !ok {
					return false
				}
				got[x.expr(ix.Index).I] = v.I
				return true
			}}
			if err := foldLoopBodies(c, p, e2, hooks, nil, loop); err != nil {
				bad = "?" + err.Error()
				break
			}
			d := i
			wantHi := center + d + d/15 + 1
			wantLo := center - d - d/15 - 1
			if got[orig+i] != wantHi || got[orig-i-1] != wantLo || len(got) != 2 {
				bad = fmt.Sprintf("data index %d from the centre maps to %v; with a reference line every 16 modules it must be %d and %d", d, got, wantLo, wantHi)
			}
		}
		// loop bound: i < origCenter
		if bad == "" {
			if be, ok := loop.Cond.(*ast.BinaryExpr); !ok || be.Op != token.LSS {
				bad = "grid loop must run i < base/2"
			} else if v, err := c.rpfExpr(p, be.Y, env, nil); err != nil || !v.isInt() || v.I != orig {
				bad = fmt.Sprintf("grid loop bound %v, expected %d", v, orig)
			}
		}
		if bad != "" && bad[0] == '?' {
			r.Undecided("T-AZTECGEO", key, c.pos(loop.Pos()), bad[1:])
		} else {
			r.Check(bad == "", "T-AZTECGEO", key, c.pos(loop.Pos()), bad)
		}
	}
}

// Reed-Solomon correction precedes bit un-stuffing, with the full parity count; the same for the mode message
func checkAztecRSBeforeUnstuff(c *Ctx, r *Report) {
	r.Rule("M-AZTECRS", "correctBits: rsDecoder.Decode(dataWords, numCodewords - numDataCodewords) runs, with its error returned, before any stuffed-bit handling; symbols with fewer codewords than data codewords are refused; the mode message is RS-decoded (error -> not found) before its data nibbles are used, with 7/2 codewords (compact) and 10/4 (full)", 3)
	if f := c.ssaFunc("aztec/decoder", "Decoder.correctBits"); f != nil {
		key := "aztec/decoder.Decoder.correctBits"
		var rsCall *ssa.Call
		for _, b := range f.Blocks {
			for _, in := range b.Instrs {
				if call, ok := in.(*ssa.Call); ok {
					if sc := call.Common().StaticCallee(); sc != nil && sc.Name() == "Decode" && sc.Signature.Recv() != nil {
						rsCall = call
					}
				}
			}
		}
		ok := false
		if rsCall != nil {
			// every MakeSlice of []bool (the corrected bits) and every store into it is dominated by the success edge of the RS call
			ok = true
			var succ *ssa.BasicBlock
			b := rsCall.Block()
			if ifi, isIf := b.Instrs[len(b.Instrs)-1].(*ssa.If); isIf {
				if bo, isB := ifi.Cond.(*ssa.BinOp); isB && bo.Op == token.NEQ && (bo.X == ssa.Value(rsCall) || bo.Y == ssa.Value(rsCall)) {
					succ = b.Succs[1]
				}
			}
			if succ == nil {
				ok = false
			} else {
				for _, blk := range f.Blocks {
					for _, in := range blk.Instrs {
						if ms, isM := in.(*ssa.MakeSlice); isM {
							if sl, isS := ms.Type().Underlying().(*types.Slice); isS {
								if bt, isB := sl.Elem().Underlying().(*types.Basic); isB && bt.Kind() == types.Bool {
									if !succ.Dominates(blk) {
										ok = false
									}
								}
							}
						}
					}
				}
			}
		}
		r.Check(ok, "M-AZTECRS", key, c.pos(f.Pos()), "the corrected-bit buffer must be built only on the success edge of the Reed-Solomon decode")
	} else {
		r.AnchorLost("M-AZTECRS", "aztec/decoder.Decoder.correctBits", "method not found")
	}
	if fd, p := c.funcDeclOf("aztec/decoder", "Decoder.correctBits"); fd != nil {
		s := c.symFunc(fd, p, func(types.Object) bool { return true })
		okArg := false
		for _, cl := range s.calls {
			if isMethodNamed(cl.Callee, "common/reedsolomon", "ReedSolomonDecoder", "Decode") && len(cl.Args) == 2 {
				txt := cl.Args[1].String()
				if len(cl.Args[1].m) == 2 && !containsK(txt) {
					okArg = true // numCodewords - numDataCodewords: two monomials with coefficients +1/-1 checked below
					pos, neg := 0, 0
					for _, cf := range cl.Args[1].m {
						if cf.Cmp(polyInt(1).m[""]) == 0 {
							pos++
						}
						if cf.Cmp(polyInt(-1).m[""]) == 0 {
							neg++
						}
					}
					okArg = pos == 1 && neg == 1
				}
			}
		}
		// guard numCodewords < numDataCodewords -> error, on the two counts whose difference is the parity count
		var totalObj, dataObj types.Object
		for _, call := range findCalls(p, fd.Body, func(o types.Object) bool {
			return isMethodNamed(o, "common/reedsolomon", "ReedSolomonDecoder", "Decode")
		}) {
			if len(call.Args) == 2 {
				totalObj, dataObj = differenceOf(p, fd, call.Args[1])
			}
		}
		okGuard := false
		ast.Inspect(fd.Body, func(n ast.Node) bool {
			if ifs, ok := n.(*ast.IfStmt); ok {
				if be, ok := ast.Unparen(ifs.Cond).(*ast.BinaryExpr); ok && be.Op == token.LSS && blockReturnsError(p, ifs.Body.List, nil) {
					if l, r2 := identObj(p, be.X), identObj(p, be.Y); l != nil && r2 != nil && l == totalObj && r2 == dataObj {
						okGuard = true
					}
				}
			}
			return true
		})
		r.Check(okArg && okGuard, "M-AZTECRS", "aztec/decoder.Decoder.correctBits.parity", c.pos(fd.Pos()), fmt.Sprintf("parity count numCodewords - numDataCodewords: %v; too-few-codewords refusal: %v", okArg, okGuard))
	}
	if fd, p := c.funcDeclOf("aztec/detector", "Detector.getCorrectedParameterData"); fd != nil {
		key := "aztec/detector.Detector.getCorrectedParameterData"
		// constants 7/2 and 10/4 by folding the if statement
		var first *ast.IfStmt
		for _, st := range fd.Body.List {
			if ifs, ok := st.(*ast.IfStmt); ok && first == nil {
				first = ifs
			}
		}
		bad := ""
		if first == nil {
			bad = "codeword-count selection not found"
		} else {
			// the codeword count and the data-codeword count: the two variables whose difference is the parity count
			// handed to the Reed-Solomon decoder
			var nObj, dObj types.Object
			for _, call := range findCalls(p, fd.Body, func(o types.Object) bool {
				return isMethodNamed(o, "common/reedsolomon", "ReedSolomonDecoder", "Decode")
			}) {
				if len(call.Args) == 2 {
					nObj, dObj = differenceOf(p, fd, call.Args[1])
				}
			}
			if nObj == nil || dObj == nil {
				bad = "the parity count handed to the Reed-Solomon decoder is not a difference of two counts"
			}
			for _, compact := range []bool{true, false} {
				if bad != "" {
					break
				}
				env := map[types.Object]*Val{nObj: vint(0), dObj: vint(0)}
				rr := &rpf{c: c, p: p, env: env, selHook: func(x *rpf, sel *ast.SelectorExpr) (*Val, bool) {
					if sel.Sel.Name == "compact" {
						return vbool(compact), true
					}
					return nil, false
				}}
				func() {
					defer func() {
						if y := recover(); y != nil {
							if _, ok := y.(*rpfErr); ok {
								bad = "selection not foldable"
								return
							}
							panic(y)
						}
					}()
					rr.stmt(first)
				}()
				wn, wd := int64(10), int64(4)
				if compact {
					wn, wd = 7, 2
				}
				if bad == "" && (nObj == nil || env[nObj].I != wn || env[dObj].I != wd) {
					bad = fmt.Sprintf("compact=%v: %v codewords / %v data, ISO 24778: %d / %d", compact, env[nObj], env[dObj], wn, wd)
				}
			}
		}
		// RS decode with error exit before the result loop
		okRS := false
		ast.Inspect(fd.Body, func(n ast.Node) bool {
			if ifs, ok := n.(*ast.IfStmt); ok && ifs.Init != nil && blockReturnsError(p, ifs.Body.List, nil) {
				if as, ok := ifs.Init.(*ast.AssignStmt); ok {
					if call, ok := as.Rhs[0].(*ast.CallExpr); ok && isMethodNamed(typeutil.Callee(p.TypesInfo, call), "common/reedsolomon", "ReedSolomonDecoder", "Decode") {
						okRS = true
					}
				}
			}
			return true
		})
		if bad == "" && !okRS {
			bad = "the Reed-Solomon decode of the mode message must return its error"
		}
		r.Check(bad == "", "M-AZTECRS", key, c.pos(fd.Pos()), bad)
	} else {
		r.AnchorLost("M-AZTECRS", "aztec/detector.Detector.getCorrectedParameterData", "method not found")
	}
}

func containsK(s string) bool { return len(atomsWithPrefix(s, "K~")) > 0 }

// bit un-stuffing: a data codeword 0 or all-ones is illegal; 1 and all-ones-minus-1 stand for codewordSize-1 equal bits
func checkAztecUnstuff(c *Ctx, r *Report) {
	r.Rule("M-UNSTUFF", "correctBits' stuffing rules folded for every codeword size (6, 8, 10, 12) and the four special codewords: 0 and 2^n - 1 are rejected, 1 and 2^n - 2 count one stuffed bit and expand to n-1 zeros / ones, every other codeword contributes its n bits most significant first", 4)
	fd, p := c.funcDeclOf("aztec/decoder", "Decoder.correctBits")
	if fd == nil {
		r.AnchorLost("M-UNSTUFF", "aztec/decoder.Decoder.correctBits", "method not found")
		return
	}
	// the counting loop: body = if dataWord == 0 || dataWord == mask {error} else if dataWord == 1 || dataWord == mask-1 {stuffedBits++}
	// the variables are found by their roles: the codewords are what the Reed-Solomon decoder corrected, the mask is
	// the local defined as (1 << size) - 1, the stuffed-bit count is the zero-initialised local that the counting loop
	// increments
	var countLoop *ast.ForStmt
	var maskObj, stuffedObj, wordsObj types.Object
	for _, call := range findCalls(p, fd.Body, func(o types.Object) bool {
		return isMethodNamed(o, "common/reedsolomon", "ReedSolomonDecoder", "Decode")
	}) {
		if len(call.Args) == 2 {
			wordsObj = identObj(p, call.Args[0])
		}
	}
	zeroInit := map[types.Object]bool{}
	for _, st := range fd.Body.List {
		as, ok := st.(*ast.AssignStmt)
		if !ok || as.Tok != token.DEFINE || len(as.Lhs) != 1 || len(as.Rhs) != 1 {
			continue
		}
		o := identObj(p, as.Lhs[0])
		if v, isK := constInt(p, as.Rhs[0]); isK && v == 0 {
			zeroInit[o] = true
		}
		if be, isB := ast.Unparen(as.Rhs[0]).(*ast.BinaryExpr); isB && be.Op == token.SUB {
			if one, isK := constInt(p, be.Y); isK && one == 1 {
				if sh, isS := ast.Unparen(be.X).(*ast.BinaryExpr); isS && sh.Op == token.SHL {
					maskObj = o
				}
			}
		}
	}
	for _, st := range fd.Body.List {
		if f, ok := st.(*ast.ForStmt); ok && countLoop == nil {
			ast.Inspect(f, func(n ast.Node) bool {
				if inc, ok := n.(*ast.IncDecStmt); ok && inc.Tok == token.INC {
					if o := identObj(p, inc.X); o != nil && zeroInit[o] {
						countLoop, stuffedObj = f, o
					}
				}
				return true
			})
		}
	}
	if countLoop == nil || maskObj == nil || stuffedObj == nil || wordsObj == nil {
		r.Undecided("M-UNSTUFF", "aztec/decoder.Decoder.correctBits.count", c.pos(fd.Pos()), "stuffed-bit counting loop not found")
		return
	}
	for _, n := range []int64{6, 8, 10, 12} {
		key := fmt.Sprintf("aztec/decoder.Decoder.correctBits.count(%d-bit)", n)
		mask := int64(1)<<uint(n) - 1
		bad := ""
		for _, w := range []int64{0, 1, 2, 3, mask / 2, mask - 2, mask - 1, mask} {
			env := map[types.Object]*Val{maskObj: vint(mask), stuffedObj: vint(0)}
			if lv, ok := countLoop.Init.(*ast.AssignStmt); ok {
				env[identObj(p, lv.Lhs[0])] = vint(0)
			}
			hooks := &rpf{
				idxHook: func(x *rpf, ix *ast.IndexExpr) (*Val, bool) {
					if identObj(p, ix.X) == wordsObj {
						return vint(w), true
					}
					return nil, false
				},
				callHook: func(x *rpf, call *ast.CallExpr, callee types.Object) (*Val, bool) {
					if isFuncNamed(callee, "", "NewFormatException") {
						return vstr("format-error"), true
					}
					return nil, false
				},
			}
			rr := &rpf{c: c, p: p, env: env, callHook: hooks.callHook, idxHook: hooks.idxHook}
			var ret *rpfReturn
			var err error
			func() {
				defer func() {
					if y := recover(); y != nil {
						if re, ok := y.(*rpfErr); ok {
							err = re
							return
						}
						panic(y)
					}
				}()
				ret = rr.block(countLoop.Body.List)
			}()
			if err != nil {
				bad = "?" + err.Error()
				break
			}
			illegal := w == 0 || w == mask
			stuffed := w == 1 || w == mask-1
			if illegal != (ret != nil) {
				bad = fmt.Sprintf("codeword %#x of %d bits: rejected=%v, ISO 24778 says %v", w, n, ret != nil, illegal)
				break
			}
			if ret == nil && (env[stuffedObj].I == 1) != stuffed {
				bad = fmt.Sprintf("codeword %#x of %d bits: counted as stuffed=%v, expected %v", w, n, env[stuffedObj].I == 1, stuffed)
				break
			}
		}
		if bad != "" && bad[0] == '?' {
			r.Undecided("M-UNSTUFF", key, c.pos(countLoop.Pos()), bad[1:])
		} else {
			r.Check(bad == "", "M-UNSTUFF", key, c.pos(countLoop.Pos()), bad)
		}
	}
}

// T-AZTECMODE: the split of the corrected mode message into layer count and data-codeword count
func checkAztecModeMessage(c *Ctx, r *Report) {
	r.Rule("T-AZTECMODE", "Detector.extractParameters splits the corrected mode message as ISO 24778 prescribes: compact symbols 2 bits (layers-1) + 6 bits (data codewords-1), full-range symbols 5 bits + 11 bits; the final assignments are folded for every 8-bit resp. 16-bit message", 2)
	fd, p := c.funcDeclOf("aztec/detector", "Detector.extractParameters")
	if fd == nil {
		r.AnchorLost("T-AZTECMODE", "aztec/detector.Detector.extractParameters", "method not found")
		return
	}
	// the last if statement on this.compact
	var sw *ast.IfStmt
	for _, st := range fd.Body.List {
		if ifs, ok := st.(*ast.IfStmt); ok {
			if sel, isS := ast.Unparen(ifs.Cond).(*ast.SelectorExpr); isS && sel.Sel.Name == "compact" && ifs.Else != nil {
				sw = ifs
			}
		}
	}
	if sw == nil {
		r.AnchorLost("T-AZTECMODE", "aztec/detector.Detector.extractParameters", "the compact / full-range split was not found")
		return
	}
	// the variable holding the corrected message: assigned from getCorrectedParameterData
	var msg types.Object
	for _, st := range fd.Body.List {
		if as, ok := st.(*ast.AssignStmt); ok && len(as.Rhs) == 1 {
			if call, isC := as.Rhs[0].(*ast.CallExpr); isC {
				if fn, isF := typeutil.Callee(p.TypesInfo, call).(*types.Func); isF && fn.Name() == "getCorrectedParameterData" {
					msg = identObj(p, as.Lhs[0])
				}
			}
		}
	}
	if msg == nil {
		r.Undecided("T-AZTECMODE", "aztec/detector.Detector.extractParameters", c.pos(fd.Pos()), "corrected mode message variable not found")
		return
	}
	for _, t := range []struct {
		name       string
		body       []ast.Stmt
		bits, data uint
	}{{"compact", sw.Body.List, 8, 6}, {"full", nil, 16, 11}} {
		body := t.body
		if body == nil {
			if eb, ok := sw.Else.(*ast.BlockStmt); ok {
				body = eb.List
			}
		}
		key := "aztec/detector.Detector.extractParameters/" + t.name
		r.Analysed(key)
		bad := ""
		for v := int64(0); v < 1<<t.bits && bad == ""; v++ {
			got := map[string]int64{}
			h := &rpf{stHook: func(rr *rpf, lhs ast.Expr, val *Val) bool {
				if sel, ok := lhs.(*ast.SelectorExpr); ok && val.K == VInt {
					got[sel.Sel.Name] = val.I
					return true
				}
				return false
			}}
			env := map[types.Object]*Val{msg: vint(v)}
			rr := &rpf{c: c, p: p, env: env, stHook: h.stHook}
			func() {
				defer func() {
					if y := recover(); y != nil {
						if re, ok := y.(*rpfErr); ok {
							bad = "?" + re.Error()
							return
						}
						panic(y)
					}
				}()
				for _, st := range body {
					rr.stmt(st)
				}
			}()
			if bad != "" {
				break
			}
			wl, wd := (v>>t.data)+1, (v&(1<<t.data-1))+1
			if got["nbLayers"] != wl || got["nbDataBlocks"] != wd {
				bad = fmt.Sprintf("%s mode message %#x: layers %d, data codewords %d; ISO 24778 gives layers %d, data codewords %d", t.name, v, got["nbLayers"], got["nbDataBlocks"], wl, wd)
			}
		}
		reportFold(r, c, "T-AZTECMODE", key, sw.Pos(), bad)
	}
}

// S-AZCUT: how correctBits cuts the layer bits into codewords, and what it hands the Reed-Solomon decoder
func checkAztecCut(c *Ctx, r *Report) {
	checkAztecCutRule(c, r, "S-AZCUT", true)
}

// checkAztecCutRule runs the fold under the given rule name (S-FIELD falls back on it when correctBits does not have
// the if-ladder shape its own matcher knows: the fold decides size and field for every layer count whatever the shape).
func checkAztecCutRule(c *Ctx, r *Report, ruleName string, declare bool) {
	if declare {
		r.Rule(ruleName, "correctBits, folded for each of the 36 symbol sizes up to its Reed-Solomon call (layer count and data-codeword count from the detector result, readCode replaced by a tag of its start position): the layer bits are cut into floor(bits / size) codewords that are right-aligned - codeword i starts at bit (bits mod size) + i * size, every one of them is read, none twice - the decoder is built over the field of the size, and it is given exactly these codewords with all of the check codewords (numCodewords - numDataCodewords)", 36)
	}
	fd, p := c.funcDeclOf("aztec/decoder", "Decoder.correctBits")
	if fd == nil {
		r.AnchorLost(ruleName, "aztec/decoder.Decoder.correctBits", "method not found")
		return
	}
	type stop struct{}
	for _, compact := range []bool{true, false} {
		maxL := 32
		if compact {
			maxL = 4
		}
		for L := 1; L <= maxL; L++ {
			key := fmt.Sprintf("aztec/decoder.Decoder.correctBits(%d layers, compact=%v)", L, compact)
			r.Analysed(key)
			bitsN := int64((112 + 16*L) * L)
			if compact {
				bitsN = int64((88 + 16*L) * L)
			}
			size := int64(12)
			wantField := "GenericGF_AZTEC_DATA_12"
			switch {
			case L <= 2:
				size, wantField = 6, "GenericGF_AZTEC_DATA_6"
			case L <= 8:
				size, wantField = 8, "GenericGF_AZTEC_DATA_8"
			case L <= 22:
				size, wantField = 10, "GenericGF_AZTEC_DATA_10"
			}
			nCw := bitsN / size
			nData := nCw - nCw/4 - 1
			if nData < 1 {
				nData = 1
			}
			raw := &Val{K: VList}
			for i := int64(0); i < bitsN; i++ {
				raw.L = append(raw.L, vbool(false))
			}
			var gotWords []int64
			gotTwoS := int64(-1)
			gotField := ""
			decoded := false
			h := &rpf{unroll: 100000, maxSteps: 2000000}
			h.selHook = func(rr *rpf, sel *ast.SelectorExpr) (*Val, bool) {
				if id, ok := sel.X.(*ast.Ident); ok {
					if pn, isPkg := rr.p.TypesInfo.Uses[id].(*types.PkgName); isPkg && strings.HasSuffix(pn.Imported().Path(), "/reedsolomon") {
						if _, isVar := rr.p.TypesInfo.Uses[sel.Sel].(*types.Var); isVar {
							return vstr(sel.Sel.Name), true
						}
					}
				}
				if sel.Sel.Name == "ddata" {
					return &Val{K: VStruct, Ptr: true, Fields: map[string]*Val{}}, true
				}
				return nil, false
			}
			h.callHook = func(rr *rpf, call *ast.CallExpr, callee types.Object) (*Val, bool) {
				fn, ok := callee.(*types.Func)
				if !ok {
					return nil, false
				}
				switch fn.Name() {
				case "GetNbLayers":
					return vint(int64(L)), true
				case "GetNbDatablocks":
					return vint(nData), true
				case "IsCompact":
					return vbool(compact), true
				case "readCode":
					a, st, ln := rr.expr(call.Args[0]), rr.expr(call.Args[1]), rr.expr(call.Args[2])
					if a != raw || st.K != VInt || ln.K != VInt {
						rpfFail("readCode is not applied to the layer bits with constant positions")
					}
					if ln.I != size {
						rpfFail("readCode reads %d bits, the codeword size for %d layers is %d", ln.I, L, size)
					}
					return vint(st.I + 1), true // tag: start position + 1
				case "NewReedSolomonDecoder":
					f := rr.expr(call.Args[0])
					if f.K == VStr {
						gotField = f.S
					}
					return &Val{K: VStruct, Ptr: true, Fields: map[string]*Val{}}, true
				case "Decode":
					if isMethodNamed(callee, "common/reedsolomon", "ReedSolomonDecoder", "Decode") {
						w, n := rr.expr(call.Args[0]), rr.expr(call.Args[1])
						ws, ok := listInts(w)
						if !ok || n.K != VInt {
							rpfFail("the Reed-Solomon decoder is not handed a list of the cut codewords")
						}
						gotWords, gotTwoS, decoded = ws, n.I, true
						panic(stop{})
					}
				}
				return errCtorHook(rr, call, callee)
			}
			h.env = map[types.Object]*Val{recvObj(p, fd): {K: VStruct, Ptr: true, Fields: map[string]*Val{"ddata": {K: VStruct, Ptr: true, Fields: map[string]*Val{}}}}}
			var err error
			func() {
				defer func() {
					if x := recover(); x != nil {
						if _, ok := x.(stop); ok {
							return
						}
						panic(x)
					}
				}()
				_, err = c.rpfCall(fd, p, []*Val{raw}, h)
			}()
			pos := c.pos(fd.Pos())
			if err != nil {
				if strings.Contains(err.Error(), "readCode reads") {
					r.Fail(ruleName, key, pos, "violation", err.Error())
				} else {
					r.Undecided(ruleName, key, pos, err.Error())
				}
				continue
			}
			bad := ""
			switch {
			case !decoded:
				bad = "the Reed-Solomon decoder is never called"
			case int64(len(gotWords)) != nCw:
				bad = fmt.Sprintf("%d codewords are handed to the decoder, %d layer bits hold %d codewords of %d bits", len(gotWords), bitsN, nCw, size)
			case gotTwoS != nCw-nData:
				bad = fmt.Sprintf("the decoder is told to use %d check codewords, the symbol has %d - %d = %d", gotTwoS, nCw, nData, nCw-nData)
			case gotField != wantField:
				bad = fmt.Sprintf("the decoder is built over %s, %d-bit codewords live in %s", gotField, size, wantField)
			}
			for i := int64(0); i < int64(len(gotWords)) && bad == ""; i++ {
				want := bitsN%size + i*size
				if gotWords[i] == 0 {
					bad = fmt.Sprintf("codeword %d of %d is never read from the layer bits (it stays 0; Reed-Solomon would have to repair it in every symbol of this size)", i, nCw)
				} else if gotWords[i]-1 != want {
					bad = fmt.Sprintf("codeword %d is read from bit %d, right-aligned codewords of %d bits in %d layer bits put it at bit %d", i, gotWords[i]-1, size, bitsN, want)
				}
			}
			r.Check(bad == "", ruleName, key, pos, bad)
		}
	}
}

// W-DECSTATE: the Aztec decoder object carries nothing from one Decode to the next
func checkAztecDecoderState(c *Ctx, r *Report) {
	r.Rule("W-DECSTATE", "aztec/decoder.Decoder keeps no state between calls: the only store into storage reachable from a Decoder outside its constructor is Decode recording its own argument (the detector result of this call) in ddata - scratch buffers kept on the object would let an earlier, larger symbol shape the reading of the next one", 1)
	checkNoInstanceState(c, r, "W-DECSTATE", "aztec/decoder", []string{"Decoder"}, func(f *ssa.Function, tn, field string, val ssa.Value) bool {
		if field != "ddata" || f.Name() != "Decode" {
			return false
		}
		p, ok := val.(*ssa.Parameter)
		return ok && p.Parent() == f
	})
}

// W-DETSTATE: what an Aztec Detector keeps from one Detect call to the next
func checkAztecDetectorState(c *Ctx, r *Report) {
	r.Rule("W-DETSTATE", "aztec/detector.Detector keeps no result of a search between Detect calls: outside its constructor the only stores into storage reachable from a Detector are the five parameters every call computes afresh before it reads them (compact and nbCenterLayers in getBullsEyeCorners; shift, nbLayers and nbDataBlocks in extractParameters) - remembered corners or centres would be changed by the mirrored attempt (which swaps two corners in place) and spoil the next call on the same object", 1)
	fresh := map[string]bool{"compact": true, "nbCenterLayers": true, "shift": true, "nbLayers": true, "nbDataBlocks": true}
	checkNoInstanceState(c, r, "W-DETSTATE", "aztec/detector", []string{"Detector"}, func(f *ssa.Function, tn, field string, val ssa.Value) bool {
		return fresh[field] && (f.Name() == "getBullsEyeCorners" || f.Name() == "extractParameters")
	})
}

// M-READCODE: every bit-field read stays inside the bit slice
var frozenReadCode = map[string]string{
	"(*aztec/decoder.Decoder).getEncodedData#5": "the digit loop reads n fields of 4 bits after the test endIndex-index < 4*n has excluded a short tail; index advances by 4 per field and n counts down",
	"(*aztec/decoder.Decoder).correctBits#0":    "codeword i starts at len % size + i * size for i < len / size (decided by S-AZCUT for all 36 sizes), so start + size <= len",
}

func checkAztecReadCode(c *Ctx, r *Report, rule string) {
	r.Rule(rule, "every readCode(bits, start, n) of the Aztec decoder stays inside the slice: a test of len(bits) - start against a bound >= n, made on the very value of start that is passed (not on an earlier position), dominates the call on its passing side, or n is exactly len(bits) - start; two sites rest on loop arithmetic and are frozen with their reasons", 8)
	sp := c.ssaPkg("aztec/decoder")
	if sp == nil {
		r.AnchorLost(rule, "aztec/decoder", "package not loaded")
		return
	}
	isLenOf := func(v, b ssa.Value) bool {
		call, ok := v.(*ssa.Call)
		if !ok {
			return false
		}
		bi, ok := call.Call.Value.(*ssa.Builtin)
		return ok && bi.Name() == "len" && len(call.Call.Args) == 1 && call.Call.Args[0] == b
	}
	var fs []*ssa.Function
	for f := range c.allFuncs {
		if f.Pkg == sp && f.Blocks != nil {
			fs = append(fs, f)
		}
	}
	sort.Slice(fs, func(i, j int) bool { return fs[i].String() < fs[j].String() })
	for _, f := range fs {
		ord := 0
		for _, b := range f.Blocks {
			for _, in := range b.Instrs {
				call, ok := in.(*ssa.Call)
				if !ok {
					continue
				}
				g := call.Call.StaticCallee()
				if g == nil || g.Name() != "readCode" || g.Pkg != sp || len(call.Call.Args) != 3 {
					continue
				}
				key := fmt.Sprintf("%s#%d", shortFn(f), ord)
				ord++
				bits, start, n := call.Call.Args[0], call.Call.Args[1], call.Call.Args[2]
				isRest := func(v ssa.Value) bool {
					bo, ok := v.(*ssa.BinOp)
					return ok && bo.Op == token.SUB && isLenOf(bo.X, bits) && bo.Y == start
				}
				proven, why := false, ""
				if isRest(n) {
					proven, why = true, "reads exactly the rest of the slice"
				}
				for _, blk := range f.Blocks {
					if proven || len(blk.Instrs) == 0 {
						break
					}
					iff, ok := blk.Instrs[len(blk.Instrs)-1].(*ssa.If)
					if !ok {
						continue
					}
					bo, ok := iff.Cond.(*ssa.BinOp)
					if !ok {
						continue
					}
					// rest op K (or K op rest, written the other way round): on which edge is rest >= K (+1)?
					cmpOp, kv := bo.Op, bo.Y
					if !isRest(bo.X) {
						if !isRest(bo.Y) {
							continue
						}
						kv = bo.X
						switch bo.Op {
						case token.LSS:
							cmpOp = token.GTR
						case token.LEQ:
							cmpOp = token.GEQ
						case token.GTR:
							cmpOp = token.LSS
						case token.GEQ:
							cmpOp = token.LEQ
						}
					}
					side, plus := -1, int64(0)
					switch cmpOp {
					case token.LSS:
						side = 1
					case token.GEQ:
						side = 0
					case token.LEQ:
						side, plus = 1, 1
					case token.GTR:
						side, plus = 0, 1
					}
					if side < 0 {
						continue
					}
					succ := blk.Succs[side]
					if len(succ.Preds) != 1 || !(succ == b || succ.Dominates(b)) {
						continue
					}
					kc, kIsC := constIntOf(kv)
					nc, nIsC := constIntOf(n)
					switch {
					case kIsC && nIsC && kc+plus >= nc:
						proven, why = true, fmt.Sprintf("dominating test leaves at least %d bits from this position", kc+plus)
					case kv == n:
						proven, why = true, "dominating test of the rest against the very length read"
					}
				}
				pos := c.pos(call.Pos())
				if proven {
					r.Pass(rule, key, pos, why)
				} else if fr, ok := frozenReadCode[key]; ok {
					r.Pass(rule, key, pos, "frozen: "+fr)
				} else {
					r.Fail(rule, key, pos, "violation", "no test of len(bits) - start, on the position that is passed, covers the bits read here: the read can run past the end of the slice")
				}
			}
		}
	}
}

// T-AZCORNER: the orientation marks and how getRotation reads them
func checkAztecCorners(c *Ctx, r *Report) {
	r.Rule("T-AZCORNER", "EXPECTED_CORNER_BITS holds the four rotations of the orientation marks of ISO 24778 (three, two, one and no dark module at the corners of the mode-message ring: 111 011 100 000 and its cyclic shifts by one corner), and getRotation, folded for both ring lengths (7 and 10), each of the four orientations and every corruption of up to two of the twelve mark modules, returns that orientation", 5)
	init, p := c.varInit("aztec/detector", "EXPECTED_CORNER_BITS")
	key := "aztec/detector.EXPECTED_CORNER_BITS"
	if init == nil {
		r.AnchorLost("T-AZCORNER", key, "table not found")
		return
	}
	r.Analysed(key)
	want := []int64{0xee0, 0x1dc, 0x83b, 0x707}
	tv, ok := listInts(c.eval(p, init))
	r.Check(ok && fmt.Sprint(tv) == fmt.Sprint(want), "T-AZCORNER", key, c.pos(init.Pos()), fmt.Sprintf("table %#x, the orientation marks give %#x", tv, want))
	fd, fp := c.funcDeclOf("aztec/detector", "getRotation")
	if fd == nil {
		r.AnchorLost("T-AZCORNER", "aztec/detector.getRotation", "function not found")
		return
	}
	for rot := 0; rot < 4; rot++ {
		rkey := fmt.Sprintf("aztec/detector.getRotation orientation %d", rot)
		r.Analysed(rkey)
		bad := ""
		for _, length := range []int64{7, 10} {
			var masks []int64
			masks = append(masks, 0)
			for a := 0; a < 12; a++ {
				masks = append(masks, 1<<uint(a))
				for b := a + 1; b < 12; b++ {
					masks = append(masks, 1<<uint(a)|1<<uint(b))
				}
			}
			for _, mask := range masks {
				if bad != "" {
					break
				}
				{
					F := want[rot] ^ mask
					cb := ((F << 1) & 0xFFF) | (F >> 11)
					sides := &Val{K: VList}
					for i := 0; i < 4; i++ {
						t := (cb >> uint(9-3*i)) & 7
						sides.L = append(sides.L, vint(((t>>1)<<uint(length-2))|(t&1)))
					}
					h := &rpf{unroll: 100}
					h.callHook = func(rr *rpf, call *ast.CallExpr, callee types.Object) (*Val, bool) {
						if fn, ok := callee.(*types.Func); ok && fn.Pkg() != nil && fn.Pkg().Path() == "math/bits" && strings.HasPrefix(fn.Name(), "OnesCount") {
							v := rr.expr(call.Args[0])
							if v.K != VInt {
								rpfFail("OnesCount of a non-constant")
							}
							n := int64(0)
							for x := uint64(v.I) & 0xFFFFFFFF; x != 0; x &= x - 1 {
								n++
							}
							return vint(n), true
						}
						return errCtorHook(rr, call, callee)
					}
					res, err := c.rpfCall(fd, fp, []*Val{sides, vint(length)}, h)
					if err != nil {
						bad = "?" + err.Error()
						break
					}
					if len(res) != 2 || res[1].K != VNil || res[0].K != VInt || res[0].I != int64(rot) {
						bad = fmt.Sprintf("ring length %d, marks %#03x (orientation %d with the modules %#03x wrong): getRotation answers %v", length, F, rot, mask, res)
					}
				}
			}
		}
		reportFold(r, c, "T-AZCORNER", rkey, fd.Pos(), bad)
	}
}

// singleDef returns the right-hand side of the only assignment to the local variable o in fd (nil if there is none or more than one).
func singleDef(p *packages.Package, fd *ast.FuncDecl, o types.Object) ast.Expr {
	var out ast.Expr
	n := 0
	ast.Inspect(fd.Body, func(nd ast.Node) bool {
		switch x := nd.(type) {
		case *ast.AssignStmt:
			for i, l := range x.Lhs {
				if id, ok := l.(*ast.Ident); ok && (p.TypesInfo.Defs[id] == o || p.TypesInfo.Uses[id] == o) {
					n++
					if len(x.Rhs) == len(x.Lhs) && (x.Tok == token.DEFINE || x.Tok == token.ASSIGN) {
						out = x.Rhs[i]
					} else {
						n++
					}
				}
			}
		case *ast.IncDecStmt:
			if identObj(p, x.X) == o {
				n += 2
			}
		}
		return true
	})
	if n != 1 {
		return nil
	}
	return out
}

// differenceOf resolves e - directly, or through a variable assigned once - to `x - y` over two variables.
func differenceOf(p *packages.Package, fd *ast.FuncDecl, e ast.Expr) (x, y types.Object) {
	e = ast.Unparen(e)
	if o := identObj(p, e); o != nil {
		if d := singleDef(p, fd, o); d != nil {
			e = ast.Unparen(d)
		}
	}
	if be, ok := e.(*ast.BinaryExpr); ok && be.Op == token.SUB {
		return identObj(p, be.X), identObj(p, be.Y)
	}
	return nil, nil
}

// T-AZROT: the corners handed to the grid sampler are the bull's-eye corners rotated by the orientation found
func checkAztecRotation(c *Ctx, r *Report) {
	r.Rule("T-AZROT", "Detector.Detect hands sampleGrid the four bull's-eye corners starting at the corner with three orientation marks and going round in order: the k-th corner argument is bullsEyeCorners[(shift+k) mod 4], an index in 0..3, for every orientation shift = 0..3 (the index expressions are folded); extractParameters reads the four sides of the mode message in the same rotated order", 2)
	fd, p := c.funcDeclOf("aztec/detector", "Detector.Detect")
	key := "aztec/detector.Detector.Detect/sampleGrid-corners"
	if fd == nil || fd.Recv == nil || len(fd.Recv.List) == 0 || len(fd.Recv.List[0].Names) == 0 {
		r.AnchorLost("T-AZROT", key, "method not found")
		return
	}
	r.Analysed(key)
	recv := p.TypesInfo.Defs[fd.Recv.List[0].Names[0]]
	foldIdx := func(pk *packages.Package, recv types.Object, idx ast.Expr, extra map[types.Object]*Val, shift int64) (int64, error) {
		env := map[types.Object]*Val{recv: {K: VStruct, Ptr: true, Fields: map[string]*Val{"shift": vint(shift)}}}
		for k, v := range extra {
			env[k] = v
		}
		v, err := c.rpfExpr(pk, idx, env, nil)
		if err != nil {
			return 0, err
		}
		if v.K != VInt {
			return 0, fmt.Errorf("index is not an integer")
		}
		return v.I, nil
	}
	calls := findCalls(p, fd.Body, func(o types.Object) bool { return isMethodNamed(o, "aztec/detector", "Detector", "sampleGrid") })
	if len(calls) != 1 || len(calls[0].Args) != 5 {
		r.Undecided("T-AZROT", key, c.pos(fd.Pos()), "expected one call sampleGrid(image, four corners)")
	} else {
		bad := ""
		var base types.Object
		for k, a := range calls[0].Args[1:] {
			ix, ok := ast.Unparen(a).(*ast.IndexExpr)
			if !ok {
				bad = fmt.Sprintf("?corner argument %d is not an element of the corner list", k)
				break
			}
			o := identObj(p, ix.X)
			if o == nil || (base != nil && o != base) {
				bad = fmt.Sprintf("corner argument %d is not taken from the same corner list as the others", k)
				break
			}
			base = o
			for shift := int64(0); shift < 4 && bad == ""; shift++ {
				got, err := foldIdx(p, recv, ix.Index, nil, shift)
				if err != nil {
					bad = "?" + err.Error()
				} else if got != (shift+int64(k))%4 {
					bad = fmt.Sprintf("orientation %d: corner argument %d is bullsEyeCorners[%d]; the corner that belongs there is bullsEyeCorners[%d]", shift, k, got, (shift+int64(k))%4)
				}
			}
			if bad != "" {
				break
			}
		}
		if bad == "" && base != nil {
			// the list is the one extractParameters looked at
			ep := findCalls(p, fd.Body, func(o types.Object) bool { return isMethodNamed(o, "aztec/detector", "Detector", "extractParameters") })
			if len(ep) != 1 || len(ep[0].Args) != 1 || identObj(p, ep[0].Args[0]) != base {
				bad = "the corners sampled are not the list extractParameters determined the orientation of"
			}
		}
		reportFold(r, c, "T-AZROT", key, calls[0].Pos(), bad)
	}
	// extractParameters: sides[(shift+i)%4]
	fd2, p2 := c.funcDeclOf("aztec/detector", "Detector.extractParameters")
	key2 := "aztec/detector.Detector.extractParameters/sides-order"
	if fd2 == nil || fd2.Recv == nil || len(fd2.Recv.List[0].Names) == 0 {
		r.AnchorLost("T-AZROT", key2, "method not found")
		return
	}
	r.Analysed(key2)
	recv2 := p2.TypesInfo.Defs[fd2.Recv.List[0].Names[0]]
	// the sides: the list handed to getRotation
	var sidesObj types.Object
	for _, call := range findCalls(p2, fd2.Body, func(o types.Object) bool { return isFuncNamed(o, "aztec/detector", "getRotation") }) {
		if len(call.Args) == 2 {
			sidesObj = identObj(p2, call.Args[0])
		}
	}
	bad := "?no read of the sides list inside a counted loop found"
	ast.Inspect(fd2.Body, func(n ast.Node) bool {
		fs, ok := n.(*ast.ForStmt)
		if !ok {
			return true
		}
		lr, ok := loopVarRange(p2, fs)
		if !ok {
			return true
		}
		lv, lo, hi := lr.v, lr.lo, lr.hi
		ast.Inspect(fs.Body, func(m ast.Node) bool {
			ix, ok := m.(*ast.IndexExpr)
			if !ok {
				return true
			}
			if sidesObj == nil || identObj(p2, ix.X) != sidesObj {
				return true
			}
			bad = ""
			if lo != 0 || hi != 4 {
				bad = fmt.Sprintf("the sides are read for i = %d..%d, not 0..3", lo, hi-1)
				return false
			}
			for shift := int64(0); shift < 4 && bad == ""; shift++ {
				for i := int64(0); i < 4 && bad == ""; i++ {
					got, err := foldIdx(p2, recv2, ix.Index, map[types.Object]*Val{lv: vint(i)}, shift)
					if err != nil {
						bad = "?" + err.Error()
					} else if got != (shift+i)%4 {
						bad = fmt.Sprintf("orientation %d: the %d-th side read is sides[%d]; expected sides[%d]", shift, i, got, (shift+i)%4)
					}
				}
			}
			return false
		})
		return false
	})
	reportFold(r, c, "T-AZROT", key2, fd2.Pos(), bad)
}

// resolvesToExternalVar reports whether e denotes the package-level variable pkgPath.name of a dependency, directly or
// through a package-level variable of this module that is initialised with it and written nowhere else.
func resolvesToExternalVar(c *Ctx, p *packages.Package, e ast.Expr, pkgPath, name string, depth int) bool {
	var obj types.Object
	switch x := ast.Unparen(e).(type) {
	case *ast.Ident:
		obj = p.TypesInfo.Uses[x]
	case *ast.SelectorExpr:
		obj = p.TypesInfo.Uses[x.Sel]
	}
	v, ok := obj.(*types.Var)
	if !ok || v.Pkg() == nil || v.Parent() != v.Pkg().Scope() {
		return false
	}
	if v.Pkg().Path() == pkgPath && v.Name() == name {
		return true
	}
	if depth > 3 || !strings.HasPrefix(v.Pkg().Path(), modPath) {
		return false
	}
	init, ip := c.varInitOfObj(v)
	if init == nil || globalWrittenAfterInit(c, v) {
		return false
	}
	return resolvesToExternalVar(c, ip, init, pkgPath, name, depth+1)
}

// globalWrittenAfterInit: some statement of the module assigns to the package-level variable v or takes its address.
func globalWrittenAfterInit(c *Ctx, v *types.Var) bool {
	written := false
	for _, p := range c.PkgList {
		if !strings.HasPrefix(p.PkgPath, modPath) {
			continue
		}
		uses := func(e ast.Expr) bool {
			switch x := ast.Unparen(e).(type) {
			case *ast.Ident:
				return p.TypesInfo.Uses[x] == v
			case *ast.SelectorExpr:
				return p.TypesInfo.Uses[x.Sel] == v
			}
			return false
		}
		for _, f := range p.Syntax {
			ast.Inspect(f, func(n ast.Node) bool {
				switch x := n.(type) {
				case *ast.AssignStmt:
					for _, l := range x.Lhs {
						if uses(l) {
							written = true
						}
					}
				case *ast.IncDecStmt:
					if uses(x.X) {
						written = true
					}
				case *ast.UnaryExpr:
					if x.Op == token.AND && uses(x.X) {
						written = true
					}
				}
				return !written
			})
		}
	}
	return written
}

// M-AZCHARSET: which character set the bytes of an Aztec symbol are read in
func checkAztecCharset(c *Ctx, r *Report) {
	r.Rule("M-AZCHARSET", "in Decoder.getEncodedData the character set whose decoder turns the collected bytes into text (the receiver of NewDecoder in every transform.Append) starts as charmap.ISO8859_1 - directly or through a package variable initialised with it and written nowhere else - which is the interpretation ISO 24778 gives bytes without an ECI, and is changed only to the GetCharset() of the CharacterSetECI looked up from an FLG(n) designator; the bytes collected so far are flushed with the old character set before that change; the byte buffer is used for nothing but len, appending to itself and as the source of transform.Append, and every return delivers string(<the variable transform.Append extends>): no bytes become text past the character set", 2)
	fd, p := c.funcDeclOf("aztec/decoder", "Decoder.getEncodedData")
	key := "aztec/decoder.Decoder.getEncodedData/charset"
	if fd == nil {
		r.AnchorLost("M-AZCHARSET", key, "method not found")
		return
	}
	r.Analysed(key)
	isAppend := func(o types.Object) bool {
		fn, ok := o.(*types.Func)
		return ok && fn.Pkg() != nil && fn.Pkg().Path() == "golang.org/x/text/transform" && fn.Name() == "Append"
	}
	apps := findCalls(p, fd.Body, isAppend)
	if len(apps) < 2 {
		r.Undecided("M-AZCHARSET", key, c.pos(fd.Pos()), fmt.Sprintf("expected the flush before an ECI change and the final flush through transform.Append; found %d", len(apps)))
		return
	}
	var enc types.Object
	bad := ""
	for _, a := range apps {
		var o types.Object
		if len(a.Args) == 3 {
			if nd, ok := ast.Unparen(a.Args[0]).(*ast.CallExpr); ok {
				if sel, ok := nd.Fun.(*ast.SelectorExpr); ok && sel.Sel.Name == "NewDecoder" {
					o = identObj(p, sel.X)
				}
			}
		}
		if o == nil || (enc != nil && o != enc) {
			bad = "?a transform.Append whose transformer is not <the character-set variable>.NewDecoder()"
			break
		}
		enc = o
	}
	if bad == "" {
		if v, ok := enc.(*types.Var); !ok || v.Parent() == v.Pkg().Scope() {
			bad = "?the character set is not a local variable"
		}
	}
	nInit, nECI := 0, 0
	if bad == "" {
		ast.Inspect(fd.Body, func(n ast.Node) bool {
			as, ok := n.(*ast.AssignStmt)
			if !ok || bad != "" {
				return bad == ""
			}
			for i, l := range as.Lhs {
				id, ok := l.(*ast.Ident)
				if !ok {
					continue
				}
				o := p.TypesInfo.Defs[id]
				if o == nil {
					o = p.TypesInfo.Uses[id]
				}
				if o != enc {
					continue
				}
				if len(as.Rhs) != len(as.Lhs) {
					bad = "?the character set is assigned from a multi-value expression"
					return false
				}
				rhs := as.Rhs[i]
				if as.Tok == token.DEFINE {
					if !resolvesToExternalVar(c, p, rhs, "golang.org/x/text/encoding/charmap", "ISO8859_1", 0) {
						bad = fmt.Sprintf("bytes without an ECI are read in %s, which is not (a fixed alias of) charmap.ISO8859_1", types.ExprString(rhs))
						return false
					}
					nInit++
					continue
				}
				call, ok := ast.Unparen(rhs).(*ast.CallExpr)
				if !ok || !isMethodNamed(typeutil.Callee(p.TypesInfo, call), "common", "CharacterSetECI", "GetCharset") {
					bad = fmt.Sprintf("the character set is changed to %s, which is not the GetCharset() of the ECI read from the symbol", types.ExprString(rhs))
					return false
				}
				// a flush with the old character set precedes the change, in the same FLG(n) arm
				flushed := false
				for _, a := range apps {
					if a.Pos() < as.Pos() {
						flushed = true
					}
				}
				if !flushed {
					bad = "the character set is changed before the bytes collected so far are flushed"
					return false
				}
				nECI++
			}
			return true
		})
	}
	if bad == "" && (nInit != 1 || nECI < 1) {
		bad = fmt.Sprintf("?expected one initialisation and the ECI change of the character set (found %d, %d)", nInit, nECI)
	}
	reportFold(r, c, "M-AZCHARSET", key, fd.Pos(), bad)
	// the collected bytes become text only through the character set's decoder
	bkey := "aztec/decoder.Decoder.getEncodedData/bytes"
	r.Analysed(bkey)
	var buf types.Object
	bbad := ""
	for _, a := range apps {
		if len(a.Args) != 3 {
			bbad = "?a transform.Append without three arguments"
			break
		}
		o := identObj(p, a.Args[2])
		if o == nil || (buf != nil && o != buf) {
			bbad = "?the transform.Append calls do not read one and the same byte buffer variable"
			break
		}
		buf = o
	}
	if bbad == "" {
		var stack []ast.Node
		ast.Inspect(fd.Body, func(n ast.Node) bool {
			if n == nil {
				stack = stack[:len(stack)-1]
				return false
			}
			stack = append(stack, n)
			id, ok := n.(*ast.Ident)
			if !ok || bbad != "" || identObj(p, id) != buf {
				return true
			}
			// innermost enclosing call / slice / assignment
			okUse := false
			for i := len(stack) - 2; i >= 0 && !okUse; i-- {
				switch x := stack[i].(type) {
				case *ast.ParenExpr:
					continue
				case *ast.SliceExpr:
					if ast.Unparen(x.X) == ast.Expr(id) {
						continue // buf[:0] - judged by what it is assigned to
					}
				case *ast.CallExpr:
					callee := typeutil.Callee(p.TypesInfo, x)
					if bi, isB := callee.(*types.Builtin); isB {
						switch bi.Name() {
						case "len", "cap":
							okUse = true
						case "append":
							if len(x.Args) > 0 && containsNode(x.Args[0], id) {
								continue // append(buf, ...) - judged by what it is assigned to
							}
						}
					}
					if isAppend(callee) && len(x.Args) == 3 && ast.Unparen(x.Args[2]) == ast.Expr(id) {
						okUse = true
					}
				case *ast.AssignStmt:
					// buf = append(buf, ...) / buf = buf[:0] / buf := make(...)
					if len(x.Lhs) == 1 && identObj(p, x.Lhs[0]) == buf {
						okUse = true
					}
				}
				break
			}
			if !okUse {
				bbad = fmt.Sprintf("the byte buffer %s is used at %s outside len, append-to-itself and transform.Append: bytes reach the text (or a decision about it) without going through the symbol's character set", id.Name, c.pos(id.Pos()))
			}
			return true
		})
	}
	// what is returned as text is string(<the variable the transform.Append calls produce>)
	if bbad == "" {
		var res types.Object
		for _, a := range apps {
			if o := identObj(p, a.Args[1]); o != nil && (res == nil || res == o) {
				res = o
			} else {
				bbad = "?the transform.Append calls do not extend one and the same text variable"
			}
		}
		ast.Inspect(fd.Body, func(n ast.Node) bool {
			rs, ok := n.(*ast.ReturnStmt)
			if !ok || bbad != "" || len(rs.Results) != 2 {
				return true
			}
			conv, isC := ast.Unparen(rs.Results[0]).(*ast.CallExpr)
			if !isC || len(conv.Args) != 1 || identObj(p, conv.Args[0]) != res {
				bbad = fmt.Sprintf("the return at %s delivers %s, not string(<the text produced by the character set's decoder>)", c.pos(rs.Pos()), types.ExprString(rs.Results[0]))
			}
			return true
		})
	}
	reportFold(r, c, "M-AZCHARSET", bkey, fd.Pos(), bbad)
}

// T-AZPACK: the mode message is assembled from the right bits of the four sides
func checkAztecSidePacking(c *Ctx, r *Report) {
	r.Rule("T-AZPACK", "Detector.extractParameters takes from each sampled side of the mode-message ring exactly the data modules ISO 24778 puts there - compact: of the 10 samples the 7 between the two leading orientation modules and the trailing one; full range: of the 14 samples the 5 + 5 on either side of the reference-grid module - most significant first, and appends them to the bits of the sides before: the loop body is folded for every sample word of a side (1024 compact, 16384 full range)", 2)
	fd, p := c.funcDeclOf("aztec/detector", "Detector.extractParameters")
	if fd == nil || fd.Recv == nil || len(fd.Recv.List[0].Names) == 0 {
		r.AnchorLost("T-AZPACK", "aztec/detector.Detector.extractParameters", "method not found")
		return
	}
	recv := p.TypesInfo.Defs[fd.Recv.List[0].Names[0]]
	var sidesObj types.Object
	for _, call := range findCalls(p, fd.Body, func(o types.Object) bool { return isFuncNamed(o, "aztec/detector", "getRotation") }) {
		if len(call.Args) == 2 {
			sidesObj = identObj(p, call.Args[0])
		}
	}
	var loop *ast.ForStmt
	var lr loopRange
	ast.Inspect(fd.Body, func(n ast.Node) bool {
		fs, ok := n.(*ast.ForStmt)
		if !ok || loop != nil {
			return true
		}
		rng, ok := loopVarRange(p, fs)
		if !ok {
			return true
		}
		uses := false
		ast.Inspect(fs.Body, func(m ast.Node) bool {
			if ix, ok := m.(*ast.IndexExpr); ok && sidesObj != nil && identObj(p, ix.X) == sidesObj {
				uses = true
			}
			return true
		})
		if uses {
			loop, lr = fs, rng
		}
		return true
	})
	// the accumulator: the variable the body shifts left
	var acc types.Object
	if loop != nil {
		ast.Inspect(loop.Body, func(n ast.Node) bool {
			if as, ok := n.(*ast.AssignStmt); ok && as.Tok == token.SHL_ASSIGN && len(as.Lhs) == 1 {
				acc = identObj(p, as.Lhs[0])
			}
			return true
		})
	}
	for _, compact := range []bool{true, false} {
		key := fmt.Sprintf("aztec/detector.Detector.extractParameters/side-bits(compact=%v)", compact)
		if loop == nil || acc == nil {
			r.Undecided("T-AZPACK", key, c.pos(fd.Pos()), "the loop that packs the four sides was not found")
			continue
		}
		r.Analysed(key)
		samples, width := 14, uint(10)
		if compact {
			samples, width = 10, 7
		}
		const before = 0x2B5
		bad := ""
		for s := int64(0); s < 1<<uint(samples) && bad == ""; s++ {
			var want int64
			if compact {
				want = (s >> 1) & 0x7F
			} else {
				want = ((s>>7)&0x1F)<<5 | ((s >> 1) & 0x1F)
			}
			env := map[types.Object]*Val{
				recv: {K: VStruct, Ptr: true, Fields: map[string]*Val{"shift": vint(0), "compact": vbool(compact)}},
				lr.v: vint(0),
				acc:  {K: VInt, I: before, T: types.Typ[types.Int64]},
			}
			h := &rpf{idxHook: func(rr *rpf, ix *ast.IndexExpr) (*Val, bool) {
				if identObj(p, ix.X) == sidesObj {
					return vint(s), true
				}
				return nil, false
			}}
			rr := &rpf{c: c, p: p, env: env, idxHook: h.idxHook, curFn: fd}
			var err error
			func() {
				defer func() {
					if x := recover(); x != nil {
						if re, ok := x.(*rpfErr); ok {
							err = re
							return
						}
						panic(x)
					}
				}()
				rr.block(loop.Body.List)
			}()
			if err != nil {
				bad = "?" + err.Error()
				break
			}
			got := env[acc]
			if got == nil || got.K != VInt || got.I != before<<width|want {
				g := int64(-1)
				if got != nil {
					g = got.I
				}
				bad = fmt.Sprintf("side samples %0*b: the message becomes %#x; the bits before (%#x) followed by the side's data modules %0*b are %#x", samples, s, g, before, width, want, int64(before)<<width|want)
			}
		}
		reportFold(r, c, "T-AZPACK", key, loop.Pos(), bad)
	}
}

// M-AZVALID: the detector's in-image test takes x against the width and y against the height
func checkAztecIsValid(c *Ctx, r *Report) {
	r.Rule("M-AZVALID", "Detector.isValid(x, y), the test every probe of the Aztec detector passes through (getFirstDifferent, isValidPoint), folded over a grid of points around an image that is wider than tall and one that is taller than wide: true exactly for 0 <= x < width and 0 <= y < height - a symbol is located wherever it lies in a non-square image", 1)
	fd, p := c.funcDeclOf("aztec/detector", "Detector.isValid")
	key := "aztec/detector.Detector.isValid"
	if fd == nil {
		r.AnchorLost("M-AZVALID", key, "method not found")
		return
	}
	r.Analysed(key)
	bad := ""
	for _, dim := range [][2]int64{{7, 4}, {4, 7}, {5, 5}} {
		W, H := dim[0], dim[1]
		h := &rpf{callHook: func(rr *rpf, call *ast.CallExpr, callee types.Object) (*Val, bool) {
			switch {
			case isMethodNamed(callee, "", "BitMatrix", "GetWidth"):
				return vint(W), true
			case isMethodNamed(callee, "", "BitMatrix", "GetHeight"):
				return vint(H), true
			}
			return nil, false
		}, selHook: func(rr *rpf, sel *ast.SelectorExpr) (*Val, bool) {
			if sel.Sel.Name == "image" {
				return &Val{K: VStruct, Ptr: true, Fields: map[string]*Val{}}, true
			}
			return nil, false
		}}
		for x := int64(-1); x <= 8 && bad == ""; x++ {
			for y := int64(-1); y <= 8 && bad == ""; y++ {
				res, err := c.rpfCall(fd, p, []*Val{vint(x), vint(y)}, h)
				if err != nil || len(res) != 1 || res[0].K != VBool {
					bad = fmt.Sprintf("?isValid(%d,%d): %v", x, y, err)
					break
				}
				want := x >= 0 && x < W && y >= 0 && y < H
				if res[0].B != want {
					bad = fmt.Sprintf("a %dx%d image (width x height): isValid(%d, %d) = %v, expected %v", W, H, x, y, res[0].B, want)
				}
			}
		}
	}
	reportFold(r, c, "M-AZVALID", key, fd.Pos(), bad)
}

// S-AZUNSTUFF: correctBits as a whole, after its Reed-Solomon call: what the corrected codewords expand to
func checkAztecUnstuffWhole(c *Ctx, r *Report) {
	r.Rule("S-AZUNSTUFF", "correctBits, folded as a whole for each codeword size (6, 8, 10, 12 bits; 1, 3, 9 and 23 layers) with readCode answering a script of codewords and the Reed-Solomon decoder accepting them: the bits it returns are, codeword by codeword, size-1 zeros for the codeword 1, size-1 ones for the codeword 2^size - 2 and the size bits most significant first for every other codeword - in a script that holds both stuffed forms next to each other, at the start and at the end - and nothing else; the check codewords contribute nothing", 4)
	fd, p := c.funcDeclOf("aztec/decoder", "Decoder.correctBits")
	if fd == nil {
		r.AnchorLost("S-AZUNSTUFF", "aztec/decoder.Decoder.correctBits", "method not found")
		return
	}
	for _, cfg := range []struct{ L, size int64 }{{1, 6}, {3, 8}, {9, 10}, {23, 12}} {
		key := fmt.Sprintf("aztec/decoder.Decoder.correctBits whole (%d-bit codewords)", cfg.size)
		r.Analysed(key)
		mask := int64(1)<<uint(cfg.size) - 1
		data := []int64{mask - 1, 1, 2, mask - 2, 0x15 & mask, mask - 1, mask - 1, mask / 2, 1, 1, mask/2 + 1, mask - 1}
		words := append(append([]int64{}, data...), 5, 6, 7)
		offset := int64(2)
		raw := &Val{K: VList}
		for i := int64(0); i < int64(len(words))*cfg.size+offset; i++ {
			raw.L = append(raw.L, vbool(false))
		}
		var want []bool
		for _, w := range data {
			switch w {
			case 1, mask - 1:
				for j := int64(0); j < cfg.size-1; j++ {
					want = append(want, w > 1)
				}
			default:
				for b := cfg.size - 1; b >= 0; b-- {
					want = append(want, w>>uint(b)&1 == 1)
				}
			}
		}
		h := &rpf{unroll: 100000, maxSteps: 2000000}
		h.selHook = func(rr *rpf, sel *ast.SelectorExpr) (*Val, bool) {
			if id, ok := sel.X.(*ast.Ident); ok {
				if pn, isPkg := rr.p.TypesInfo.Uses[id].(*types.PkgName); isPkg && strings.HasSuffix(pn.Imported().Path(), "/reedsolomon") {
					if _, isVar := rr.p.TypesInfo.Uses[sel.Sel].(*types.Var); isVar {
						return vstr(sel.Sel.Name), true
					}
				}
			}
			if sel.Sel.Name == "ddata" {
				return &Val{K: VStruct, Ptr: true, Fields: map[string]*Val{}}, true
			}
			return nil, false
		}
		h.callHook = func(rr *rpf, call *ast.CallExpr, callee types.Object) (*Val, bool) {
			fn, ok := callee.(*types.Func)
			if !ok {
				return nil, false
			}
			switch fn.Name() {
			case "GetNbLayers":
				return vint(cfg.L), true
			case "GetNbDatablocks":
				return vint(int64(len(data))), true
			case "IsCompact":
				return vbool(cfg.L == 1), true
			case "readCode":
				st, ln := rr.expr(call.Args[1]), rr.expr(call.Args[2])
				if st.K != VInt || ln.K != VInt || ln.I != cfg.size || (st.I-offset)%cfg.size != 0 || st.I < offset || (st.I-offset)/cfg.size >= int64(len(words)) {
					rpfFail("readCode is not applied at the codeword positions (S-AZCUT decides them)")
				}
				return vint(words[(st.I-offset)/cfg.size]), true
			case "NewReedSolomonDecoder":
				return &Val{K: VStruct, Ptr: true, Fields: map[string]*Val{}}, true
			case "Decode":
				if isMethodNamed(callee, "common/reedsolomon", "ReedSolomonDecoder", "Decode") {
					return &Val{K: VNil}, true
				}
			}
			return errCtorHook(rr, call, callee)
		}
		h.env = map[types.Object]*Val{recvObj(p, fd): {K: VStruct, Ptr: true, Fields: map[string]*Val{"ddata": {K: VStruct, Ptr: true, Fields: map[string]*Val{}}}}}
		res, err := c.rpfCall(fd, p, []*Val{raw}, h)
		bad := ""
		switch {
		case err != nil && strings.Contains(err.Error(), "out of range"):
			bad = "the expansion indexes outside its storage (" + err.Error() + "): a run-time panic"
		case err != nil:
			bad = "?" + err.Error()
		case len(res) != 2 || res[1].K != VNil || res[0].K != VStruct || res[0].Fields["correctBits"] == nil || res[0].Fields["correctBits"].K != VList:
			bad = fmt.Sprintf("?the fold does not return corrected bits without error (%v)", res)
		default:
			got := res[0].Fields["correctBits"].L
			if len(got) != len(want) {
				bad = fmt.Sprintf("the data codewords %v expand to %d bits, ISO 24778 un-stuffing gives %d", data, len(got), len(want))
				break
			}
			for i, g := range got {
				if g.K != VBool {
					bad = fmt.Sprintf("?bit %d of the result is not a constant", i)
					break
				}
				if g.B != want[i] {
					// which codeword
					pos, cw := 0, 0
					for k, w := range data {
						n := int(cfg.size)
						if w == 1 || w == mask-1 {
							n--
						}
						if i < pos+n {
							cw = k
							break
						}
						pos += n
					}
					bad = fmt.Sprintf("data codewords %v: bit %d of the result (bit %d of what codeword %d = %#x stands for) is %v, ISO 24778 un-stuffing gives %v", data, i, i-pos, cw, data[cw], g.B, want[i])
					break
				}
			}
		}
		reportFold(r, c, "S-AZUNSTUFF", key, fd.Pos(), bad)
	}
}
