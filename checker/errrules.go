package main

import (
	"fmt"
	"go/constant"
	"go/token"
	"go/types"
	"sort"
	"strings"

	"golang.org/x/tools/go/ssa"
)

// ---- frozen tables (one row each, confirmed by reading) ----

// E-NIL: a maybe-nil value is used without a dominating test, and the reason it cannot be nil here
// E-PANIC: single-result assertions whose dynamic type is fixed by the library itself
var frozenAsserts = map[string]string{
	"(*oned.OneDReader).Decode:assert#0":                                   "the ORIENTATION metadata value is only ever stored by doDecode as the int constant 180",
	"(*qrcode/detector.FinderPatternFinder).Find:assert#0":                 "ResultPoint_OrderBestPatterns returns the three values it was given, all *FinderPattern",
	"(*qrcode/detector.FinderPatternFinder).Find:assert#1":                 "see assert#0",
	"(*qrcode/detector.FinderPatternFinder).Find:assert#2":                 "see assert#0",
	"(*multi/qrcode/detector.MultiFinderPatternFinder).FindMulti:assert#0": "ResultPoint_OrderBestPatterns returns the three *FinderPattern values it was given",
	"(*multi/qrcode/detector.MultiFinderPatternFinder).FindMulti:assert#1": "see assert#0",
	"(*multi/qrcode/detector.MultiFinderPatternFinder).FindMulti:assert#2": "see assert#0",
	"gozxing.NewHybridBinarizer:assert#0":                                  "NewGlobalHistgramBinarizer always returns a *GlobalHistogramBinarizer",
	"gozxing.newException:assert#0":                                        "discharged by E-FMTARG: every call of a New*Exception constructor passes a string as its first argument",
}

var frozenNilUses = map[string]string{
	"(*datamatrix.DataMatrixWriter).Encode<-datamatrix/encoder.SymbolInfo_Lookup#0":           "called with fail=true: the function then returns an error, never (nil, nil); that error cannot occur because EncodeHighLevel already performed the same lookup successfully (see the E-DROP row of this site)",
	"qrcode/decoder.DataBlock_GetDataBlocks<-(*qrcode/decoder.Version).GetECBlocksForLevel#0": "the level comes from FormatInformation, built by ErrorCorrectionLevel_ForBits on two bits: always one of L, M, Q, H (T-ECLEVEL)",
}

// E-KIND: (caller -> callee) rows where a callee that can produce a raw error cannot fail at that site
var frozenRawGuards = map[string]string{
	"(*gozxing.GlobalHistogramBinarizer).GetBlackMatrix -> gozxing.NewBitMatrix":                             "width, height >= 1: every image has at least one pixel (the property's own quantifier)",
	"(*qrcode/decoder.BitMatrixParser).ReadVersion -> qrcode/decoder.Version_GetVersionForNumber":            "provisionalVersion is in 1..6 here: NewBitMatrixParser accepted only dimension >= 21 with dimension mod 4 == 1, and this return is under `provisionalVersion <= 6`",
	"datamatrix/decoder.decodeBase256Segment -> (*golang.org/x/text/encoding.Decoder).Bytes":                 "ISO-8859-1 decoding is total: every byte value maps to a code point",
	"(*oned.OneDReader).Decode -> (*gozxing.BinaryBitmap).RotateCounterClockwise":                            "reached only under `image.IsRotateSupported()`, the capability test that makes RotateCounterClockwise succeed",
	"(*oned.OneDReader).doDecode -> (*gozxing.BinaryBitmap).GetBlackRow":                                     "the row number passed `rowNumber < 0 || rowNumber >= height -> break` just above, so GetRow cannot report a range error; the remaining error is NotFound",
	"qrcode/decoder.Version_GetProvisionalVersionForDimension -> qrcode/decoder.Version_GetVersionForNumber": "pass-through helper used by the detector only with a computed dimension; its callers wrap the error (ProcessFinderPatternInfo -> WrapFormatException)",
}

// ---- E-KIND ----

func runEKIND(c *Ctx, r *Report, nf *nilFlow, readers []*ssa.Function, min int) {
	r.Rule("E-KIND", "errors returned by the image-level readers (every implementation of gozxing.Reader.Decode) are of the documented not-found, checksum or format kinds: the set of kinds is computed as a fixpoint over returns, by the marker interfaces the concrete error types implement; WrapReaderException is transparent; a raw error source is accepted only through a frozen (caller -> callee) row with its precondition", min)
	kf := nf.kf
	g := kf.guards
	kf2 := kf
	seen := map[*ssa.Function]bool{}
	for _, f := range readers {
		if seen[f] {
			continue
		}
		seen[f] = true
		key := shortFn(f)
		ks := kf2.kinds[f]
		bad := kindsSubset(ks, kNotFound, kChecksum, kFormat)
		if len(bad) == 0 {
			r.Pass("E-KIND", key, c.pos(f.Pos()), fmt.Sprintf("kinds %v", ks.list()))
			continue
		}
		var origins []string
		for _, k := range bad {
			for _, o := range kf2.kindOrigins(f, k, 3) {
				origins = append(origins, k+": "+o)
			}
		}
		r.Fail("E-KIND", key, c.pos(f.Pos()), "violation", fmt.Sprintf("may return errors of kinds %v outside {NotFound, Checksum, Format}; e.g. %s", bad, strings.Join(origins, " ;; ")))
	}
	var used []string
	for k := range g.used {
		used = append(used, k+": "+frozenRawGuards[k])
	}
	sort.Strings(used)
	r.Extra("ekind_guard_rows_used", used)
	for _, u := range used {
		r.Assume("E-KIND precondition — " + u)
	}
	_ = kf
}

func (c *Ctx) newKindFlowGuarded(nf *nilFlow, g *rawGuards) *kindFlow {
	kf := c.newKindFlowWith(nf, g)
	return kf
}

// ---- E-PANIC ----

func isHintMap(t types.Type) bool {
	m, ok := t.Underlying().(*types.Map)
	if !ok {
		return false
	}
	n, ok := m.Key().(*types.Named)
	if !ok {
		return false
	}
	return n.Obj().Name() == "DecodeHintType" || n.Obj().Name() == "EncodeHintType"
}

func fromHintMap(v ssa.Value, depth int) bool {
	if depth > 5 {
		return false
	}
	switch x := v.(type) {
	case *ssa.Lookup:
		return isHintMap(x.X.Type())
	case *ssa.Extract:
		if lk, ok := x.Tuple.(*ssa.Lookup); ok {
			return isHintMap(lk.X.Type())
		}
		if nx, ok := x.Tuple.(*ssa.Next); ok {
			if rg, ok := nx.Iter.(*ssa.Range); ok {
				return isHintMap(rg.X.Type())
			}
		}
	case *ssa.Phi:
		for _, e := range x.Edges {
			if !fromHintMap(e, depth+1) {
				return false
			}
		}
		return len(x.Edges) > 0
	}
	return false
}

func runEPANIC(c *Ctx, r *Report, reach map[*ssa.Function]bool, scope string) {
	r.MovedRows("E-PANIC", frozenAsserts)
	r.Rule("E-PANIC", "no explicit panic, no recover, and no single-result type assertion on a value other than a hint-map element, in any function reachable from the entry points (one obligation per reachable package, plus one per site found)", 3)
	byPkg := map[string]int{}
	var fs []*ssa.Function
	for f := range reach {
		fs = append(fs, f)
	}
	sort.Slice(fs, func(i, j int) bool { return fs[i].String() < fs[j].String() })
	hintAsserts := 0
	found := map[string]bool{}
	for _, f := range fs {
		if f.Blocks == nil {
			continue
		}
		pk := "?"
		if f.Pkg != nil {
			pk = trimMod(f.Pkg.Pkg.Path())
		} else if f.Object() != nil && f.Object().Pkg() != nil {
			pk = trimMod(f.Object().Pkg().Path())
		}
		byPkg[pk]++
		ord := 0
		for _, b := range f.Blocks {
			for _, in := range b.Instrs {
				switch x := in.(type) {
				case *ssa.Panic:
					key := fmt.Sprintf("%s:panic#%d", shortFn(f), ord)
					ord++
					found[pk] = true
					r.Fail("E-PANIC", key, c.pos(x.Pos()), "violation", "explicit panic reachable from "+scope)
				case *ssa.TypeAssert:
					if x.CommaOk {
						continue
					}
					if fromHintMap(x.X, 0) {
						hintAsserts++
						continue
					}
					// the type-switch lowering emits an unconditional assert after a successful comma-ok test of the same value
					if guardedByOkAssert(x) {
						continue
					}
					key := fmt.Sprintf("%s:assert#%d", shortFn(f), ord)
					ord++
					if why, ok := frozenAsserts[key]; ok {
						r.Pass("E-PANIC", key, c.pos(x.Pos()), "frozen: "+why)
						continue
					}
					found[pk] = true
					r.Fail("E-PANIC", key, c.pos(x.Pos()), "violation", fmt.Sprintf("type assertion to %s without the comma-ok form panics when the dynamic type differs (reachable from %s)", trimMod(x.AssertedType.String()), scope))
				case *ssa.Call:
					if b, ok := x.Call.Value.(*ssa.Builtin); ok && b.Name() == "recover" {
						key := fmt.Sprintf("%s:recover#%d", shortFn(f), ord)
						ord++
						found[pk] = true
						r.Fail("E-PANIC", key, c.pos(x.Pos()), "violation", "recover() would hide panics; the nil analysis assumes recover blocks are dead")
					}
				}
			}
		}
	}
	var pks []string
	for p := range byPkg {
		pks = append(pks, p)
	}
	sort.Strings(pks)
	for _, p := range pks {
		if !found[p] {
			r.Pass("E-PANIC", p+" (package)", "", fmt.Sprintf("%d reachable functions scanned", byPkg[p]))
		}
	}
	r.Assume(fmt.Sprintf("hint values are of the accepted types: %d single-result assertions on hint-map elements are not counted as panics (the properties quantify over well-typed hints)", hintAsserts))
}

// guardedByOkAssert: x is `typeassert v.(T)` in a block reached only when some `typeassert,ok v.(U)` succeeded
// where every U-value is a T-value (type-switch `case A, B:` bodies), or U == T.
func guardedByOkAssert(x *ssa.TypeAssert) bool {
	b := x.Block()
	okPreds := 0
	for _, p := range b.Preds {
		if len(p.Instrs) == 0 {
			return false
		}
		ifi, ok := p.Instrs[len(p.Instrs)-1].(*ssa.If)
		if !ok || p.Succs[0] != b || p.Succs[0] == p.Succs[1] {
			return false
		}
		ex, ok := ifi.Cond.(*ssa.Extract)
		if !ok || ex.Index != 1 {
			return false
		}
		ta, ok := ex.Tuple.(*ssa.TypeAssert)
		if !ok || !ta.CommaOk || ta.X != x.X {
			return false
		}
		if !types.AssignableTo(ta.AssertedType, x.AssertedType) {
			if it, isI := x.AssertedType.Underlying().(*types.Interface); !isI || !types.Implements(ta.AssertedType, it) {
				return false
			}
		}
		okPreds++
	}
	return okPreds > 0
}

// ---- integer facts for E-MAKE / E-DIV ----

type intFact struct {
	nonZero bool
	nonNeg  bool
	pos     bool
}

func constIntOf(v ssa.Value) (int64, bool) {
	c, ok := v.(*ssa.Const)
	if !ok || c.Value == nil || c.Value.Kind() != constant.Int {
		return 0, false
	}
	return c.Int64(), true
}

// intFactsAt collects, from dominating comparisons with constants, what is known about integer values at b.
func intFactsAt(b *ssa.BasicBlock) map[ssa.Value]*intFact { return intFactsEdge(b, nil) }

// intFactsEdge: facts at the end of block b, plus (when succ != nil) the condition of the edge b -> succ
func intFactsEdge(b *ssa.BasicBlock, succ *ssa.BasicBlock) map[ssa.Value]*intFact {
	facts := map[ssa.Value]*intFact{}
	get := func(v ssa.Value) *intFact {
		if f, ok := facts[v]; ok {
			return f
		}
		f := &intFact{}
		facts[v] = f
		return f
	}
	type edge struct{ p, d *ssa.BasicBlock }
	var edges []edge
	if succ != nil {
		edges = append(edges, edge{b, succ})
	}
	for d := b; d != nil; d = d.Idom() {
		if len(d.Preds) == 1 {
			edges = append(edges, edge{d.Preds[0], d})
		}
	}
	for _, e := range edges {
		p, d := e.p, e.d
		if len(p.Instrs) == 0 {
			continue
		}
		ifi, ok := p.Instrs[len(p.Instrs)-1].(*ssa.If)
		if !ok || p.Succs[0] == p.Succs[1] {
			continue
		}
		pol := p.Succs[0] == d
		bo, ok := ifi.Cond.(*ssa.BinOp)
		if !ok {
			continue
		}
		op := bo.Op
		var v ssa.Value
		var k int64
		if kk, isC := constIntOf(bo.Y); isC {
			v, k = bo.X, kk
		} else if kk, isC := constIntOf(bo.X); isC {
			v, k = bo.Y, kk
			// flip: k op v  ==  v op' k
			switch op {
			case token.LSS:
				op = token.GTR
			case token.LEQ:
				op = token.GEQ
			case token.GTR:
				op = token.LSS
			case token.GEQ:
				op = token.LEQ
			}
		} else {
			continue
		}
		if !pol {
			switch op {
			case token.EQL:
				op = token.NEQ
			case token.NEQ:
				op = token.EQL
			case token.LSS:
				op = token.GEQ
			case token.LEQ:
				op = token.GTR
			case token.GTR:
				op = token.LEQ
			case token.GEQ:
				op = token.LSS
			}
		}
		f := get(v)
		switch op {
		case token.NEQ:
			if k == 0 {
				f.nonZero = true
			}
		case token.EQL:
			if k != 0 {
				f.nonZero = true
			}
			if k >= 0 {
				f.nonNeg = true
			}
			if k > 0 {
				f.pos = true
			}
		case token.GTR:
			if k >= 0 {
				f.pos, f.nonNeg, f.nonZero = true, true, true
			} else if k >= -1 {
				f.nonNeg = true
			}
		case token.GEQ:
			if k >= 1 {
				f.pos, f.nonNeg, f.nonZero = true, true, true
			} else if k >= 0 {
				f.nonNeg = true
			}
		case token.LSS:
			if k <= 0 {
				f.nonZero = true
			}
		case token.LEQ:
			if k < 0 {
				f.nonZero = true
			}
		}
	}
	return facts
}

// positive: is v provably >= 1 at block b (depth-limited structural reasoning)?
var posAssume = map[ssa.Value]bool{}

func provablyPositive(v ssa.Value, facts map[ssa.Value]*intFact, depth int) bool {
	if k, ok := constIntOf(v); ok {
		return k >= 1
	}
	if posAssume[v] {
		return true
	}
	if f, ok := facts[v]; ok && f.pos {
		return true
	}
	if f, ok := facts[v]; ok && f.nonZero && provablyNonNeg(v, map[ssa.Value]*intFact{}, depth+1) {
		return true
	}
	if depth > 4 {
		return false
	}
	switch x := v.(type) {
	case *ssa.BinOp:
		switch x.Op {
		case token.ADD:
			return (provablyPositive(x.X, facts, depth+1) && provablyNonNeg(x.Y, facts, depth+1)) || (provablyNonNeg(x.X, facts, depth+1) && provablyPositive(x.Y, facts, depth+1))
		case token.MUL:
			return provablyPositive(x.X, facts, depth+1) && provablyPositive(x.Y, facts, depth+1)
		}
	case *ssa.Convert:
		return provablyPositive(x.X, facts, depth+1)
	case *ssa.Phi:
		// induction: assume the phi positive while checking its incoming values (base edges must still hold)
		if depth > 3 {
			return false
		}
		posAssume[x] = true
		defer delete(posAssume, x)
		for i, e := range x.Edges {
			ef := intFactsEdge(x.Block().Preds[i], x.Block())
			if !provablyPositive(e, ef, depth+1) {
				return false
			}
		}
		return len(x.Edges) > 0
	case *ssa.Extract:
		if call, ok := x.Tuple.(*ssa.Call); ok && nonZeroHook != nil && nonZeroHook(call, x.Index) {
			return true
		}
	case *ssa.Call:
		if nonZeroHook != nil && nonZeroHook(x, 0) {
			return true
		}
	}
	return false
}

// nonZeroHook: the call's i-th result is provably >= 1 whenever its error result is nil (callee summary)
var nonZeroHook func(call *ssa.Call, idx int) bool

func provablyNonNeg(v ssa.Value, facts map[ssa.Value]*intFact, depth int) bool {
	if k, ok := constIntOf(v); ok {
		return k >= 0
	}
	if f, ok := facts[v]; ok && (f.nonNeg || f.pos) {
		return true
	}
	if depth > 4 {
		return false
	}
	switch x := v.(type) {
	case *ssa.BinOp:
		switch x.Op {
		case token.ADD, token.MUL:
			return provablyNonNeg(x.X, facts, depth+1) && provablyNonNeg(x.Y, facts, depth+1)
		case token.QUO, token.SHR:
			return provablyNonNeg(x.X, facts, depth+1) && (x.Op == token.SHR || provablyPositive(x.Y, facts, depth+1))
		case token.REM:
			return provablyNonNeg(x.X, facts, depth+1)
		case token.AND:
			return provablyNonNeg(x.X, facts, depth+1) || provablyNonNeg(x.Y, facts, depth+1)
		}
	case *ssa.Convert:
		if bt, ok := x.X.Type().Underlying().(*types.Basic); ok && bt.Info()&types.IsUnsigned != 0 {
			return true
		}
		return provablyNonNeg(x.X, facts, depth+1)
	case *ssa.Phi:
		for i, e := range x.Edges {
			ef := intFactsEdge(x.Block().Preds[i], x.Block())
			ef[x] = &intFact{nonNeg: true}
			if !provablyNonNeg(e, ef, depth+1) {
				return false
			}
		}
		return len(x.Edges) > 0
	case *ssa.Call:
		if b, ok := x.Call.Value.(*ssa.Builtin); ok && (b.Name() == "len" || b.Name() == "cap") {
			return true
		}
	}
	if bt, ok := v.Type().Underlying().(*types.Basic); ok && bt.Info()&types.IsUnsigned != 0 {
		return true
	}
	return false
}

// hasDifference: the value is computed with a subtraction of non-constants (within a few steps)
func hasDifference(v ssa.Value, depth int) bool {
	if depth > 4 {
		return false
	}
	switch x := v.(type) {
	case *ssa.BinOp:
		if x.Op == token.SUB {
			if _, isC := constIntOf(x.Y); isC {
				if _, isC2 := constIntOf(x.X); isC2 {
					return false
				}
			}
			return true
		}
		return hasDifference(x.X, depth+1) || hasDifference(x.Y, depth+1)
	case *ssa.Convert:
		return hasDifference(x.X, depth+1)
	case *ssa.Phi:
		for _, e := range x.Edges {
			if hasDifference(e, depth+1) {
				return true
			}
		}
	case *ssa.UnOp:
		if x.Op == token.SUB {
			return true
		}
	}
	return false
}

var frozenMake = map[string]string{
	"(*common/reedsolomon.GenericGFPoly).Multiply:make#0":           "aLength + bLength - 1 with both coefficient lists non-empty (NewGenericGFPoly rejects empty lists)",
	"(*aztec/decoder.Decoder).correctBits:make#1":                   "stuffedBits counts at most one position per data codeword, each codeword having codewordSize >= 6 bits, so the difference is >= 0",
	"(*common/reedsolomon.GenericGFPoly).MultiplyByMonomial:make#0": "size + degree with degree >= 0 checked above",
	"(oned.codabarEncoder).encodeWithHints:make#0":                  "contents has at least two characters on this path (shorter input gets the default guards added), so len(contents) - 1 >= 1 and resultLength starts at 20",
}

func runEMAKE(c *Ctx, r *Report, reach map[*ssa.Function]bool, scope string) {
	r.MovedRows("E-MAKE", frozenMake)
	r.Rule("E-MAKE", "a make() whose length or capacity is computed with a subtraction of non-constants is dominated by a test that makes it non-negative, or sits in the frozen table with its reason; one obligation per such site among the functions reachable from the entry points", 2)
	var fs []*ssa.Function
	for f := range reach {
		fs = append(fs, f)
	}
	sort.Slice(fs, func(i, j int) bool { return fs[i].String() < fs[j].String() })
	for _, f := range fs {
		ord := 0
		for _, b := range f.Blocks {
			for _, in := range b.Instrs {
				ms, ok := in.(*ssa.MakeSlice)
				if !ok {
					continue
				}
				key := fmt.Sprintf("%s:make#%d", shortFn(f), ord)
				ord++
				var risky []ssa.Value
				for _, v := range []ssa.Value{ms.Len, ms.Cap} {
					if v != nil && hasDifference(v, 0) {
						risky = append(risky, v)
					}
				}
				if len(risky) == 0 {
					continue
				}
				facts := intFactsAt(b)
				ok2 := true
				for _, v := range risky {
					if !provablyNonNeg(v, facts, 0) {
						ok2 = false
					}
				}
				if ok2 {
					r.Pass("E-MAKE", key, c.pos(ms.Pos()), "non-negative by dominating tests / structure")
					continue
				}
				if why, fr := frozenMake[key]; fr {
					r.Pass("E-MAKE", key, c.pos(ms.Pos()), "frozen: "+why)
					continue
				}
				r.Fail("E-MAKE", key, c.pos(ms.Pos()), "violation", "slice size is a difference of run-time values with no dominating non-negativity test: a negative size panics (reachable from "+scope+")")
			}
		}
	}
}

var frozenDiv = map[string]string{
	"(*aztec/decoder.Decoder).correctBits:div#2":                  "numCodewords >= numDataCodewords (tested above, FormatException otherwise) and numDataCodewords >= 1 (the detector computes (bits & mask) + 1)",
	"(*common/reedsolomon.GenericGF).Multiply:div#0":              "size - 1 with size a power of two >= 16 (T-GF checks the six field constructions)",
	"(*gozxing.BitMatrix).GetBottomRightOnBit:div#0":              "rowSize = (width+31)/32 >= 1: NewBitMatrix rejects width < 1",
	"(*gozxing.BitMatrix).GetBottomRightOnBit:div#1":              "rowSize >= 1 (see div#0)",
	"(*gozxing.BitMatrix).GetTopLeftOnBit:div#0":                  "rowSize = (width+31)/32 >= 1: NewBitMatrix rejects width < 1",
	"(*gozxing.BitMatrix).GetTopLeftOnBit:div#1":                  "rowSize >= 1 (see div#0)",
	"datamatrix/decoder.DataBlocks_getDataBlocks:div#0":           "inside `for j := 0; j < numResultBlocks`, so numResultBlocks >= 1",
	"datamatrix/decoder.extractDataRegion:div#0":                  "dataRegionSizeRows is a positive entry of the versions table (T-DMVER)",
	"datamatrix/decoder.extractDataRegion:div#1":                  "dataRegionSizeColumns is a positive entry of the versions table (T-DMVER)",
	"datamatrix.convertByteMatrixToBitMatrix:div#0":               "matrixWidth is the width of the ByteMatrix built by encodeLowLevel from a symbols row: >= 10",
	"datamatrix.convertByteMatrixToBitMatrix:div#1":               "matrixHeight >= 8 (see div#0)",
	"datamatrix.encodeLowLevel:div#0":                             "GetMatrixHeight() is the positive region height of a symbols row (T-DMSYM)",
	"datamatrix.encodeLowLevel:div#1":                             "GetMatrixWidth() is the positive region width of a symbols row (T-DMSYM)",
	"datamatrix.encodeLowLevel:div#2":                             "GetMatrixHeight() > 0 (see div#0)",
	"datamatrix.encodeLowLevel:div#3":                             "GetMatrixWidth() > 0 (see div#1)",
	"datamatrix/encoder.defaultGetInterleavedBlockCount:div#0":    "rsBlockData is positive for every row that keeps the default function; the 144x144 row (rsBlockData = -1) installs its own (T-DM144)",
	"qrcode.renderResult:div#0":                                   "qrWidth = odd matrix dimension + 2*quietZone is odd, hence never zero",
	"qrcode.renderResult:div#1":                                   "qrHeight is odd (see div#0)",
	"qrcode/encoder.MaskUtil_applyMaskPenaltyRule4:div#0":         "numTotalCells = dimension^2 >= 441",
	"qrcode/encoder.getNumDataBytesAndNumECBytesForBlockID:div#0": "numRSBlocks is the block count of a VERSIONS entry: >= 1 (T-QRVER)",
	"qrcode/encoder.getNumDataBytesAndNumECBytesForBlockID:div#1": "numRSBlocks >= 1 (see div#0)",
	"qrcode/encoder.getNumDataBytesAndNumECBytesForBlockID:div#2": "numRSBlocks >= 1 (see div#0)",
}

// boundedBelow: on every path to b a test `x < d` (or `d > x`) held for a provably non-negative x, so d >= 1.
// This is the shape of a loop body `for i := 0; i < d; i++ { ... % d ... }`.
func boundedBelow(d ssa.Value, b *ssa.BasicBlock, facts map[ssa.Value]*intFact) bool {
	for blk := b; blk != nil; blk = blk.Idom() {
		if len(blk.Preds) != 1 {
			continue
		}
		p := blk.Preds[0]
		if len(p.Instrs) == 0 {
			continue
		}
		ifi, ok := p.Instrs[len(p.Instrs)-1].(*ssa.If)
		if !ok || p.Succs[0] == p.Succs[1] {
			continue
		}
		cmp, ok := ifi.Cond.(*ssa.BinOp)
		if !ok {
			continue
		}
		onTrue := p.Succs[0] == blk
		var x ssa.Value
		switch {
		case cmp.Op == token.LSS && cmp.Y == d && onTrue: // x < d
			x = cmp.X
		case cmp.Op == token.GTR && cmp.X == d && onTrue: // d > x
			x = cmp.Y
		case cmp.Op == token.GEQ && cmp.Y == d && !onTrue: // !(x >= d)
			x = cmp.X
		case cmp.Op == token.LEQ && cmp.X == d && !onTrue: // !(d <= x)
			x = cmp.Y
		default:
			continue
		}
		if provablyNonNeg(x, facts, 0) {
			return true
		}
	}
	return false
}

func runEDIV(c *Ctx, r *Report, reach map[*ssa.Function]bool, scope string) {
	r.MovedRows("E-DIV", frozenDiv)
	r.Rule("E-DIV", "an integer division or remainder whose divisor is not a non-zero constant is dominated by a test excluding zero, or the divisor is structurally positive (sum/product of positive terms, len()+k, ...), or sits in the frozen table with its reason; functions reachable from the entry points", 5)
	var fs []*ssa.Function
	for f := range reach {
		fs = append(fs, f)
	}
	sort.Slice(fs, func(i, j int) bool { return fs[i].String() < fs[j].String() })
	for _, f := range fs {
		ord := 0
		for _, b := range f.Blocks {
			for _, in := range b.Instrs {
				bo, ok := in.(*ssa.BinOp)
				if !ok || (bo.Op != token.QUO && bo.Op != token.REM) {
					continue
				}
				bt, ok := bo.X.Type().Underlying().(*types.Basic)
				if !ok || bt.Info()&types.IsInteger == 0 {
					continue
				}
				if k, isC := constIntOf(bo.Y); isC {
					if k == 0 {
						r.Fail("E-DIV", fmt.Sprintf("%s:div#%d", shortFn(f), ord), c.pos(bo.Pos()), "violation", "division by the constant zero")
					}
					continue
				}
				key := fmt.Sprintf("%s:div#%d", shortFn(f), ord)
				ord++
				facts := intFactsAt(b)
				if ff, ok := facts[bo.Y]; ok && (ff.nonZero || ff.pos) {
					r.Pass("E-DIV", key, c.pos(bo.Pos()), "dominating test excludes zero")
					continue
				}
				if provablyPositive(bo.Y, facts, 0) {
					r.Pass("E-DIV", key, c.pos(bo.Pos()), "divisor structurally positive")
					continue
				}
				if boundedBelow(bo.Y, b, facts) {
					r.Pass("E-DIV", key, c.pos(bo.Pos()), "a dominating comparison keeps a non-negative value strictly below the divisor")
					continue
				}
				if ex, isEx := bo.Y.(*ssa.Extract); isEx {
					if call, isCall := ex.Tuple.(*ssa.Call); isCall && nonZeroHook != nil && nonZeroHook(call, ex.Index) {
						r.Pass("E-DIV", key, c.pos(bo.Pos()), "callee returns a non-zero value whenever its error is nil")
						continue
					}
				}
				if why, fr := frozenDiv[key]; fr {
					r.Pass("E-DIV", key, c.pos(bo.Pos()), "frozen: "+why)
					continue
				}
				r.Fail("E-DIV", key, c.pos(bo.Pos()), "violation", "integer division/remainder by a run-time value that no dominating test keeps away from zero (reachable from "+scope+")")
			}
		}
	}
}

// ---- E-FMTARG ----

func runEFMTARG(c *Ctx, r *Report) {
	r.Rule("E-FMTARG", "every call of New{NotFound,Checksum,Format,Writer}Exception with arguments passes a value of static type string first (newException asserts args[0].(string))", 50)
	ctors := map[types.Object]bool{}
	for _, n := range []string{"NewNotFoundException", "NewChecksumException", "NewFormatException", "NewWriterException"} {
		if o := c.lookupObj("", n); o != nil {
			ctors[o] = true
		} else {
			r.AnchorLost("E-FMTARG", "gozxing."+n, "constructor not found")
		}
	}
	for _, f := range c.repoFuncs() {
		ord := map[string]int{}
		for _, b := range f.Blocks {
			for _, in := range b.Instrs {
				call, ok := in.(*ssa.Call)
				if !ok {
					continue
				}
				sc := call.Common().StaticCallee()
				if sc == nil || sc.Object() == nil || !ctors[sc.Object()] {
					continue
				}
				key := fmt.Sprintf("%s:%s#%d", shortFn(f), sc.Name(), ord[sc.Name()])
				ord[sc.Name()]++
				// variadic ...interface{}: the argument is a slice built from the call's operands; nil slice = no args
				args := call.Common().Args
				okArg := true
				if len(args) == 1 {
					okArg = firstVariadicIsString(args[0])
				}
				r.Check(okArg, "E-FMTARG", key, c.pos(call.Pos()), "the first argument of the exception constructor is not a string: newException's args[0].(string) panics")
			}
		}
	}
}

// firstVariadicIsString: v is the []interface{} passed to a variadic parameter; true if it is nil/empty or its
// element 0 is a MakeInterface of a string-typed value.
func firstVariadicIsString(v ssa.Value) bool {
	switch x := v.(type) {
	case *ssa.Const:
		return x.IsNil()
	case *ssa.Slice:
		alloc, ok := x.X.(*ssa.Alloc)
		if !ok {
			return false
		}
		for _, ref := range *alloc.Referrers() {
			ia, ok := ref.(*ssa.IndexAddr)
			if !ok {
				continue
			}
			if k, isC := constIntOf(ia.Index); !isC || k != 0 {
				continue
			}
			for _, r2 := range *ia.Referrers() {
				if st, ok := r2.(*ssa.Store); ok {
					mi, ok := st.Val.(*ssa.MakeInterface)
					if !ok {
						return false
					}
					bt, ok := mi.X.Type().Underlying().(*types.Basic)
					return ok && bt.Info()&types.IsString != 0
				}
			}
		}
		return false
	}
	return false
}
