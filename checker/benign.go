package main

import (
	"bytes"
	"fmt"
	"go/ast"
	"go/format"
	"go/token"
	"go/types"
	"os"
	"strings"

	"golang.org/x/tools/go/ast/astutil"
	"golang.org/x/tools/go/packages"
)

// renameLocals is a development aid for hunting false alarms: it rewrites, in place, every Go file of the (scratch) copy
// of the module under dir so that every local variable, parameter, named result and receiver carries a new name. The
// rewritten tree behaves exactly as before; any alarm a check raises on it is a false alarm of that check.
func renameLocals(dir, suffix string) error {
	env := append(os.Environ(), "GOWORK=off", "GOFLAGS=-mod=mod", "GOPROXY=off", "GOSUMDB=off", "GOTOOLCHAIN=local")
	cfg := &packages.Config{Mode: packages.LoadSyntax, Dir: dir, Tests: false, Env: env}
	pkgs, err := packages.Load(cfg, "./...")
	if err != nil {
		return err
	}
	files, idents := 0, 0
	for _, p := range pkgs {
		if !strings.HasPrefix(p.PkgPath, modPath) || len(p.Errors) > 0 {
			if len(p.Errors) > 0 {
				return fmt.Errorf("%s: %v", p.PkgPath, p.Errors[0])
			}
			continue
		}
		local := func(o types.Object) bool {
			v, ok := o.(*types.Var)
			if !ok || v.IsField() || v.Pkg() == nil || v.Name() == "_" || v.Name() == "" {
				return false
			}
			return v.Parent() != v.Pkg().Scope()
		}
		names := map[types.Object]string{}
		for i, f := range p.Syntax {
			changed := false
			tsObj := map[types.Object]string{} // implicit per-clause objects of type switches -> the new name of their symbol
			ast.Inspect(f, func(n ast.Node) bool {
				if ts, ok := n.(*ast.TypeSwitchStmt); ok {
					// `switch x := v.(type)`: x has no object of its own, only one implicit object per clause
					if as, ok := ts.Assign.(*ast.AssignStmt); ok && len(as.Lhs) == 1 {
						if id, ok := as.Lhs[0].(*ast.Ident); ok && id.Name != "_" {
							nm := fmt.Sprintf("%sts%d", suffix, len(tsObj)+1)
							id.Name = nm
							for _, cl := range ts.Body.List {
								if io := p.TypesInfo.Implicits[cl]; io != nil {
									tsObj[io] = nm
								}
							}
						}
					}
					return true
				}
				id, ok := n.(*ast.Ident)
				if !ok {
					return true
				}
				o := p.TypesInfo.Defs[id]
				if o == nil {
					o = p.TypesInfo.Uses[id]
				}
				if o != nil && local(o) {
					// a fresh name that shares nothing with the old one (implicit type-switch objects keep the
					// name of their symbol: see above)
					if nm, isTS := tsObj[o]; isTS {
						id.Name = nm
					} else {
						if names[o] == "" {
							names[o] = fmt.Sprintf("%s%d", suffix, len(names)+1)
						}
						id.Name = names[o]
					}
					changed = true
					idents++
				}
				return true
			})
			// implicit objects of type switches (`switch x := v.(type)`) are renamed through their Defs-less idents above
			if !changed {
				continue
			}
			var buf bytes.Buffer
			if err := format.Node(&buf, p.Fset, f); err != nil {
				return err
			}
			if err := os.WriteFile(p.CompiledGoFiles[i], buf.Bytes(), 0o644); err != nil {
				return err
			}
			files++
		}
	}
	fmt.Printf("renamed %d identifiers in %d files\n", idents, files)
	return nil
}

// benignRewrite applies one behaviour-preserving statement-level rewrite to every file of the scratch copy at dir:
//
//	incdec     x++ / x--           ->  x += 1 / x -= 1
//	opassign   x op= y             ->  x = x op (y)        (x a plain variable)
//	vardecl    x := v              ->  var x = v           (single variable, statement position in a block)
//	elsehoist  if c {...return} else {B}  ->  if c {...return}; B   (no init statement, then-branch ends in return)
func benignRewrite(dir, kind string) error {
	env := append(os.Environ(), "GOWORK=off", "GOFLAGS=-mod=mod", "GOPROXY=off", "GOSUMDB=off", "GOTOOLCHAIN=local")
	cfg := &packages.Config{Mode: packages.LoadSyntax, Dir: dir, Tests: false, Env: env}
	pkgs, err := packages.Load(cfg, "./...")
	if err != nil {
		return err
	}
	opOf := map[token.Token]token.Token{token.ADD_ASSIGN: token.ADD, token.SUB_ASSIGN: token.SUB, token.MUL_ASSIGN: token.MUL,
		token.QUO_ASSIGN: token.QUO, token.REM_ASSIGN: token.REM, token.AND_ASSIGN: token.AND, token.OR_ASSIGN: token.OR,
		token.XOR_ASSIGN: token.XOR, token.SHL_ASSIGN: token.SHL, token.SHR_ASSIGN: token.SHR, token.AND_NOT_ASSIGN: token.AND_NOT}
	sites, files := 0, 0
	for _, p := range pkgs {
		if !strings.HasPrefix(p.PkgPath, modPath) {
			continue
		}
		if len(p.Errors) > 0 {
			return fmt.Errorf("%s: %v", p.PkgPath, p.Errors[0])
		}
		for i, f := range p.Syntax {
			before := sites
			astutil.Apply(f, nil, func(c *astutil.Cursor) bool {
				switch x := c.Node().(type) {
				case *ast.IncDecStmt:
					if kind == "incdec" {
						tok := token.ADD_ASSIGN
						if x.Tok == token.DEC {
							tok = token.SUB_ASSIGN
						}
						c.Replace(&ast.AssignStmt{Lhs: []ast.Expr{x.X}, TokPos: x.TokPos, Tok: tok, Rhs: []ast.Expr{&ast.BasicLit{Kind: token.INT, Value: "1"}}})
						sites++
					}
				case *ast.AssignStmt:
					switch kind {
					case "opassign":
						op, ok := opOf[x.Tok]
						if !ok || len(x.Lhs) != 1 {
							return true
						}
						id, ok := x.Lhs[0].(*ast.Ident)
						if !ok {
							return true
						}
						x.Tok = token.ASSIGN
						x.Rhs[0] = &ast.BinaryExpr{X: &ast.Ident{Name: id.Name}, Op: op, Y: &ast.ParenExpr{X: x.Rhs[0]}}
						sites++
					case "vardecl":
						if x.Tok != token.DEFINE || len(x.Lhs) != 1 || len(x.Rhs) != 1 {
							return true
						}
						if _, inBlock := c.Parent().(*ast.BlockStmt); !inBlock {
							return true
						}
						id, ok := x.Lhs[0].(*ast.Ident)
						if !ok || id.Name == "_" || p.TypesInfo.Defs[id] == nil {
							return true
						}
						c.Replace(&ast.DeclStmt{Decl: &ast.GenDecl{Tok: token.VAR, Specs: []ast.Spec{&ast.ValueSpec{Names: []*ast.Ident{id}, Values: []ast.Expr{x.Rhs[0]}}}}})
						sites++
					}
				case *ast.IfStmt:
					if kind != "elsehoist" || x.Init != nil || x.Else == nil || len(x.Body.List) == 0 {
						return true
					}
					if _, inBlock := c.Parent().(*ast.BlockStmt); !inBlock {
						return true
					}
					if _, isRet := x.Body.List[len(x.Body.List)-1].(*ast.ReturnStmt); !isRet {
						return true
					}
					els := x.Else
					x.Else = nil
					if blk, isBlk := els.(*ast.BlockStmt); isBlk {
						// the statements of the else block follow the if; declarations in them now live in the
						// enclosing block, so only hoist when they declare nothing
						declares := false
						for _, st := range blk.List {
							switch y := st.(type) {
							case *ast.DeclStmt:
								declares = true
							case *ast.AssignStmt:
								if y.Tok == token.DEFINE {
									declares = true
								}
							}
						}
						if declares {
							c.InsertAfter(blk)
						} else {
							for k := len(blk.List) - 1; k >= 0; k-- {
								c.InsertAfter(blk.List[k])
							}
						}
					} else {
						c.InsertAfter(els)
					}
					sites++
				}
				return true
			})
			if sites == before {
				continue
			}
			var buf bytes.Buffer
			if err := format.Node(&buf, p.Fset, f); err != nil {
				return err
			}
			if err := os.WriteFile(p.CompiledGoFiles[i], buf.Bytes(), 0o644); err != nil {
				return err
			}
			files++
		}
	}
	fmt.Printf("%s: %d sites in %d files\n", kind, sites, files)
	return nil
}
