package main

import (
	"bytes"
	"fmt"
	"go/ast"
	"go/format"
	"go/token"
	"go/types"
	"os"
	"strings"

	"golang.org/x/tools/go/ast/astutil"
	"golang.org/x/tools/go/packages"
)

// renameLocals is a development aid for hunting false alarms: it rewrites, in place, every Go file of the (scratch) copy
// of the module under dir so that every local variable, parameter, named result and receiver carries a new name. The
// rewritten tree behaves exactly as before; any alarm a check raises on it is a false alarm of that check.
func renameLocals(dir, suffix string) error {
	env := append(os.Environ(), "GOWORK=off", "GOFLAGS=-mod=mod", "GOPROXY=off", "GOSUMDB=off", "GOTOOLCHAIN=local")
	cfg := &packages.Config{Mode: packages.LoadSyntax, Dir: dir, Tests: false, Env: env}
	pkgs, err := packages.Load(cfg, "./...")
	if err != nil {
		return err
	}
	files, idents := 0, 0
	for _, p := range pkgs {
		if !strings.HasPrefix(p.PkgPath, modPath) || len(p.Errors) > 0 {
			if len(p.Errors) > 0 {
				return fmt.Errorf("%s: %v", p.PkgPath, p.Errors[0])
			}
			continue
		}
		local := func(o types.Object) bool {
			v, ok := o.(*types.Var)
			if !ok || v.IsField() || v.Pkg() == nil || v.Name() == "_" || v.Name() == "" {
				return false
			}
			return v.Parent() != v.Pkg().Scope()
		}
		names := map[types.Object]string{}
		for i, f := range p.Syntax {
			changed := false
			tsObj := map[types.Object]string{} // implicit per-clause objects of type switches -> the new name of their symbol
			ast.Inspect(f, func(n ast.Node) bool {
				if ts, ok := n.(*ast.TypeSwitchStmt); ok {
					// `switch x := v.(type)`: x has no object of its own, only one implicit object per clause
					if as, ok := ts.Assign.(*ast.AssignStmt); ok && len(as.Lhs) == 1 {
						if id, ok := as.Lhs[0].(*ast.Ident); ok && id.Name != "_" {
							nm := fmt.Sprintf("%sts%d", suffix, len(tsObj)+1)
							id.Name = nm
							for _, cl := range ts.Body.List {
								if io := p.TypesInfo.Implicits[cl]; io != nil {
									tsObj[io] = nm
								}
							}
						}
					}
					return true
				}
				id, ok := n.(*ast.Ident)
				if !ok {
					return true
				}
				o := p.TypesInfo.Defs[id]
				if o == nil {
					o = p.TypesInfo.Uses[id]
				}
				if o != nil && local(o) {
					// a fresh name that shares nothing with the old one (implicit type-switch objects keep the
					// name of their symbol: see above)
					if nm, isTS := tsObj[o]; isTS {
						id.Name = nm
					} else {
						if names[o] == "" {
							names[o] = fmt.Sprintf("%s%d", suffix, len(names)+1)
						}
						id.Name = names[o]
					}
					changed = true
					idents++
				}
				return true
			})
			// implicit objects of type switches (`switch x := v.(type)`) are renamed through their Defs-less idents above
			if !changed {
				continue
			}
			var buf bytes.Buffer
			if err := format.Node(&buf, p.Fset, f); err != nil {
				return err
			}
			if err := os.WriteFile(p.CompiledGoFiles[i], buf.Bytes(), 0o644); err != nil {
				return err
			}
			files++
		}
	}
	fmt.Printf("renamed %d identifiers in %d files\n", idents, files)
	return nil
}

// benignRewrite applies one behaviour-preserving statement-level rewrite to every file of the scratch copy at dir:
//
//	incdec     x++ / x--           ->  x += 1 / x -= 1
//	opassign   x op= y             ->  x = x op (y)        (x a plain variable)
//	vardecl    x := v              ->  var x = v           (single variable, statement position in a block)
//	elsehoist  if c {...return} else {B}  ->  if c {...return}; B   (no init statement, then-branch ends in return)
func benignRewrite(dir, kind string) error {
	env := append(os.Environ(), "GOWORK=off", "GOFLAGS=-mod=mod", "GOPROXY=off", "GOSUMDB=off", "GOTOOLCHAIN=local")
	cfg := &packages.Config{Mode: packages.LoadSyntax, Dir: dir, Tests: false, Env: env}
	pkgs, err := packages.Load(cfg, "./...")
	if err != nil {
		return err
	}
	opOf := map[token.Token]token.Token{token.ADD_ASSIGN: token.ADD, token.SUB_ASSIGN: token.SUB, token.MUL_ASSIGN: token.MUL,
		token.QUO_ASSIGN: token.QUO, token.REM_ASSIGN: token.REM, token.AND_ASSIGN: token.AND, token.OR_ASSIGN: token.OR,
		token.XOR_ASSIGN: token.XOR, token.SHL_ASSIGN: token.SHL, token.SHR_ASSIGN: token.SHR, token.AND_NOT_ASSIGN: token.AND_NOT}
	sites, files := 0, 0
	for _, p := range pkgs {
		if !strings.HasPrefix(p.PkgPath, modPath) {
			continue
		}
		if len(p.Errors) > 0 {
			return fmt.Errorf("%s: %v", p.PkgPath, p.Errors[0])
		}
		for i, f := range p.Syntax {
			before := sites
			var consts []string
			funcDepth = 0
			astutil.Apply(f, func(c *astutil.Cursor) bool {
				if fd, ok := c.Node().(*ast.FuncDecl); ok && fd.Body != nil {
					funcDepth++
				}
				return true
			}, func(c *astutil.Cursor) bool {
				if fd, ok := c.Node().(*ast.FuncDecl); ok && fd.Body != nil {
					defer func() { funcDepth-- }()
				}
				switch x := c.Node().(type) {
				case *ast.IncDecStmt:
					if kind == "incdec" {
						tok := token.ADD_ASSIGN
						if x.Tok == token.DEC {
							tok = token.SUB_ASSIGN
						}
						c.Replace(&ast.AssignStmt{Lhs: []ast.Expr{x.X}, TokPos: x.TokPos, Tok: tok, Rhs: []ast.Expr{&ast.BasicLit{Kind: token.INT, Value: "1"}}})
						sites++
					}
				case *ast.AssignStmt:
					switch kind {
					case "opassign":
						op, ok := opOf[x.Tok]
						if !ok || len(x.Lhs) != 1 {
							return true
						}
						id, ok := x.Lhs[0].(*ast.Ident)
						if !ok {
							return true
						}
						x.Tok = token.ASSIGN
						x.Rhs[0] = &ast.BinaryExpr{X: &ast.Ident{Name: id.Name}, Op: op, Y: &ast.ParenExpr{X: x.Rhs[0]}}
						sites++
					case "vardecl":
						if x.Tok != token.DEFINE || len(x.Lhs) != 1 || len(x.Rhs) != 1 {
							return true
						}
						if _, inBlock := c.Parent().(*ast.BlockStmt); !inBlock {
							return true
						}
						id, ok := x.Lhs[0].(*ast.Ident)
						if !ok || id.Name == "_" || p.TypesInfo.Defs[id] == nil {
							return true
						}
						c.Replace(&ast.DeclStmt{Decl: &ast.GenDecl{Tok: token.VAR, Specs: []ast.Spec{&ast.ValueSpec{Names: []*ast.Ident{id}, Values: []ast.Expr{x.Rhs[0]}}}}})
						sites++
					}
				case *ast.BasicLit:
					// constlit: an integer literal inside a function body becomes a named package-level constant
					if kind != "constlit" || x.Kind != token.INT || !inFunc(c) {
						return true
					}
					if _, isCase := c.Parent().(*ast.CaseClause); isCase {
						return true // duplicate-case detection is by value either way; keep the literal readable
					}
					if tv, ok := p.TypesInfo.Types[x]; !ok || tv.Value == nil {
						return true
					}
					name := fmt.Sprintf("zqK%d_%d", i, len(consts))
					consts = append(consts, name+" = "+x.Value)
					c.Replace(&ast.Ident{Name: name, NamePos: x.Pos()})
					sites++
				case *ast.ForStmt:
					// rangeloop: for i := 0; i < len(X); i++ { ... }  ->  for i := range X { ... }
					// when the body neither assigns i nor X (X a plain variable) and i is not used after the loop
					if kind != "rangeloop" {
						return true
					}
					init, ok1 := x.Init.(*ast.AssignStmt)
					cond, ok2 := x.Cond.(*ast.BinaryExpr)
					post, ok3 := x.Post.(*ast.IncDecStmt)
					if !ok1 || !ok2 || !ok3 || init.Tok != token.DEFINE || len(init.Lhs) != 1 || cond.Op != token.LSS || post.Tok != token.INC {
						return true
					}
					iv, ok := init.Lhs[0].(*ast.Ident)
					if lit, isL := init.Rhs[0].(*ast.BasicLit); !ok || !isL || lit.Value != "0" {
						return true
					}
					ci, okc := cond.X.(*ast.Ident)
					pi, okp := post.X.(*ast.Ident)
					call, okl := cond.Y.(*ast.CallExpr)
					if !okc || !okp || !okl || ci.Name != iv.Name || pi.Name != iv.Name || len(call.Args) != 1 {
						return true
					}
					if fn, isI := call.Fun.(*ast.Ident); !isI || fn.Name != "len" {
						return true
					}
					xv, okx := call.Args[0].(*ast.Ident)
					if !okx {
						return true
					}
					if _, isStr := p.TypesInfo.TypeOf(xv).Underlying().(*types.Basic); isStr {
						return true // ranging over a string walks runes, not bytes
					}
					iobj, xobj := p.TypesInfo.Defs[iv], p.TypesInfo.Uses[xv]
					assigned := false
					ast.Inspect(x.Body, func(n ast.Node) bool {
						switch y := n.(type) {
						case *ast.AssignStmt:
							for _, l := range y.Lhs {
								if id, isI := l.(*ast.Ident); isI && (p.TypesInfo.Uses[id] == iobj || p.TypesInfo.Uses[id] == xobj) {
									assigned = true
								}
							}
						case *ast.IncDecStmt:
							if id, isI := y.X.(*ast.Ident); isI && p.TypesInfo.Uses[id] == iobj {
								assigned = true
							}
						case *ast.UnaryExpr:
							if y.Op == token.AND {
								assigned = true
							}
						}
						return true
					})
					if assigned {
						return true
					}
					c.Replace(&ast.RangeStmt{For: x.For, Key: iv, Tok: token.DEFINE, X: xv, Body: x.Body})
					sites++
				case *ast.FuncDecl:
					if kind != "elsewrap" || x.Body == nil {
						return true
					}
					// from the last statement backwards: `if c { ...; return }` followed by more statements
					// becomes `if c { ...; return } else { the rest }`
					list := x.Body.List
					for k := len(list) - 2; k >= 0; k-- {
						ifs, ok := list[k].(*ast.IfStmt)
						if !ok || ifs.Else != nil || len(ifs.Body.List) == 0 {
							continue
						}
						if _, isRet := ifs.Body.List[len(ifs.Body.List)-1].(*ast.ReturnStmt); !isRet {
							continue
						}
						hasLabel := false
						for _, st := range list[k+1:] {
							if _, isL := st.(*ast.LabeledStmt); isL {
								hasLabel = true
							}
						}
						if hasLabel {
							continue
						}
						ifs.Else = &ast.BlockStmt{List: append([]ast.Stmt(nil), list[k+1:]...)}
						list = list[:k+1]
						sites++
					}
					x.Body.List = list
				case *ast.IfStmt:
					if kind == "swapif" {
						blk, ok := x.Else.(*ast.BlockStmt)
						if !ok || x.Init != nil {
							return true
						}
						x.Cond = &ast.UnaryExpr{Op: token.NOT, X: &ast.ParenExpr{X: x.Cond}}
						x.Body, x.Else = blk, x.Body
						sites++
						return true
					}
					if kind != "elsehoist" || x.Init != nil || x.Else == nil || len(x.Body.List) == 0 {
						return true
					}
					if _, inBlock := c.Parent().(*ast.BlockStmt); !inBlock {
						return true
					}
					if _, isRet := x.Body.List[len(x.Body.List)-1].(*ast.ReturnStmt); !isRet {
						return true
					}
					els := x.Else
					x.Else = nil
					if blk, isBlk := els.(*ast.BlockStmt); isBlk {
						// the statements of the else block follow the if; declarations in them now live in the
						// enclosing block, so only hoist when they declare nothing
						declares := false
						for _, st := range blk.List {
							switch y := st.(type) {
							case *ast.DeclStmt:
								declares = true
							case *ast.AssignStmt:
								if y.Tok == token.DEFINE {
									declares = true
								}
							}
						}
						if declares {
							c.InsertAfter(blk)
						} else {
							for k := len(blk.List) - 1; k >= 0; k-- {
								c.InsertAfter(blk.List[k])
							}
						}
					} else {
						c.InsertAfter(els)
					}
					sites++
				}
				return true
			})
			if sites == before {
				continue
			}
			var buf bytes.Buffer
			if err := format.Node(&buf, p.Fset, f); err != nil {
				return err
			}
			if len(consts) > 0 {
				buf.WriteString("\nconst (\n\t" + strings.Join(consts, "\n\t") + "\n)\n")
			}
			if err := os.WriteFile(p.CompiledGoFiles[i], buf.Bytes(), 0o644); err != nil {
				return err
			}
			files++
		}
	}
	fmt.Printf("%s: %d sites in %d files\n", kind, sites, files)
	return nil
}

// inFunc: is the cursor's node inside a function body? (approximated: not directly under a declaration spec)
func inFunc(c *astutil.Cursor) bool {
	switch c.Parent().(type) {
	case *ast.ValueSpec, *ast.ArrayType, *ast.Field, *ast.KeyValueExpr, *ast.CompositeLit:
		return false
	}
	return funcDepth > 0
}

var funcDepth int
