package main

import (
	"fmt"
	"go/ast"
	"go/importer"
	"go/parser"
	"go/token"
	"go/types"
	"math"
	"math/big"
	"strings"

	"golang.org/x/tools/go/packages"
	"golang.org/x/tools/go/types/typeutil"
)

func init() {
	registerProp("C20", "1-D run-length primitives obey their contract", checkC20)
}

// pureCallee: functions without side effects whose result is the only reason to call them.
func pureCallee(o types.Object) bool {
	switch f := o.(type) {
	case *types.Builtin:
		switch f.Name() {
		case "len", "cap", "make", "new", "append", "complex", "real", "imag", "min", "max":
			return true
		}
	case *types.Func:
		if f.Pkg() == nil {
			return false
		}
		switch f.Pkg().Path() {
		case "math", "math/bits", "strconv", "strings", "unicode", "unicode/utf8", "errors", "sort":
			if f.Pkg().Path() == "sort" {
				return strings.HasPrefix(f.Name(), "Search") || strings.HasSuffix(f.Name(), "AreSorted") || f.Name() == "IsSorted"
			}
			return f.Type().(*types.Signature).Recv() == nil
		case "fmt":
			return strings.HasPrefix(f.Name(), "Sprint") || f.Name() == "Errorf"
		case "golang.org/x/xerrors":
			return f.Name() == "New" || f.Name() == "Errorf"
		case modPath:
			// exception constructors
			n := f.Name()
			return f.Type().(*types.Signature).Recv() == nil && (strings.HasPrefix(n, "New") || strings.HasPrefix(n, "Wrap")) && strings.HasSuffix(n, "Exception")
		}
	}
	return false
}

// ePure reports every expression statement that is a call of a side-effect-free function.
func ePure(fset *token.FileSet, info *types.Info, files []*ast.File, report func(call *ast.CallExpr, callee types.Object, fn string)) int {
	n := 0
	for _, f := range files {
		var cur string
		ast.Inspect(f, func(nd ast.Node) bool {
			if fd, ok := nd.(*ast.FuncDecl); ok {
				cur = fd.Name.Name
			}
			es, ok := nd.(*ast.ExprStmt)
			if !ok {
				return true
			}
			n++
			call, ok := es.X.(*ast.CallExpr)
			if !ok {
				return true
			}
			callee := typeutil.Callee(info, call)
			if callee != nil && pureCallee(callee) {
				report(call, callee, cur)
			}
			return true
		})
	}
	return n
}

const ePurePositive = `package p
import "math"
func f(a, b int) float64 {
	if a < b {
		math.Inf(1)
	}
	return float64(a) / float64(b)
}
`

func ePureSelfCheck() error {
	fset := token.NewFileSet()
	f, err := parser.ParseFile(fset, "positive.go", ePurePositive, 0)
	if err != nil {
		return err
	}
	info := &types.Info{Uses: map[*ast.Ident]types.Object{}, Defs: map[*ast.Ident]types.Object{}, Types: map[ast.Expr]types.TypeAndValue{}, Selections: map[*ast.SelectorExpr]*types.Selection{}}
	conf := types.Config{Importer: importer.ForCompiler(fset, "source", nil)}
	if _, err := conf.Check("p", fset, []*ast.File{f}, info); err != nil {
		return err
	}
	hits := 0
	ePure(fset, info, []*ast.File{f}, func(*ast.CallExpr, types.Object, string) { hits++ })
	if hits != 1 {
		return fmt.Errorf("positive example matched %d times, expected 1", hits)
	}
	return nil
}

// runEPure applies E-PURE to the given packages (nil = all repository packages).
func runEPure(c *Ctx, r *Report, rels []string) {
	r.Rule("E-PURE", "no call of a side-effect-free function (math.*, strconv.*, len, exception constructors, ...) stands alone as a statement: a computed value that is dropped is a forgotten return/assignment (one obligation per package scanned, plus the built-in positive example that must match on every run)", 2)
	if err := ePureSelfCheck(); err != nil {
		r.Fail("E-PURE", "selfcheck.positive-example", "", "checker-failure", "the rule's positive example no longer matches: "+err.Error())
	} else {
		r.Pass("E-PURE", "selfcheck.positive-example", "", "")
	}
	var pkgs []*packages.Package
	if rels == nil {
		pkgs = c.PkgList
	} else {
		for _, rel := range rels {
			if p := c.pkg(rel); p != nil {
				pkgs = append(pkgs, p)
			} else {
				r.AnchorLost("E-PURE", rel, "package not found")
			}
		}
	}
	for _, p := range pkgs {
		if strings.HasSuffix(p.PkgPath, "/testutil") {
			continue
		}
		rel := strings.TrimPrefix(strings.TrimPrefix(p.PkgPath, modPath), "/")
		if rel == "" {
			rel = "gozxing"
		}
		found := 0
		ords := map[string]int{}
		n := ePure(c.Fset, p.TypesInfo, p.Syntax, func(call *ast.CallExpr, callee types.Object, fn string) {
			found++
			k := fmt.Sprintf("%s.%s:%s#%d", rel, fn, shortObj(callee), ords[fn+shortObj(callee)])
			ords[fn+shortObj(callee)]++
			r.Fail("E-PURE", k, c.pos(call.Pos()), "violation",
				fmt.Sprintf("result of %s(...) is computed and discarded in %s: the value was meant to be returned or assigned", shortObj(callee), fn))
		})
		if found == 0 {
			r.Pass("E-PURE", rel+" (package)", "", fmt.Sprintf("%d expression statements scanned", n))
		}
		r.Analysed("package " + rel)
	}
}

func checkC20(c *Ctx, r *Report) {
	runEPure(c, r, []string{"oned", "oned/rss"})
	checkVariance(c, r)
	checkRecordPattern(c, r)
	checkVarianceCallers(c, r)
	checkRunsWhole(c, r)
	checkVarianceWhole(c, r)
	checkCountersCleared(c, r)
	checkStartGuardSearch(c, r)
	r.Note("not decided: the numeric contract for arbitrary counter vectors (floating-point scores are compared with the exact rational reference only on the enumerated small vectors); row lengths beyond the folded ones follow from the same loop shape but are not enumerated")
}

// accumulators: `acc += param[idx]` inside a loop, for the given parameter.
func findAccumulator(p *packages.Package, body ast.Node, param types.Object) types.Object {
	var acc types.Object
	ast.Inspect(body, func(n ast.Node) bool {
		as, ok := n.(*ast.AssignStmt)
		if !ok || as.Tok != token.ADD_ASSIGN || len(as.Lhs) != 1 {
			return true
		}
		ix, ok := as.Rhs[0].(*ast.IndexExpr)
		if !ok {
			return true
		}
		if id, ok := ix.X.(*ast.Ident); ok && p.TypesInfo.Uses[id] == param {
			if l, ok := as.Lhs[0].(*ast.Ident); ok {
				acc = p.TypesInfo.Uses[l]
			}
		}
		return true
	})
	return acc
}

func checkVariance(c *Ctx, r *Report) {
	r.Rule("M-INF", "PatternMatchVariance: (1) the test 'total of counters < total of pattern' returns +Inf; (2) inside the per-counter loop |counter - pattern*unit| > maxIndividualVariance*unit returns +Inf, with unit = total/patternLength in floating point; (3) every other return is (sum of those absolute deviations)/total", 3)
	fd, p := c.funcDeclOf("oned", "PatternMatchVariance")
	key := "oned.PatternMatchVariance"
	if fd == nil {
		r.AnchorLost("M-INF", key, "function not found")
		return
	}
	r.Analysed(key)
	ps := paramObjs(p, fd)
	if len(ps) != 3 {
		r.Undecided("M-INF", key, c.pos(fd.Pos()), "signature changed")
		return
	}
	total := findAccumulator(p, fd.Body, ps[0])
	plen := findAccumulator(p, fd.Body, ps[1])
	if total == nil || plen == nil {
		r.Undecided("M-INF", key, c.pos(fd.Pos()), "the two accumulators (sum of counters, sum of pattern) were not found")
		return
	}
	s := c.symFunc(fd, p, nil)
	// the accumulators' values after the summing loop: the atom they hold at the first return/cond that mentions them
	// (they are not reassigned later, so the final environment holds it)
	tA, okT := s.env[total]
	pA, okP := s.env[plen]
	if !okT || !okP {
		r.Undecided("M-INF", key, c.pos(fd.Pos()), "accumulators not lifted")
		return
	}
	inf := polyAtom("+Inf")
	// (1)
	found1 := false
	for _, rt := range s.rets {
		if len(rt.Vals) == 1 && rt.Vals[0].equal(inf) && len(rt.Conds) == 1 && condIs(rt.Conds[0], token.LSS, tA, pA) {
			found1 = true
		}
	}
	r.Check(found1, "M-INF", key+".too-few-pixels", c.pos(fd.Pos()),
		"no `return +Inf` is guarded by exactly (sum of counters) < (sum of pattern): with fewer pixels than modules the score must be infinite")
	// (2)
	unit := symDiv("fdiv", tA, pA)
	found2 := false
	var devTerm *Poly
	for _, rt := range s.rets {
		if len(rt.Vals) != 1 || !rt.Vals[0].equal(inf) || len(rt.Conds) < 2 {
			continue
		}
		last := rt.Conds[len(rt.Conds)-1]
		if last.op == token.ILLEGAL {
			continue
		}
		// find loop index atom: the deviation must be abs(idx(counters,K) - idx(pattern,K)*unit)
		for _, a := range s.assigns {
			_ = a
		}
		// construct expected with the K used in the condition: search K atoms in the text
		for _, k := range atomsWithPrefix(last.l.String()+last.r.String(), "K~") {
			K := polyAtom(k)
			cnt := polyAtom("idx(" + polyAtom(objAtom(ps[0])).String() + "," + K.String() + ")")
			pat := polyAtom("idx(" + polyAtom(objAtom(ps[1])).String() + "," + K.String() + ")")
			dev := symAbs(cnt.sub(pat.mul(unit)))
			lim := polyAtom(objAtom(ps[2])).mul(unit)
			if condIs(last, token.GTR, dev, lim) {
				found2 = true
				devTerm = dev
			}
		}
	}
	r.Check(found2, "M-INF", key+".individual-variance", c.pos(fd.Pos()),
		"no `return +Inf` under |counters[x] - pattern[x]*unit| > maxIndividualVariance*unit (unit = float(total)/float(patternLength)) inside the loop")
	// (3) the remaining return: fdiv(acc, total) with acc accumulating dev
	found3 := false
	msg := "final return is not (accumulated absolute deviation) / (sum of counters)"
	for _, rt := range s.rets {
		if len(rt.Vals) != 1 || rt.Vals[0].equal(inf) {
			continue
		}
		// which variable accumulates devTerm?
		for _, a := range s.assigns {
			if a.Tok == token.ADD_ASSIGN && a.Loop == 1 && devTerm != nil && a.Delta != nil && a.Delta.equal(devTerm) {
				if accA, ok := s.env[a.Obj]; ok && rt.Vals[0].equal(symDiv("fdiv", accA, tA)) {
					found3 = true
				}
			}
		}
	}
	nNonInf := 0
	for _, rt := range s.rets {
		if len(rt.Vals) == 1 && !rt.Vals[0].equal(inf) {
			nNonInf++
		}
	}
	if nNonInf != 1 {
		found3 = false
		msg = fmt.Sprintf("%d finite returns, expected exactly one", nNonInf)
	}
	r.Check(found3, "M-INF", key+".score", c.pos(fd.Pos()), msg)
}

func atomsWithPrefix(s, prefix string) []string {
	var out []string
	seen := map[string]bool{}
	for i := 0; i+len(prefix) <= len(s); i++ {
		if s[i:i+len(prefix)] == prefix {
			j := i + len(prefix)
			for j < len(s) && s[j] >= '0' && s[j] <= '9' {
				j++
			}
			a := s[i:j]
			if !seen[a] {
				seen[a] = true
				out = append(out, a)
			}
		}
	}
	return out
}

func checkRecordPattern(c *Ctx, r *Report) {
	r.Rule("M-RECORD", "RecordPattern returns NotFound when start >= row size and when the row ends before all counters are filled (the exit test folded over all small (position, counters, index, end)); RecordPatternInReverse reports NotFound when transitions run out and delegates to RecordPattern(row, start+1, counters)", 4)
	fd, p := c.funcDeclOf("oned", "RecordPattern")
	key := "oned.RecordPattern"
	if fd == nil {
		r.AnchorLost("M-RECORD", key, "function not found")
		return
	}
	r.Analysed(key)
	ps := paramObjs(p, fd)
	isNF := func(o types.Object) bool { return isFuncNamed(o, "", "NewNotFoundException") }
	s := c.symFunc(fd, p, func(o types.Object) bool { return isMethodNamed(o, "", "BitArray", "GetSize") || isNF(o) })
	// (a) start >= end -> NotFound
	okA := false
	for _, rt := range s.rets {
		if len(rt.Vals) == 1 && strings.HasPrefix(rt.Vals[0].String(), "call:gozxing.NewNotFoundException") && len(rt.Conds) == 1 {
			cd := rt.Conds[0]
			size := polyAtom("call:(*gozxing.BitArray).GetSize(" + polyAtom(objAtom(ps[0])).String() + ")")
			if condIs(cd, token.GEQ, polyAtom(objAtom(ps[1])), size) {
				okA = true
			}
		}
	}
	r.Check(okA, "M-RECORD", key+".start-beyond-end", c.pos(fd.Pos()), "no `return NotFound` guarded by start >= row.GetSize()")
	// (b) the exit test: an if whose body returns NotFound, after the loop; fold its condition
	var exitIf *ast.IfStmt
	for i, st := range fd.Body.List {
		if ifs, ok := st.(*ast.IfStmt); ok && i > 0 {
			if _, wasLoop := fd.Body.List[i-1].(*ast.ForStmt); wasLoop {
				exitIf = ifs
			}
		}
	}
	if exitIf == nil {
		r.Undecided("M-RECORD", key+".row-ended", c.pos(fd.Pos()), "exit test after the loop not found")
	} else {
		retNF := false
		if len(exitIf.Body.List) == 1 {
			if rs, ok := exitIf.Body.List[0].(*ast.ReturnStmt); ok && len(rs.Results) == 1 {
				if call, ok := rs.Results[0].(*ast.CallExpr); ok && isNF(typeutil.Callee(p.TypesInfo, call)) {
					retNF = true
				}
			}
		}
		// free variables of the condition
		vars := map[string]types.Object{}
		ast.Inspect(exitIf.Cond, func(n ast.Node) bool {
			if id, ok := n.(*ast.Ident); ok {
				if o := p.TypesInfo.Uses[id]; o != nil {
					if _, isVar := o.(*types.Var); isVar {
						vars[id.Name] = o
					}
				}
			}
			return true
		})
		// roles: numCounters = len(counters) ; end = row.GetSize(); counterPosition, i — identified by their defining statements
		roles := map[string]types.Object{}
		for _, st := range fd.Body.List {
			as, ok := st.(*ast.AssignStmt)
			if !ok || as.Tok != token.DEFINE || len(as.Lhs) != 1 {
				continue
			}
			obj := p.TypesInfo.Defs[as.Lhs[0].(*ast.Ident)]
			switch rhs := as.Rhs[0].(type) {
			case *ast.CallExpr:
				if id, ok := rhs.Fun.(*ast.Ident); ok && id.Name == "len" {
					roles["n"] = obj
				} else if isMethodNamed(typeutil.Callee(p.TypesInfo, rhs), "", "BitArray", "GetSize") {
					roles["end"] = obj
				}
			case *ast.Ident:
				if p.TypesInfo.Uses[rhs] == ps[1] {
					roles["i"] = obj
				} else if v, ok := constInt(p, rhs); ok && v == 0 { // a named constant 0
					roles["cp"] = obj
				}
			case *ast.BasicLit:
				if v, ok := constInt(p, rhs); ok && v == 0 {
					roles["cp"] = obj
				}
			}
		}
		bad := ""
		if !retNF {
			bad = "the exit test does not return NotFound"
		}
		if len(roles) != 4 {
			bad = "could not identify numCounters/end/counterPosition/index variables"
		}
		for n := int64(1); n <= 4 && bad == ""; n++ {
			for cp := int64(0); cp <= n && bad == ""; cp++ {
				for end := int64(1); end <= 3 && bad == ""; end++ {
					for i := int64(0); i <= end; i++ {
						env := map[types.Object]*Val{roles["n"]: vint(n), roles["cp"]: vint(cp), roles["end"]: vint(end), roles["i"]: vint(i)}
						v, err := c.rpfExpr(p, exitIf.Cond, env, nil)
						if err != nil {
							bad = "?" + err.Error()
							break
						}
						okState := cp == n || (cp == n-1 && i == end)
						if v.K != VBool || v.B != !okState {
							bad = fmt.Sprintf("numCounters=%d position=%d index=%d end=%d: exit test gives %v, contract: fail unless all counters filled or the last one was cut by the row end", n, cp, i, end, v)
							break
						}
					}
				}
			}
		}
		if bad != "" && bad[0] == '?' {
			r.Undecided("M-RECORD", key+".row-ended", c.pos(exitIf.Pos()), bad)
		} else {
			r.Check(bad == "", "M-RECORD", key+".row-ended", c.pos(exitIf.Pos()), bad)
		}
	}
	// reverse
	fd2, p2 := c.funcDeclOf("oned", "RecordPatternInReverse")
	key2 := "oned.RecordPatternInReverse"
	if fd2 == nil {
		r.AnchorLost("M-RECORD", key2, "function not found")
		return
	}
	r.Analysed(key2)
	ps2 := paramObjs(p2, fd2)
	// last statement: return RecordPattern(row, start+1, counters); start is loop-modified, so compare syntactically:
	okDelegate := false
	if rs, ok := fd2.Body.List[len(fd2.Body.List)-1].(*ast.ReturnStmt); ok && len(rs.Results) == 1 {
		if call, ok := rs.Results[0].(*ast.CallExpr); ok && isFuncNamed(typeutil.Callee(p2.TypesInfo, call), "oned", "RecordPattern") && len(call.Args) == 3 {
			s2 := c.newSymExec(p2)
			a1 := s2.expr(call.Args[1])
			want := polyAtom(objAtom(ps2[1])).add(polyInt(1))
			a0, ok0 := call.Args[0].(*ast.Ident)
			a2, ok2 := call.Args[2].(*ast.Ident)
			okDelegate = a1.equal(want) && ok0 && ok2 && p2.TypesInfo.Uses[a0] == ps2[0] && p2.TypesInfo.Uses[a2] == ps2[2]
		}
	}
	r.Check(okDelegate, "M-RECORD", key2+".delegate", c.pos(fd2.Pos()), "must end with `return RecordPattern(row, start+1, counters)`")
	// NotFound when numTransitionsLeft >= 0 after the loop
	okNF := false
	ast.Inspect(fd2.Body, func(n ast.Node) bool {
		ifs, ok := n.(*ast.IfStmt)
		if !ok || len(ifs.Body.List) != 1 {
			return true
		}
		rs, ok := ifs.Body.List[0].(*ast.ReturnStmt)
		if !ok || len(rs.Results) != 1 {
			return true
		}
		call, ok := rs.Results[0].(*ast.CallExpr)
		if !ok || !isNF(typeutil.Callee(p2.TypesInfo, call)) {
			return true
		}
		be, ok := ifs.Cond.(*ast.BinaryExpr)
		if !ok {
			return true
		}
		// fold cond for counter values -1, 0, 1
		var vobj types.Object
		for _, side := range []ast.Expr{be.X, be.Y} {
			if id, ok := ast.Unparen(side).(*ast.Ident); ok && vobj == nil {
				if v, isVar := p2.TypesInfo.Uses[id].(*types.Var); isVar {
					vobj = v
				}
			}
		}
		if vobj == nil {
			return true
		}
		good := true
		for _, t := range []int64{-1, 0, 1, 5} {
			v, err := c.rpfExpr(p2, ifs.Cond, map[types.Object]*Val{vobj: vint(t)}, nil)
			if err != nil || v.K != VBool || v.B != (t >= 0) {
				good = false
			}
		}
		if good {
			okNF = true
		}
		return true
	})
	r.Check(okNF, "M-RECORD", key2+".transitions-exhausted", c.pos(fd2.Pos()), "must return NotFound exactly when the remaining-transitions counter is still >= 0 after the scan")
}

// every caller compares the score with '<' (so +Inf and NaN are always rejected)
func checkVarianceCallers(c *Ctx, r *Report) {
	r.Rule("S-VARUSE", "every call of PatternMatchVariance feeds a strict '<' comparison against the accepted maximum (directly or through the variable it is assigned to), so an infinite score is never accepted", 7)
	target := c.lookupObj("oned", "PatternMatchVariance")
	if target == nil {
		r.AnchorLost("S-VARUSE", "oned.PatternMatchVariance", "function not found")
		return
	}
	for _, p := range c.PkgList {
		for _, f := range p.Syntax {
			for _, d := range f.Decls {
				fd, ok := d.(*ast.FuncDecl)
				if !ok || fd.Body == nil {
					continue
				}
				ord := 0
				ast.Inspect(fd.Body, func(n ast.Node) bool {
					call, ok := n.(*ast.CallExpr)
					if !ok || typeutil.Callee(p.TypesInfo, call) != target {
						return true
					}
					key := fmt.Sprintf("%s:call#%d", fdKey(p, fd), ord)
					ord++
					r.Check(scoreComparedStrictly(p, fd, call), "S-VARUSE", key, c.pos(call.Pos()),
						"the score is not compared with a strict '<' against a maximum")
					return true
				})
			}
		}
	}
}

func scoreComparedStrictly(p *packages.Package, fd *ast.FuncDecl, call *ast.CallExpr) bool {
	ok := false
	var holder types.Object
	ast.Inspect(fd.Body, func(n ast.Node) bool {
		switch x := n.(type) {
		case *ast.BinaryExpr:
			if x.Op == token.LSS && ast.Unparen(x.X) == ast.Expr(call) {
				ok = true
			}
			if x.Op == token.GTR && ast.Unparen(x.Y) == ast.Expr(call) {
				ok = true
			}
		case *ast.AssignStmt:
			for i, rhs := range x.Rhs {
				if rhs == ast.Expr(call) && i < len(x.Lhs) {
					if id, isId := x.Lhs[i].(*ast.Ident); isId {
						holder = p.TypesInfo.Defs[id]
						if holder == nil {
							holder = p.TypesInfo.Uses[id]
						}
					}
				}
			}
		}
		return true
	})
	if ok || holder == nil {
		return ok
	}
	// every comparison involving the holder must be strict with the holder on the small side, and there must be one
	cnt := 0
	bad := false
	ast.Inspect(fd.Body, func(n ast.Node) bool {
		be, isB := n.(*ast.BinaryExpr)
		if !isB {
			return true
		}
		l, lok := ast.Unparen(be.X).(*ast.Ident)
		rr, rok := ast.Unparen(be.Y).(*ast.Ident)
		lh := lok && p.TypesInfo.Uses[l] == holder
		rh := rok && p.TypesInfo.Uses[rr] == holder
		if !lh && !rh {
			return true
		}
		switch {
		case lh && be.Op == token.LSS, rh && be.Op == token.GTR:
			cnt++
		case be.Op == token.LEQ || be.Op == token.GEQ || be.Op == token.LSS || be.Op == token.GTR:
			bad = true // non-strict, or strict with the score on the large side
		case be.Op == token.EQL || be.Op == token.NEQ:
			// tie detection (ITF rejects ambiguous equal scores): cannot accept an infinite score
			// unless the bound itself is infinite, which the '<' initialisation excludes
		}
		return true
	})
	return cnt > 0 && !bad
}

// S-RUNS: RecordPattern / RecordPatternInReverse folded as whole functions against the run-length model
func checkRunsWhole(c *Ctx, r *Report) {
	r.Rule("S-RUNS", "RecordPattern(row, start, counters) returns exactly the lengths of the successive same-colour runs from start (the last one may end with the row) or NotFound when the row ends first; RecordPatternInReverse(row, start, counters) returns the len(counters) runs that precede the run containing start, or NotFound unless a further run lies to their left: both functions are folded (bounded unrolling over a model row) on every row of 1..8 pixels, every start and 1..4 counters, and compared with the run-length model; no pixel outside the row is read", 2)
	r.DecidedBy("M-RECORD", "S-RUNS", "both functions folded on every row of 1..8 pixels, every start and 1..4 counters against the run-length model")
	maxLen := 8
	if c.Tier == "thorough" {
		maxLen = 11
	}
	for _, name := range []string{"RecordPattern", "RecordPatternInReverse"} {
		fd, p := c.funcDeclOf("oned", name)
		key := "oned." + name + "/whole"
		if fd == nil {
			r.AnchorLost("S-RUNS", key, "function not found")
			continue
		}
		r.Analysed(key)
		bad := ""
		n := 0
		for L := 1; L <= maxLen && bad == ""; L++ {
			for bitsV := 0; bitsV < 1<<uint(L) && bad == ""; bitsV++ {
				row := make([]bool, L)
				for i := range row {
					row[i] = bitsV>>uint(i)&1 == 1
				}
				// run decomposition
				var runStart, runLen []int
				for i := 0; i < L; i++ {
					if i > 0 && row[i] == row[i-1] {
						runLen[len(runLen)-1]++
					} else {
						runStart = append(runStart, i)
						runLen = append(runLen, 1)
					}
				}
				runOf := func(pos int) int {
					for j := range runStart {
						if pos >= runStart[j] && pos < runStart[j]+runLen[j] {
							return j
						}
					}
					return -1
				}
				for start := 0; start <= L && bad == ""; start++ {
					if name == "RecordPatternInReverse" && start == L {
						continue // the contract requires start inside the row
					}
					for nc := 1; nc <= 4 && bad == ""; nc++ {
						n++
						// model
						var want []int64
						wantErr := false
						if name == "RecordPattern" {
							if start >= L {
								wantErr = true
							} else {
								j := runOf(start)
								first := runStart[j] + runLen[j] - start
								avail := []int64{int64(first)}
								for k := j + 1; k < len(runLen); k++ {
									avail = append(avail, int64(runLen[k]))
								}
								if len(avail) < nc {
									wantErr = true
								} else {
									want = avail[:nc]
								}
							}
						} else {
							j := runOf(start)
							if j < nc+1 {
								wantErr = true
							} else {
								for k := j - nc; k < j; k++ {
									want = append(want, int64(runLen[k]))
								}
							}
						}
						// stale content must be overwritten: what an earlier call on the same slice left behind - full
						// counters after a success, leading counts and trailing zeros after a row that ended early
						counters := &Val{K: VList, Local: true}
						for k := 0; k < nc; k++ {
							stale := int64(7)
							if (start+len(row))%2 == 1 && k >= (nc+1)/2 {
								stale = 0
							}
							counters.L = append(counters.L, vint(stale))
						}
						outside := false
						h := &rpf{unroll: 64, callHook: func(rr *rpf, call *ast.CallExpr, callee types.Object) (*Val, bool) {
							if isMethodNamed(callee, "", "BitArray", "GetSize") {
								return vint(int64(L)), true
							}
							if isMethodNamed(callee, "", "BitArray", "Get") {
								i := rr.expr(call.Args[0])
								if i.K != VInt || i.I < 0 || i.I >= int64(L) {
									outside = true
									return vbool(false), true
								}
								return vbool(row[i.I]), true
							}
							// the other queries of the bit array, answered by the model (their own correctness: S-WHOLE2 under C16)
							if isMethodNamed(callee, "", "BitArray", "GetNextSet") || isMethodNamed(callee, "", "BitArray", "GetNextUnset") {
								i := rr.expr(call.Args[0])
								if i.K != VInt || i.I < 0 {
									outside = true
									return vint(int64(L)), true
								}
								wantSet := isMethodNamed(callee, "", "BitArray", "GetNextSet")
								k := i.I
								for k < int64(L) && row[k] != wantSet {
									k++
								}
								if k > int64(L) {
									k = int64(L)
								}
								return vint(k), true
							}
							return errCtorHook(rr, call, callee)
						}}
						res, err := c.rpfCall(fd, p, []*Val{{K: VNil}, vint(int64(start)), counters}, h)
						desc := fmt.Sprintf("row %s, start %d, %d counters", rowString(row), start, nc)
						switch {
						case err != nil:
							bad = "?" + desc + ": " + err.Error()
						case outside:
							bad = desc + ": a pixel outside the row is read"
						case len(res) != 1:
							bad = "?" + desc + ": unexpected result shape"
						case (res[0].K != VNil) != wantErr:
							bad = fmt.Sprintf("%s: returns %s, the run-length model says %s", desc, map[bool]string{true: "an error", false: "success"}[res[0].K != VNil], map[bool]string{true: "the row ends first (NotFound)", false: fmt.Sprintf("runs %v", want)}[wantErr])
						case !wantErr:
							got, _ := listInts(counters)
							if fmt.Sprint(got) != fmt.Sprint(want) {
								bad = fmt.Sprintf("%s: counters %v, the runs are %v", desc, got, want)
							}
						}
					}
				}
			}
		}
		r.Extra("runs_folded_"+name, n)
		reportFold(r, c, "S-RUNS", key, fd.Pos(), bad)
	}
}

func rowString(row []bool) string {
	s := ""
	for _, b := range row {
		if b {
			s += "#"
		} else {
			s += "."
		}
	}
	return s
}

// S-VARWHOLE: PatternMatchVariance folded as a whole function against the exact rational reference
func checkVarianceWhole(c *Ctx, r *Report) {
	r.Rule("S-VARWHOLE", "PatternMatchVariance(counters, pattern, limit) folded (float64 arithmetic as in Go, loops unrolled) on every counter vector with entries 0..4 for four representative patterns and seven limits (0.48, 0.5, 0.7 as the readers use; 1.25, 2.5: a limit of a module or more tolerates an empty run; 0.125, 0.25: the allowance per run falls below half a pixel), and on their multiples by 2, 3 and 7: +Inf exactly when there are fewer pixels than modules or a run deviates by more than limit * unit, otherwise the total absolute deviation divided by the total width (reference in exact rational arithmetic, tolerance 1e-9; vectors sitting exactly on the limit are compared only where the float computation is exact), and the score of k*c equals the score of c", 1)
	fd, p := c.funcDeclOf("oned", "PatternMatchVariance")
	key := "oned.PatternMatchVariance/whole"
	if fd == nil {
		r.AnchorLost("S-VARWHOLE", key, "function not found")
		return
	}
	r.Analysed(key)
	patterns := [][]int64{{1, 1, 1, 1}, {3, 2, 1, 1}, {1, 1, 3}, {2, 1, 2, 2}}
	limits := []float64{0.5, 0.7, 0.48, 1.25, 2.5, 0.125, 0.25}
	hooks := &rpf{unroll: 64, callHook: func(rr *rpf, call *ast.CallExpr, callee types.Object) (*Val, bool) {
		if fn, ok := callee.(*types.Func); ok && fn.Pkg() != nil && fn.Pkg().Path() == "math" && fn.Name() == "Inf" {
			return &Val{K: VFloat, F: math.Inf(1)}, true
		}
		return nil, false
	}}
	bad := ""
	n := 0
	for _, pat := range patterns {
		if bad != "" {
			break
		}
		patLen := int64(0)
		for _, x := range pat {
			patLen += x
		}
		k := len(pat)
		total := 1
		for i := 0; i < k; i++ {
			total *= 5
		}
		for code := 0; code < total && bad == ""; code++ {
			base := make([]int64, k)
			x := code
			for i := 0; i < k; i++ {
				base[i] = int64(x % 5)
				x /= 5
			}
			for _, mult := range []int64{1, 2, 3, 7} {
				for _, lim := range limits {
					if bad != "" {
						continue
					}
					cs := make([]int64, k)
					tot := int64(0)
					for i := range cs {
						cs[i] = base[i] * mult
						tot += cs[i]
					}
					// exact reference
					inf := tot < patLen
					onLimit := false
					num := new(big.Rat) // sum of |c - p*unit|
					if !inf {
						unit := big.NewRat(tot, patLen)
						limR := new(big.Rat).SetFloat64(lim)
						maxDev := new(big.Rat).Mul(limR, unit)
						for i := range cs {
							dev := new(big.Rat).Sub(big.NewRat(cs[i], 1), new(big.Rat).Mul(big.NewRat(pat[i], 1), unit))
							dev.Abs(dev)
							switch dev.Cmp(maxDev) {
							case 1:
								inf = true
							case 0:
								onLimit = true
							}
							num.Add(num, dev)
						}
					}
					if onLimit && !(tot%patLen == 0 && lim == 0.5) {
						continue // float rounding decides; not a contract question
					}
					n++
					mk := func(xs []int64) *Val {
						v := &Val{K: VList}
						for _, e := range xs {
							v.L = append(v.L, vint(e))
						}
						return v
					}
					res, err := c.rpfCall(fd, p, []*Val{mk(cs), mk(pat), {K: VFloat, F: lim}}, hooks)
					desc := fmt.Sprintf("counters %v, pattern %v, limit %v", cs, pat, lim)
					if err != nil {
						bad = "?" + desc + ": " + err.Error()
						continue
					}
					if len(res) != 1 || res[0].K != VFloat {
						bad = "?" + desc + ": unexpected result"
						continue
					}
					got := res[0].F
					if inf {
						if !math.IsInf(got, 1) {
							bad = fmt.Sprintf("%s: score %v, the contract says +Inf (%s)", desc, got, map[bool]string{true: "fewer pixels than modules", false: "a run deviates by more than the limit"}[tot < patLen])
						}
						continue
					}
					want, _ := new(big.Rat).Quo(num, big.NewRat(tot, 1)).Float64()
					if math.IsInf(got, 0) || math.Abs(got-want) > 1e-9 {
						bad = fmt.Sprintf("%s: score %v, total deviation / total width is %v", desc, got, want)
					}
				}
			}
		}
	}
	r.Extra("variance_vectors_folded", n)
	reportFold(r, c, "S-VARWHOLE", key, fd.Pos(), bad)
	r.DecidedBy("M-INF", "S-VARWHOLE", "the whole function folded on every small counter vector: when +Inf is returned and what the score is otherwise")
}

// M-ZEROED: a recorder whose error is dropped works on counters the caller has just cleared
func checkCountersCleared(c *Ctx, r *Report) {
	r.Rule("M-ZEROED", "where the error of RecordPattern / RecordPatternInReverse is dropped (the RSS-14 data-character decoder: E-DROP discharges these two sites with \"on failure the counters stay zero or partial and the module-sum and parity checks reject the pair\"), the counters slice handed over is cleared in the same function before the call - a loop over all of its elements that stores 0, or clear() - with no other statement that writes it in between: RecordPatternInReverse reports a row that ended first before it has touched the counters, so without this the runs of the previous character would be decoded again", 2)
	isRec := func(o types.Object) bool {
		return isFuncNamed(o, "oned", "RecordPattern") || isFuncNamed(o, "oned", "RecordPatternInReverse")
	}
	n := 0
	for _, p := range c.PkgList {
		if !strings.Contains(p.PkgPath, "/oned") {
			continue
		}
		for _, f := range p.Syntax {
			for _, d := range f.Decls {
				fd, ok := d.(*ast.FuncDecl)
				if !ok || fd.Body == nil {
					continue
				}
				for _, call := range findCalls(p, fd.Body, isRec) {
					st := enclosingStmt(fd.Body, call)
					if _, isExpr := st.(*ast.ExprStmt); !isExpr {
						continue // the error is received: E-DROP / E-UNREAD look after it
					}
					n++
					fn := typeutil.Callee(p.TypesInfo, call).(*types.Func)
					key := fmt.Sprintf("%s:%s#%d", fdKey(p, fd), fn.Name(), n)
					r.Analysed(key)
					bad := ""
					cnt := identObj(p, call.Args[len(call.Args)-1])
					if cnt == nil {
						bad = "?the counters argument is not a variable"
					}
					// the clearing statement: top-level in the body, before the call
					var clearing ast.Stmt
					if bad == "" {
						for _, s := range fd.Body.List {
							if !wholeBefore(s, call) {
								break
							}
							if clearsAll(p, s, cnt) {
								clearing = s
							} else if clearing != nil && writesSlice(p, s, cnt) {
								clearing = nil // written again after the clearing
							}
						}
						if clearing == nil {
							bad = "the counters handed to " + fn.Name() + ", whose error is dropped, are not cleared before the call: when the row ends first they still hold the runs of the previous character"
						}
					}
					reportFold(r, c, "M-ZEROED", key, call.Pos(), bad)
				}
			}
		}
	}
}

// clearsAll: `for i := 0; i < len(s); i++ { s[i] = 0 }`, `for i := range s { s[i] = 0 }` or clear(s)
func clearsAll(p *packages.Package, st ast.Stmt, s types.Object) bool {
	storeZero := func(body *ast.BlockStmt, iv types.Object) bool {
		if body == nil || len(body.List) != 1 {
			return false
		}
		as, ok := body.List[0].(*ast.AssignStmt)
		if !ok || len(as.Lhs) != 1 || len(as.Rhs) != 1 || as.Tok != token.ASSIGN {
			return false
		}
		ix, ok := as.Lhs[0].(*ast.IndexExpr)
		if !ok || identObj(p, ix.X) != s || identObj(p, ix.Index) != iv || iv == nil {
			return false
		}
		v, isK := constInt(p, as.Rhs[0])
		return isK && v == 0
	}
	switch x := st.(type) {
	case *ast.ExprStmt:
		if call, ok := x.X.(*ast.CallExpr); ok && len(call.Args) == 1 {
			if b, isB := typeutil.Callee(p.TypesInfo, call).(*types.Builtin); isB && b.Name() == "clear" {
				return identObj(p, call.Args[0]) == s
			}
		}
	case *ast.RangeStmt:
		if identObj(p, x.X) == s && x.Key != nil && x.Value == nil {
			return storeZero(x.Body, identObj(p, x.Key))
		}
	case *ast.ForStmt:
		init, ok := x.Init.(*ast.AssignStmt)
		if !ok || len(init.Lhs) != 1 || len(init.Rhs) != 1 {
			return false
		}
		iv := identObj(p, init.Lhs[0])
		if z, isK := constInt(p, init.Rhs[0]); !isK || z != 0 {
			return false
		}
		cond, ok := x.Cond.(*ast.BinaryExpr)
		if !ok || cond.Op != token.LSS || identObj(p, cond.X) != iv {
			return false
		}
		lc, ok := ast.Unparen(cond.Y).(*ast.CallExpr)
		if !ok || len(lc.Args) != 1 || identObj(p, lc.Args[0]) != s {
			return false
		}
		if b, isB := typeutil.Callee(p.TypesInfo, lc).(*types.Builtin); !isB || b.Name() != "len" {
			return false
		}
		if inc, ok := x.Post.(*ast.IncDecStmt); !ok || inc.Tok != token.INC || identObj(p, inc.X) != iv {
			return false
		}
		return storeZero(x.Body, iv)
	}
	return false
}

// writesSlice: does the statement store into an element of s or hand s to a call?
func writesSlice(p *packages.Package, st ast.Stmt, s types.Object) bool {
	w := false
	ast.Inspect(st, func(n ast.Node) bool {
		switch x := n.(type) {
		case *ast.AssignStmt:
			for _, l := range x.Lhs {
				if ix, ok := l.(*ast.IndexExpr); ok && identObj(p, ix.X) == s {
					w = true
				}
			}
		case *ast.IncDecStmt:
			if ix, ok := x.X.(*ast.IndexExpr); ok && identObj(p, ix.X) == s {
				w = true
			}
		case *ast.CallExpr:
			for _, a := range x.Args {
				if identObj(p, a) == s {
					if b, isB := typeutil.Callee(p.TypesInfo, x).(*types.Builtin); !isB || b.Name() != "len" {
						w = true
					}
				}
			}
		}
		return true
	})
	return w
}

// S-STARTGUARD: the UPC/EAN start-guard search on concrete rows, rejected candidates included
func checkStartGuardSearch(c *Ctx, r *Report) {
	r.Rule("S-STARTGUARD", "upceanReader_findStartGuardPattern, folded from source with the guard matcher, PatternMatchVariance and the BitArray queries it calls, on concrete rows: a 1:1:1 guard after a quiet zone is found where it stands, at one and at two pixels per module; a guard-shaped candidate with wider bars that touches the left border (no room for a quiet zone) is passed over and the real guard after it is found at its own position - the runs recorded for a rejected candidate do not leak into the next one; a row without a guard is a not-found error", 1)
	fd, p := c.funcDeclOf("oned", "upceanReader_findStartGuardPattern")
	key := "oned.upceanReader_findStartGuardPattern/rows"
	if fd == nil {
		r.AnchorLost("S-STARTGUARD", key, "function not found")
		return
	}
	r.Analysed(key)
	rowVal := func(s string) *Val {
		words := &Val{K: VList, Local: true}
		for i := 0; i < (len(s)+31)/32; i++ {
			var w uint32
			for b := 0; b < 32 && i*32+b < len(s); b++ {
				if s[i*32+b] == '1' {
					w |= 1 << uint(b)
				}
			}
			words.L = append(words.L, &Val{K: VInt, I: int64(w), T: types.Typ[types.Uint32]})
		}
		return &Val{K: VStruct, Ptr: true, Local: true, Fields: map[string]*Val{"bits": words, "size": vint(int64(len(s)))}}
	}
	scale := func(s string, k int) string {
		out := ""
		for _, ch := range s {
			out += strings.Repeat(string(ch), k)
		}
		return out
	}
	tail := "0001101" + "0011001" + "0010011" + "0111101" + "000000"
	type tc struct {
		desc, row  string
		start, end int64 // -1: not found
	}
	cases := []tc{
		{"quiet zone of 6, guard, digits", "000000" + "101" + tail, 6, 9},
		{"the same at two pixels per module", scale("000000"+"101"+tail, 2), 12, 18},
		{"a candidate of 3-pixel bars at the left border, 6 white pixels, then the guard", "111000111" + "000000" + "101" + tail, 15, 18},
		{"a candidate of 2-pixel bars at the left border, 5 white pixels, then the guard", "110011" + "00000" + "101" + tail, 11, 14},
		{"no bar at all", "00000000000000000000", -1, -1},
	}
	bad := ""
	for _, cs := range cases {
		h := &rpf{unroll: 100000, maxSteps: 2000000, effectCalls: true}
		h.callHook = func(rr *rpf, call *ast.CallExpr, callee types.Object) (*Val, bool) {
			if f, ok := callee.(*types.Func); ok && f.Pkg() != nil && f.Pkg().Path() == "math" && f.Name() == "Inf" && len(call.Args) == 1 {
				if s := rr.expr(call.Args[0]); s.K == VInt {
					return &Val{K: VFloat, F: math.Inf(int(s.I))}, true
				}
			}
			return errCtorHook(rr, call, callee)
		}
		res, err := c.rpfCall(fd, p, []*Val{rowVal(cs.row)}, h)
		if err != nil {
			bad = "?" + cs.desc + ": " + err.Error()
			break
		}
		if len(res) != 2 {
			bad = "?" + cs.desc + ": unexpected result shape"
			break
		}
		if cs.start < 0 {
			if res[1].K == VNil {
				bad = cs.desc + ": a start guard is reported"
				break
			}
			continue
		}
		if res[1].K != VNil {
			bad = fmt.Sprintf("%s (row %s): no start guard is found; it stands at %d..%d", cs.desc, cs.row, cs.start, cs.end)
			break
		}
		got, ok := listInts(res[0])
		if !ok || len(got) != 2 || got[0] != cs.start || got[1] != cs.end {
			bad = fmt.Sprintf("%s (row %s): the start guard is reported at %v; it stands at [%d %d]", cs.desc, cs.row, got, cs.start, cs.end)
			break
		}
	}
	reportFold(r, c, "S-STARTGUARD", key, fd.Pos(), bad)
}
