// gzcheck: static analysis of makiuchi-d/gozxing against properties C01..C20.
//
// Every verdict is computed from /repo's current source: parsed, type-checked and
// lowered to SSA on every run. Nothing from /repo is executed.
package main

import (
	"encoding/json"
	"flag"
	"fmt"
	"os"
	"path/filepath"
	"runtime/debug"
	"sort"
	"strconv"
	"time"
)

type propFunc func(c *Ctx, r *Report)

type propDef struct {
	id    string
	title string
	run   propFunc
}

var props = map[string]*propDef{}

func registerProp(id, title string, f propFunc) {
	props[id] = &propDef{id, title, f}
}

var (
	verifDir = "/verif"
	repoDir  = "/repo"
)

func main() {
	prop := flag.String("prop", "", "property id (C01..C20)")
	tier := flag.String("tier", "", "quick|thorough")
	replay := flag.String("replay", "", "replay file: re-evaluate one obligation on the current tree")
	repo := flag.String("repo", "", "repository root (default /repo; used by self-tests on scratch copies)")
	vdir := flag.String("verif", "", "verif root (default /verif)")
	noEvidence := flag.Bool("no-evidence", false, "do not write evidence/replay files (self-test child runs)")
	list := flag.Bool("list", false, "list rule instances of the property")
	selftest := flag.Bool("selftest", false, "also run the self-test catalogue of the property (implied by -tier thorough)")
	renameIn := flag.String("rename-locals", "", "development aid: rename every local variable of the scratch copy at this directory (see benign.go)")
	benignKind := flag.String("benign", "", "development aid: with -rename-locals <dir>, apply this statement-level rewrite instead (incdec, opassign, vardecl, elsehoist)")
	flag.Parse()
	if *renameIn != "" && *benignKind != "" {
		if err := benignRewrite(*renameIn, *benignKind); err != nil {
			fmt.Fprintln(os.Stderr, err)
			os.Exit(2)
		}
		return
	}
	if *renameIn != "" {
		if err := renameLocals(*renameIn, "zq"); err != nil {
			fmt.Fprintln(os.Stderr, err)
			os.Exit(2)
		}
		return
	}

	if *repo != "" {
		repoDir = *repo
	} else if e := os.Getenv("GZCHECK_REPO"); e != "" {
		repoDir = e
	}
	if *vdir != "" {
		verifDir = *vdir
	} else if e := os.Getenv("GZCHECK_VERIF"); e != "" {
		verifDir = e
	}
	if *tier == "" {
		*tier = os.Getenv("VERIF_TIER")
		if *tier == "" {
			*tier = "quick"
		}
	}
	seed := 0
	if s := os.Getenv("VERIF_SEED"); s != "" {
		if v, err := strconv.Atoi(s); err == nil {
			seed = v
		}
	}

	var onlyKey string
	if *replay != "" {
		b, err := os.ReadFile(*replay)
		if err != nil {
			fmt.Fprintf(os.Stderr, "replay: %v\n", err)
			os.Exit(2)
		}
		var rp replayFile
		if err := json.Unmarshal(b, &rp); err != nil {
			fmt.Fprintf(os.Stderr, "replay: %v\n", err)
			os.Exit(2)
		}
		*prop = rp.Property
		onlyKey = rp.Rule + "|" + rp.Key
		*noEvidence = true
	}

	pd, ok := props[*prop]
	if !ok {
		ids := []string{}
		for id := range props {
			ids = append(ids, id)
		}
		sort.Strings(ids)
		fmt.Fprintf(os.Stderr, "unknown property %q; have %v\n", *prop, ids)
		os.Exit(2)
	}

	debug.SetGCPercent(800)
	stopProf := startProf()
	start := time.Now()
	r := newReport(pd.id, *tier, seed)
	r.noEvidence = *noEvidence

	code := func() (code int) {
		defer func() {
			if x := recover(); x != nil {
				r.Fail("CHECKER", "checker-failure", "", "checker-failure", fmt.Sprintf("panic inside checker: %v\n%s", x, debug.Stack()))
				code = r.finish(start, nil)
			}
		}()
		c, err := loadRepo(repoDir)
		for attempt := 0; err != nil && attempt < 2; attempt++ {
			// the go command is run underneath (go list); under heavy parallel load it has been seen to fail
			// transiently - a failure that is real (type errors, missing files) fails again
			fmt.Fprintf(os.Stderr, "load failed (%v); retrying\n", err)
			time.Sleep(3 * time.Second)
			c, err = loadRepo(repoDir)
		}
		if err != nil {
			r.Fail("CHECKER", "load", "", "checker-failure", "cannot load repository: "+err.Error())
			return r.finish(start, nil)
		}
		c.Tier = *tier
		c.Seed = seed
		pd.run(c, r)
		if (*tier == "thorough" || *selftest) && onlyKey == "" && os.Getenv("GZCHECK_CHILD") == "" {
			runSelftest(pd.id, r)
		}
		if *list {
			for _, o := range r.obls {
				st := "ok"
				if !o.OK {
					st = o.Kind
				}
				fmt.Printf("%-10s %-14s %s  %s\n", st, o.Rule, o.Key, o.Pos)
			}
		}
		if onlyKey != "" {
			found := false
			for _, o := range r.obls {
				if o.Rule+"|"+o.Key == onlyKey {
					found = true
					if o.OK {
						fmt.Printf("replay: obligation %s now discharged on the current tree (%s)\n", onlyKey, o.Pos)
						return 0
					}
					fmt.Printf("replay: obligation %s still fails: %s: %s\n", onlyKey, o.Pos, o.Msg)
					fmt.Printf("VIOLATION property=%s replay=%s\n", pd.id, *replay)
					return 1
				}
			}
			if !found {
				fmt.Printf("replay: obligation %s no longer exists on the current tree\n", onlyKey)
				return 0
			}
		}
		return r.finish(start, c)
	}()
	stopProf()
	os.Exit(code)
}

func mustMkdir(p string) {
	_ = os.MkdirAll(p, 0o755)
}

func relRepo(p string) string {
	if rel, err := filepath.Rel(repoDir, p); err == nil && len(rel) > 0 && rel[0] != '.' {
		return rel
	}
	return p
}
